"""Alpha-normalisation of names that are private to a function.

Rules are written against the names used on the pinned tree.  To keep them independent of a mere renaming, the
following names are mapped back - positionally, by order of first binding - to the names recorded in localnames.json
(generated from the pinned tree, in the loader's normal form, by tools/gen_localnames.py):

  * local variables of a function (assignment, for / with / except targets, comprehension variables),
  * functions nested in it, and - scope by scope - the parameters and locals of those nested functions and lambdas,
  * the parameters of *private* functions / methods (leading underscore), together with the keyword arguments of the
    calls to them inside the module.

A scope is renamed only when it binds the same number of names through the same sequence of binding constructs as on
the pinned tree and no new name collides with a name already used there; otherwise it is left as it is.  Renaming is
scope-aware (a nested function that rebinds a name shadows the outer one).  Renaming never changes structure, so it
cannot hide a behavioural change."""
from __future__ import annotations

import ast
import json
import os
from typing import Dict, List, Optional, Tuple

TABLE_PATH = os.path.join(os.path.dirname(os.path.abspath(__file__)), "localnames.json")
FUNCS = (ast.FunctionDef, ast.AsyncFunctionDef, ast.Lambda)


def _params(fn) -> set:
    return set(_param_list(fn))


def _param_list(fn) -> List[str]:
    a = fn.args
    return [x.arg for x in a.posonlyargs + a.args + a.kwonlyargs] + ([a.vararg.arg] if a.vararg else []) + ([a.kwarg.arg] if a.kwarg else [])


def _scope_nodes(fn: ast.AST):
    """nodes that belong to fn's own scope in document (pre-order) order, not descending into nested functions / lambdas
    (their definitions are yielded).  Document order rather than line numbers: spliced-in code keeps foreign positions."""
    def rec(n):
        yield n
        if isinstance(n, FUNCS):
            # decorators / defaults are evaluated in the enclosing scope
            for d in getattr(n, "decorator_list", []):
                yield from rec(d)
            a = n.args
            for d in list(a.defaults) + [d for d in a.kw_defaults if d is not None]:
                yield from rec(d)
            return
        if isinstance(n, ast.ClassDef):
            # a class body is its own namespace: the names of its methods / attributes are part of its behaviour
            # (visitor dispatch, dataclass fields ...) and are never treated as renamable locals
            for d in list(n.decorator_list) + list(n.bases):
                yield from rec(d)
            return
        for c in ast.iter_child_nodes(n):
            yield from rec(c)
    for c in ast.iter_child_nodes(fn):
        if isinstance(fn, FUNCS) and c is fn.args:
            continue
        yield from rec(c)


def nested_scopes(fn: ast.AST) -> List[ast.AST]:
    """functions / lambdas directly nested in fn's scope, in source order"""
    return [n for n in _scope_nodes(fn) if isinstance(n, FUNCS)]


def scope_bindings(fn: ast.AST, is_nested: bool) -> Tuple[List[str], List[str]]:
    """ordered distinct names bound in fn's own scope with the kind of their first binding.  For a nested scope the
    parameters come first (kind nparam); for an outer function parameters are not included."""
    parents: Dict[int, ast.AST] = {}
    own = list(_scope_nodes(fn))
    for n in [fn] + own:
        for c in ast.iter_child_nodes(n):
            parents[id(c)] = n
    declared = set()
    for n in own:
        if isinstance(n, (ast.Global, ast.Nonlocal)):
            declared |= set(n.names)
    events = []
    if is_nested:
        a = fn.args
        for i, x in enumerate(a.posonlyargs + a.args + a.kwonlyargs + ([a.vararg] if a.vararg else []) + ([a.kwarg] if a.kwarg else [])):
            events.append((-1000 + i, 0, x.arg, "nparam"))
    skip = set() if is_nested else _params(fn)
    for idx, n in enumerate(own):
        if isinstance(n, ast.Name) and isinstance(n.ctx, ast.Store):
            p = n
            kind = "assign"
            while id(p) in parents:
                p = parents[id(p)]
                if isinstance(p, ast.comprehension):
                    kind = "comp"
                    break
                if isinstance(p, (ast.For, ast.AsyncFor)):
                    kind = "for" if any(x is n for x in ast.walk(p.target)) else "assign"
                    break
                if isinstance(p, (ast.With, ast.AsyncWith)):
                    kind = "with" if any(x is n for it in p.items if it.optional_vars is not None for x in ast.walk(it.optional_vars)) else "assign"
                    break
                if isinstance(p, (ast.Assign, ast.AnnAssign, ast.AugAssign, ast.NamedExpr)):
                    break
            events.append((idx, 0, n.id, kind, (n, p if id(p) != id(n) else None)))
        elif isinstance(n, ast.ExceptHandler) and n.name:
            events.append((idx, 0, n.name, "except", (n, n)))
        elif isinstance(n, (ast.FunctionDef, ast.AsyncFunctionDef)):
            events.append((idx, 0, n.name, "def", (n, n)))
    events.sort(key=lambda e: e[:4])
    names: List[str] = []
    kinds: List[str] = []
    nodes: List[tuple] = []
    for ev in events:
        name, kind = ev[2], ev[3]
        if name in skip or name in declared or name == "_" or name in names:
            continue
        names.append(name)
        kinds.append(kind)
        nodes.append(ev[4] if len(ev) > 4 else (None, None))
    if _WANT_NODES:
        return names, kinds, nodes
    return names, kinds


_WANT_NODES = False


def binding_signatures(fn: ast.AST, is_nested: bool) -> Tuple[List[str], List[str], List[str]]:
    """(names, kinds, signatures): the signature of a name is the text of what its first binding binds it to, with every
    local name of the scope masked - two spellings of the same local have the same signature"""
    global _WANT_NODES
    _WANT_NODES = True
    try:
        names, kinds, nodes = scope_bindings(fn, is_nested)
    finally:
        _WANT_NODES = False
    local = set(names)

    class Mask(ast.NodeTransformer):
        def visit_Name(self, n):
            return ast.copy_location(ast.Name(id="_", ctx=n.ctx), n) if n.id in local else n

    def text(e):
        import copy as _c
        try:
            return " ".join(ast.unparse(Mask().visit(_c.deepcopy(e))).split())
        except Exception:
            return "?"

    def path(target, node):
        if target is node:
            return ""
        if isinstance(target, (ast.Tuple, ast.List)):
            for i, t in enumerate(target.elts):
                r = path(t, node)
                if r is not None:
                    return f"[{i}]{r}"
        if isinstance(target, ast.Starred):
            r = path(target.value, node)
            return None if r is None else "*" + r
        return None
    sigs: List[str] = []
    for nm, kind, (n, p) in zip(names, kinds, nodes):
        sig = kind
        try:
            if kind == "assign" and isinstance(p, (ast.Assign, ast.AnnAssign, ast.AugAssign, ast.NamedExpr)):
                tg = p.targets[0] if isinstance(p, ast.Assign) else p.target
                pos = path(tg, n) or ""
                sig = f"assign{pos}:{text(p.value) if p.value is not None else ''}"
            elif kind == "for" and isinstance(p, (ast.For, ast.AsyncFor)):
                sig = f"for{path(p.target, n) or ''}:{text(p.iter)}"
            elif kind == "comp" and isinstance(p, ast.comprehension):
                sig = f"comp{path(p.target, n) or ''}:{text(p.iter)}"
            elif kind == "with" and isinstance(p, (ast.With, ast.AsyncWith)):
                for it in p.items:
                    if it.optional_vars is not None and any(x is n for x in ast.walk(it.optional_vars)):
                        sig = f"with:{text(it.context_expr)}"
            elif kind == "except" and isinstance(n, ast.ExceptHandler):
                sig = f"except:{text(n.type) if n.type is not None else ''}"
            elif kind == "def":
                sig = f"def:{len(n.args.args)}"
            elif kind == "nparam":
                sig = f"nparam:{names.index(nm)}"
        except Exception:
            pass
        sigs.append(sig)
    return names, kinds, sigs


def describe(fn: ast.AST, is_nested: bool = False) -> dict:
    names, kinds, sigs = binding_signatures(fn, is_nested)
    d = {"names": names, "kinds": kinds, "sigs": sigs}
    nested = [describe(n, True) for n in nested_scopes(fn)]
    if nested:
        d["nested"] = nested
    return d


def binding_sequence(fn: ast.AST) -> Tuple[List[str], List[str]]:
    """flattened (outer scope, then nested scopes in order) - kept for the sweeps"""
    d = describe(fn)
    names, kinds = list(d["names"]), list(d["kinds"])

    def rec(x):
        for n in x.get("nested", []):
            names.extend(n["names"])
            kinds.extend(n["kinds"])
            rec(n)
    rec(d)
    return names, kinds


class _Renamer(ast.NodeTransformer):
    """renames the names of ONE scope inside that scope's subtree; nested scopes that bind a name themselves shadow it"""

    def __init__(self, mapping: Dict[str, str], root):
        self.m = mapping
        self.root = root

    def visit_Name(self, n):
        if n.id in self.m:
            n.id = self.m[n.id]
        return n

    def visit_ExceptHandler(self, n):
        if n.name in self.m:
            n.name = self.m[n.name]
        self.generic_visit(n)
        return n

    def visit_arg(self, n):
        return n

    def _enter(self, n):
        if n is self.root:
            # parameters of the root scope (nested function being renamed)
            a = n.args
            for x in a.posonlyargs + a.args + a.kwonlyargs + ([a.vararg] if a.vararg else []) + ([a.kwarg] if a.kwarg else []):
                if x.arg in self.m:
                    x.arg = self.m[x.arg]
            self.generic_visit(n)
            return n
        if isinstance(n, (ast.FunctionDef, ast.AsyncFunctionDef)) and n.name in self.m:
            n.name = self.m[n.name]
        own, _ = scope_bindings(n, True)
        shadow = set(own) & set(self.m)
        if shadow:
            sub = _Renamer({k: v for k, v in self.m.items() if k not in shadow}, self.root)
            # defaults / decorators belong to the enclosing scope
            for d in getattr(n, "decorator_list", []):
                self.visit(d)
            n.args.defaults = [self.visit(d) for d in n.args.defaults]
            n.args.kw_defaults = [self.visit(d) if d is not None else None for d in n.args.kw_defaults]
            if isinstance(n.body, list):
                n.body = [sub.visit(s) for s in n.body]
            else:
                n.body = sub.visit(n.body)
            return n
        self.generic_visit(n)
        return n

    visit_FunctionDef = visit_AsyncFunctionDef = visit_Lambda = _enter


def outer_functions(tree: ast.Module):
    """(qualname, node) of functions that are not nested inside another function"""
    out = []

    def rec(body, prefix):
        for st in body:
            if isinstance(st, (ast.FunctionDef, ast.AsyncFunctionDef)):
                out.append((prefix + st.name, st))
            elif isinstance(st, ast.ClassDef):
                rec(st.body, prefix + st.name + ".")
            elif isinstance(st, (ast.If, ast.Try)):
                for b in (getattr(st, "body", []), getattr(st, "orelse", []), getattr(st, "finalbody", [])):
                    rec(b, prefix)
                for h in getattr(st, "handlers", []):
                    rec(h.body, prefix)
    rec(tree.body, "")
    return out


_table: Optional[dict] = None


def table() -> dict:
    global _table
    if _table is None:
        try:
            _table = json.load(open(TABLE_PATH))
        except Exception:
            _table = {}
    return _table


class _ParamRenamer(ast.NodeTransformer):
    def __init__(self, mapping: Dict[str, str]):
        self.m = mapping

    def visit_Name(self, n):
        if n.id in self.m:
            n.id = self.m[n.id]
        return n

    def visit_arg(self, n):
        if n.arg in self.m:
            n.arg = self.m[n.arg]
        return n


def normalise_private_params(relpath: str, tree: ast.Module) -> List[str]:
    """parameters of private functions (leading underscore) are an implementation detail: when such a function has the
    same number of parameters as on the pinned tree but other names, the pinned names are restored - in the function and
    in the keyword arguments of calls to it inside the module"""
    tab = table().get(relpath, {})
    done = []
    for q, fn in outer_functions(tree):
        ent = tab.get(q)
        if not ent or "params" not in ent or not fn.name.startswith("_") or fn.name.startswith("__"):
            continue
        cur = _param_list(fn)
        old = ent["params"]
        if cur == old or len(cur) != len(old):
            continue
        mapping = {a: b for a, b in zip(cur, old) if a != b}
        used = {n.id for n in ast.walk(fn) if isinstance(n, ast.Name)} | set(cur)
        if any(t in used and t not in mapping for t in mapping.values()) or len(set(mapping.values())) != len(mapping):
            continue
        _ParamRenamer(mapping).visit(fn)
        for c in ast.walk(tree):
            if isinstance(c, ast.Call):
                f = c.func
                nm = f.attr if isinstance(f, ast.Attribute) else f.id if isinstance(f, ast.Name) else None
                if nm == fn.name:
                    for k in c.keywords:
                        if k.arg in mapping:
                            k.arg = mapping[k.arg]
        done.append(q)
    return done


def private_attributes(cls: ast.ClassDef) -> List[str]:
    """private instance attributes (`self._x`) in document order of their first assignment in __init__"""
    out: List[str] = []
    for st in cls.body:
        if isinstance(st, (ast.FunctionDef, ast.AsyncFunctionDef)) and st.name == "__init__":
            def rec(n):
                if isinstance(n, ast.Attribute) and isinstance(n.ctx, ast.Store) and isinstance(n.value, ast.Name) and n.value.id == "self" \
                        and n.attr.startswith("_") and not n.attr.startswith("__") and n.attr not in out:
                    out.append(n.attr)
                for c in ast.iter_child_nodes(n):
                    rec(c)
            rec(st)
    return out


def normalise_private_attributes(relpath: str, tree: ast.Module) -> List[str]:
    """a private attribute (`self._x`, first assigned in __init__) that was renamed gets its pinned name back when the class
    still assigns the same number of private attributes in __init__ and the pinned name is no longer used"""
    tab = table().get(relpath, {})
    done = []
    for st in tree.body:
        if not isinstance(st, ast.ClassDef):
            continue
        want = tab.get("<attrs>:" + st.name)
        if not want:
            continue
        cur = private_attributes(st)
        if cur == want or len(cur) != len(want):
            continue
        mapping = {a: b for a, b in zip(cur, want) if a != b}
        used = {n.attr for n in ast.walk(st) if isinstance(n, ast.Attribute)}
        if any(b in used for b in mapping.values()) or len(set(mapping.values())) != len(mapping):
            continue
        # a renamed attribute and a property / method of the same new name would clash: skip then
        members = {x.name for x in st.body if isinstance(x, (ast.FunctionDef, ast.AsyncFunctionDef))}
        if members & set(mapping):
            continue
        for n in ast.walk(st):
            if isinstance(n, ast.Attribute) and isinstance(n.value, ast.Name) and n.value.id == "self" and n.attr in mapping:
                n.attr = mapping[n.attr]
        done.append(f"attrs:{st.name}")
    return done


def _rename_scope(fn, ent: dict, is_nested: bool) -> bool:
    """rename one scope (and, recursively, its nested scopes); True if anything was renamed"""
    changed = False
    names, kinds = scope_bindings(fn, is_nested)
    want = ent.get("names", [])
    if names != want and len(names) == len(want) and kinds == ent.get("kinds", []):
        mapping = {a: b for a, b in zip(names, want) if a != b}
        used = {n.id for n in ast.walk(fn) if isinstance(n, ast.Name)} | {p for f in [fn] + [x for x in ast.walk(fn) if isinstance(x, FUNCS)] for p in _param_list(f)}
        if mapping and not any(t in used and t not in mapping for t in mapping.values()) and len(set(mapping.values())) == len(mapping):
            r = _Renamer(mapping, fn)
            if is_nested:
                r._enter(fn)
            else:
                fn.body = [r.visit(s) for s in fn.body]
            changed = True
    elif names != want and ent.get("sigs"):
        # locals were added or removed besides being renamed: align what can be aligned.  A name that exists on both
        # sides stays; a name that exists only here is given the recorded name that exists only there when both are bound
        # the same way to the same thing (same kind, same signature, unique on both sides)
        cur_names, cur_kinds, cur_sigs = binding_signatures(fn, is_nested)
        old_only = [(n, k, g) for n, k, g in zip(want, ent.get("kinds", []), ent.get("sigs", [])) if n not in cur_names]
        new_only = [(n, k, g) for n, k, g in zip(cur_names, cur_kinds, cur_sigs) if n not in want]
        mapping = {}
        for n, k, g in new_only:
            if g in ("assign", "for", "comp") or g.endswith(":") or sum(1 for x in new_only if x[1:] == (k, g)) != 1:
                continue
            cands = [o for o in old_only if o[1:] == (k, g)]
            if len(cands) == 1:
                mapping[n] = cands[0][0]
        used = {n.id for n in ast.walk(fn) if isinstance(n, ast.Name)} | {p for f in [fn] + [x for x in ast.walk(fn) if isinstance(x, FUNCS)] for p in _param_list(f)}
        if mapping and not any(t in used for t in mapping.values()) and len(set(mapping.values())) == len(mapping):
            r = _Renamer(mapping, fn)
            if is_nested:
                r._enter(fn)
            else:
                fn.body = [r.visit(s) for s in fn.body]
            changed = True
    subs = nested_scopes(fn)
    ents = ent.get("nested", [])
    if len(subs) == len(ents):
        for s, e in zip(subs, ents):
            if _rename_scope(s, e, True):
                changed = True
    return changed


def normalise_module(relpath: str, tree: ast.Module) -> List[str]:
    """rename private names of the module's functions back to the recorded names; returns the functions touched"""
    tab = table().get(relpath, {})
    done = ["params:" + x for x in normalise_private_params(relpath, tree)] + normalise_private_attributes(relpath, tree)
    for q, fn in outer_functions(tree):
        ent = tab.get(q)
        if not ent or "names" not in ent:
            continue
        if _rename_scope(fn, ent, False):
            done.append(q)
    return done
