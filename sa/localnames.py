"""Alpha-normalisation of local variable names.

Rules are written against the local names used on the pinned tree.  To keep them
independent of a mere renaming of locals, each function's locals are mapped back -
positionally, by order of first binding - to the names recorded in localnames.json
(generated from the pinned tree by tools/gen_localnames.py).  The mapping is applied
only when the function binds the same number of locals through the same sequence of
binding constructs and no name would collide; otherwise the function is left as it
is.  Renaming never changes structure, so it cannot hide a behavioural change."""
from __future__ import annotations

import ast
import json
import os
from typing import Dict, List, Optional, Tuple

TABLE_PATH = os.path.join(os.path.dirname(os.path.abspath(__file__)), "localnames.json")


def _params(fn) -> set:
    a = fn.args
    out = {x.arg for x in a.posonlyargs + a.args + a.kwonlyargs}
    if a.vararg:
        out.add(a.vararg.arg)
    if a.kwarg:
        out.add(a.kwarg.arg)
    return out


def binding_sequence(fn: ast.AST) -> Tuple[List[str], List[str]]:
    """ordered (by source position) distinct local names bound inside `fn` (nested
    functions included, parameters excluded) with the kind of their first binding"""
    params = set(_params(fn))
    for n in ast.walk(fn):
        if n is not fn and isinstance(n, (ast.FunctionDef, ast.AsyncFunctionDef, ast.Lambda)):
            params |= _params(n)
    parents: Dict[int, ast.AST] = {}
    for n in ast.walk(fn):
        for c in ast.iter_child_nodes(n):
            parents[id(c)] = n
    glob = set()
    for n in ast.walk(fn):
        if isinstance(n, (ast.Global, ast.Nonlocal)):
            glob |= set(n.names)
    events = []
    for n in ast.walk(fn):
        if isinstance(n, ast.Name) and isinstance(n.ctx, ast.Store):
            p = n
            kind = "assign"
            while id(p) in parents:
                p = parents[id(p)]
                if isinstance(p, ast.comprehension):
                    kind = "comp"
                    break
                if isinstance(p, (ast.For, ast.AsyncFor)):
                    kind = "for" if any(x is n for x in ast.walk(p.target)) else "assign"
                    break
                if isinstance(p, (ast.With, ast.AsyncWith)):
                    kind = "with" if any(x is n for it in p.items if it.optional_vars is not None for x in ast.walk(it.optional_vars)) else "assign"
                    break
                if isinstance(p, (ast.Assign, ast.AnnAssign, ast.AugAssign, ast.NamedExpr)):
                    break
            events.append((n.lineno, n.col_offset, n.id, kind))
        elif isinstance(n, ast.ExceptHandler) and n.name:
            events.append((n.lineno, n.col_offset, n.name, "except"))
    events.sort()
    names: List[str] = []
    kinds: List[str] = []
    for _, _, name, kind in events:
        if name in params or name in glob or name == "_" or name in names:
            continue
        names.append(name)
        kinds.append(kind)
    return names, kinds


class _Renamer(ast.NodeTransformer):
    def __init__(self, mapping: Dict[str, str]):
        self.m = mapping

    def visit_Name(self, n):
        if n.id in self.m:
            n.id = self.m[n.id]
        return n

    def visit_ExceptHandler(self, n):
        if n.name in self.m:
            n.name = self.m[n.name]
        self.generic_visit(n)
        return n


def outer_functions(tree: ast.Module):
    """(qualname, node) of functions that are not nested inside another function"""
    out = []

    def rec(body, prefix):
        for st in body:
            if isinstance(st, (ast.FunctionDef, ast.AsyncFunctionDef)):
                out.append((prefix + st.name, st))
            elif isinstance(st, ast.ClassDef):
                rec(st.body, prefix + st.name + ".")
            elif isinstance(st, (ast.If, ast.Try)):
                for b in (getattr(st, "body", []), getattr(st, "orelse", []), getattr(st, "finalbody", [])):
                    rec(b, prefix)
                for h in getattr(st, "handlers", []):
                    rec(h.body, prefix)
    rec(tree.body, "")
    return out


_table: Optional[dict] = None


def table() -> dict:
    global _table
    if _table is None:
        try:
            _table = json.load(open(TABLE_PATH))
        except Exception:
            _table = {}
    return _table


def normalise_module(relpath: str, tree: ast.Module) -> List[str]:
    """rename locals of the module's functions back to the recorded names; returns the
    list of functions that were alpha-normalised"""
    tab = table().get(relpath, {})
    done = []
    for q, fn in outer_functions(tree):
        ent = tab.get(q)
        if not ent:
            continue
        names, kinds = binding_sequence(fn)
        if names == ent["names"]:
            continue
        if len(names) != len(ent["names"]) or kinds != ent["kinds"]:
            continue
        mapping = {a: b for a, b in zip(names, ent["names"]) if a != b}
        if not mapping:
            continue
        # no collision: a target name must not already denote something else in the function
        used = {n.id for n in ast.walk(fn) if isinstance(n, ast.Name)} | _params(fn)
        targets = set(mapping.values())
        if any(t in used and t not in mapping for t in targets):
            continue
        if len(set(mapping.values())) != len(mapping):
            continue
        _Renamer(mapping).visit(fn)
        done.append(q)
    return done
