"""Shape extraction: a small abstract interpreter over the generator's own source
that computes, without running it, the *shape* of the Python AST a generator
function emits.  Leaves that are only known at generation time stay symbolic and
carry their provenance (parameter / attribute chain / call), which is what the
provenance rules query.

Values
  Lit(value)                constant known statically
  Node(kind, fields)        an emitted ast node (ast.Call, ast.Name ...)
  Seq(items)                list/tuple; items may be Star(v) (splice) or Rep(v) (0..n times, from a loop)
  ListOf(elt, gens)         comprehension
  DictV(items)              dict literal (key may be None for **splat)
  Param(name)               parameter of the function under analysis
  Attr(base, attr) / Index(base, key) / CallV(func, args, kwargs)
  Alt(options)              one of several values (unknown condition)
  OrV(a, b) / Fmt(parts) / BinV(op, l, r) / Unknown(text)
"""
from __future__ import annotations

import ast
import sys
from typing import Any, Callable, Dict, Iterator, List, Optional, Tuple

from .model import AnalysisError, ClassInfo, FuncInfo, Module, NotConst, Repo, SymPath, norm

MAX_DEPTH = 7


class V:
    def children(self) -> List["V"]:
        return []

    def walk(self) -> Iterator["V"]:
        stack = [self]
        while stack:
            v = stack.pop()
            yield v
            stack.extend(v.children())

    def show(self) -> str:
        return repr(self)


class Lit(V):
    def __init__(self, value):
        self.value = value

    def __repr__(self):
        return f"Lit({self.value!r})"


class Node(V):
    def __init__(self, kind: str, fields: Dict[str, V], src: Optional[ast.AST] = None, where: str = ""):
        self.kind = kind
        self.fields = fields
        self.src = src
        self.where = where

    def get(self, name: str) -> Optional[V]:
        return self.fields.get(name)

    def children(self):
        return list(self.fields.values())

    def __repr__(self):
        inner = ", ".join(f"{k}={v!r}" for k, v in self.fields.items() if k not in ("lineno",))
        return f"{self.kind}({inner})"


class Seq(V):
    def __init__(self, items: List[V]):
        self.items = items

    def children(self):
        return list(self.items)

    def __repr__(self):
        return "[" + ", ".join(map(repr, self.items)) + "]"


class Star(V):
    def __init__(self, value: V):
        self.value = value

    def children(self):
        return [self.value]

    def __repr__(self):
        return f"*{self.value!r}"


class Rep(V):
    def __init__(self, value: V, loop: str = ""):
        self.value = value
        self.loop = loop

    def children(self):
        return [self.value]

    def __repr__(self):
        return f"Rep({self.value!r})"


class ListOf(V):
    def __init__(self, elt: V, gens: List[Tuple[str, V, List[V]]], kind: str = "list", key: Optional[V] = None):
        self.elt = elt
        self.gens = gens
        self.kind = kind
        self.key = key

    def children(self):
        out = [self.elt] + ([self.key] if self.key is not None else [])
        for _, it, ifs in self.gens:
            out.append(it)
            out.extend(ifs)
        return out

    def __repr__(self):
        g = " ".join(f"for {t} in {it!r}" + "".join(f" if {c!r}" for c in ifs) for t, it, ifs in self.gens)
        return f"[{self.elt!r} {g}]"


class DictV(V):
    def __init__(self, items: List[Tuple[Optional[V], V]]):
        self.items = items

    def children(self):
        out = []
        for k, v in self.items:
            if k is not None:
                out.append(k)
            out.append(v)
        return out

    def lookup(self, key) -> Optional[V]:
        res = None
        for k, v in self.items:
            if isinstance(k, Lit) and k.value == key:
                res = v
        return res

    def __repr__(self):
        return "{" + ", ".join((f"{k!r}: {v!r}" if k is not None else f"**{v!r}") for k, v in self.items) + "}"


class Param(V):
    def __init__(self, name: str, fn: str = ""):
        self.name = name
        self.fn = fn

    def __repr__(self):
        return f"${self.name}"


class LoopVar(V):
    def __init__(self, name: str, it: V):
        self.name = name
        self.it = it

    def children(self):
        return [self.it]

    def __repr__(self):
        return f"%{self.name}"


class Attr(V):
    def __init__(self, base: V, attr: str):
        self.base = base
        self.attr = attr

    def children(self):
        return [self.base]

    def __repr__(self):
        return f"{self.base!r}.{self.attr}"


class Index(V):
    def __init__(self, base: V, key: V):
        self.base = base
        self.key = key

    def children(self):
        return [self.base, self.key]

    def __repr__(self):
        return f"{self.base!r}[{self.key!r}]"


class CallV(V):
    def __init__(self, func: Any, args: List[V], kwargs: Dict[str, V], src: Optional[ast.AST] = None, fname: str = ""):
        self.func = func  # V or str
        self.args = args
        self.kwargs = kwargs
        self.src = src
        self.fname = fname  # resolved or syntactic dotted name

    def children(self):
        out = list(self.args) + list(self.kwargs.values())
        if isinstance(self.func, V):
            out.append(self.func)
        return out

    def __repr__(self):
        a = ", ".join([repr(x) for x in self.args] + [f"{k}={v!r}" for k, v in self.kwargs.items()])
        return f"{self.fname or self.func!r}({a})"


class Alt(V):
    def __init__(self, options: List[Tuple[str, V]]):
        self.options = options

    def children(self):
        return [v for _, v in self.options]

    def __repr__(self):
        return "Alt(" + " | ".join(f"{c}: {v!r}" for c, v in self.options) + ")"


class OrV(V):
    def __init__(self, a: V, b: V):
        self.a = a
        self.b = b

    def children(self):
        return [self.a, self.b]

    def __repr__(self):
        return f"({self.a!r} or {self.b!r})"


class Fmt(V):
    def __init__(self, parts: List[V]):
        self.parts = parts

    def children(self):
        return list(self.parts)

    def __repr__(self):
        return "f" + "+".join(map(repr, self.parts))


class BinV(V):
    def __init__(self, op: str, l: V, r: V):
        self.op = op
        self.l = l
        self.r = r

    def children(self):
        return [self.l, self.r]

    def __repr__(self):
        return f"({self.l!r} {self.op} {self.r!r})"


class Diverge(V):
    """the block raises on this path"""

    def __repr__(self):
        return "<raises>"


DIVERGE = Diverge()


class Unknown(V):
    def __init__(self, text: str, src: Optional[ast.AST] = None):
        self.text = text
        self.src = src

    def __repr__(self):
        return f"?<{self.text[:50]}>"


# --------------------------------------------------------------------------
def alts(v: V) -> List[V]:
    """flatten Alt / OrV into the list of possible values"""
    if isinstance(v, Alt):
        out = []
        for _, o in v.options:
            out.extend(alts(o))
        return out
    if isinstance(v, OrV):
        return alts(v.a) + alts(v.b)
    return [v]


def lit(v: Optional[V]):
    """python value of a Lit, or raise KeyError"""
    if isinstance(v, Lit):
        return v.value
    raise KeyError(repr(v))


def is_lit(v: Optional[V], value=None) -> bool:
    return isinstance(v, Lit) and (value is None or v.value == value)


def nodes(v: V, kind: Optional[str] = None) -> List[Node]:
    return [x for x in v.walk() if isinstance(x, Node) and (kind is None or x.kind == kind)]


def seq_items(v: Optional[V]) -> List[V]:
    """items of a Seq (flattening Star(Seq)); [] for None/Lit(None)"""
    if v is None or is_lit(v) and v.value in (None, [], ()):
        return []
    if isinstance(v, Seq):
        out = []
        for it in v.items:
            if isinstance(it, Star) and isinstance(it.value, Seq):
                out.extend(seq_items(it.value))
            else:
                out.append(it)
        return out
    if isinstance(v, OrV):
        a = seq_items(v.a) if isinstance(v.a, Seq) else None
        if a:
            return a
        if isinstance(v.a, Seq):
            return seq_items(v.b)
    return [Star(v)]


def origin_atoms(v: V) -> List[V]:
    """symbolic leaves a value is computed from"""
    out = []
    for x in v.walk():
        if isinstance(x, (Param, LoopVar, Unknown)):
            out.append(x)
    return out


def chain(v: V) -> str:
    """textual access chain, e.g. $definition.name.value"""
    if isinstance(v, Param):
        return "$" + v.name
    if isinstance(v, LoopVar):
        return "%" + v.name
    if isinstance(v, Attr):
        return chain(v.base) + "." + v.attr
    if isinstance(v, Index):
        return chain(v.base) + "[" + chain(v.key) + "]"
    if isinstance(v, Lit):
        return repr(v.value)
    if isinstance(v, CallV):
        return (v.fname or "?") + "(" + ",".join(chain(a) for a in v.args) + ")"
    if isinstance(v, Unknown):
        return "?" + v.text
    return type(v).__name__


# --------------------------------------------------------------------------
class Env:
    def __init__(self, module: Module, fi: Optional[FuncInfo], vars_: Optional[Dict[str, V]] = None,
                 self_cls: Optional[ClassInfo] = None, self_attrs: Optional[Dict[str, V]] = None):
        self.module = module
        self.fi = fi
        self.vars: Dict[str, V] = vars_ or {}
        self.self_cls = self_cls
        self.self_attrs: Dict[str, V] = self_attrs if self_attrs is not None else {}
        self.loop_depth = 0

    def copy(self) -> "Env":
        e = Env(self.module, self.fi, dict(self.vars), self.self_cls, self.self_attrs)
        e.loop_depth = self.loop_depth
        return e


class Shaper:
    """abstract interpreter; `opaque` lists function keys that must not be inlined"""

    def __init__(self, repo: Repo, opaque: Optional[set] = None, max_depth: int = MAX_DEPTH,
                 inline: Optional[set] = None, inline_all: bool = False):
        self.repo = repo
        self.opaque = opaque or set()
        self.inline = inline or set()
        self.inline_all = inline_all
        self.max_depth = max_depth
        self._init_cache: Dict[str, Dict[str, V]] = {}
        self._stack: List[str] = []
        self._root_cls: Optional[ClassInfo] = None

    def _may_inline(self, fi: FuncInfo) -> bool:
        """default policy: inline the AST helper module (codegen), methods of the class
        under analysis, and functions named in `inline`; never recursion"""
        if fi.key in self._stack or fi.key in self.opaque:
            return False
        if self.inline_all or fi.key in self.inline:
            return True
        if fi.module.short == "codegen":
            return True
        if fi.cls is not None and self._root_cls is not None and fi.cls in self.repo.mro(self._root_cls):
            return True
        return False

    # --------------------------------------------------------------- entry
    def call_function(self, fi: FuncInfo, args: Optional[Dict[str, V]] = None, depth: int = 0,
                      self_attrs: Optional[Dict[str, V]] = None) -> V:
        """abstractly run `fi` with symbolic parameters (Param) unless given"""
        args = dict(args or {})
        if depth == 0:
            self._root_cls = fi.cls
        env = Env(fi.module, fi, {}, fi.cls, self_attrs)
        a = fi.node.args
        pos = a.posonlyargs + a.args
        defaults: Dict[str, ast.expr] = {}
        for p, d in zip(pos[len(pos) - len(a.defaults):], a.defaults):
            defaults[p.arg] = d
        for p, d in zip(a.kwonlyargs, a.kw_defaults):
            if d is not None:
                defaults[p.arg] = d
        for p in pos + a.kwonlyargs:
            if p.arg in args:
                env.vars[p.arg] = args[p.arg]
            elif depth > 0 and p.arg in defaults:
                env.vars[p.arg] = self.eval(defaults[p.arg], Env(fi.module, None), depth)
            else:
                env.vars[p.arg] = Param(p.arg, fi.key)
        if a.vararg:
            env.vars[a.vararg.arg] = args.get("*" + a.vararg.arg, Param(a.vararg.arg, fi.key))
        if a.kwarg:
            env.vars[a.kwarg.arg] = args.get("**" + a.kwarg.arg, Param(a.kwarg.arg, fi.key))
        if fi.cls is not None and pos and pos[0].arg in ("self", "cls") and pos[0].arg not in args:
            env.vars[pos[0].arg] = Param(pos[0].arg, fi.key)
        self._stack.append(fi.key)
        try:
            ret = self.exec_block(fi.node.body, env, depth)
        finally:
            self._stack.pop()
        if ret is None:
            pend = env.vars.pop("<ret>", None)
            return pend if pend is not None else Lit(None)
        if ret is DIVERGE:
            return Unknown("raises")
        return ret

    # ---------------------------------------------------------- statements
    def exec_block(self, body: List[ast.stmt], env: Env, depth: int) -> Optional[V]:
        """returns the returned value if the block returns on all paths (Alt when
        several), else None; partial returns are folded into env['<ret>']"""
        for i, st in enumerate(body):
            r = self.exec_stmt(st, env, depth)
            if r is not None:
                pend = env.vars.pop("<ret>", None)
                if pend is not None:
                    if r is DIVERGE:
                        return pend
                    return Alt([("", pend), ("", r)])
                return r
        return None

    def _pending_return(self, env: Env, cond: str, v: V) -> None:
        prev = env.vars.get("<ret>")
        env.vars["<ret>"] = Alt([("", prev), (cond, v)]) if prev is not None else Alt([(cond, v)])

    def exec_stmt(self, st: ast.stmt, env: Env, depth: int) -> Optional[V]:
        if isinstance(st, ast.Return):
            return self.eval(st.value, env, depth) if st.value is not None else Lit(None)
        if isinstance(st, ast.Expr):
            if isinstance(st.value, ast.Constant):
                return None
            self._effect(st.value, env, depth)
            return None
        if isinstance(st, ast.Assign):
            val = self.eval(st.value, env, depth)
            for t in st.targets:
                self._assign(t, val, env, depth)
            return None
        if isinstance(st, ast.AnnAssign):
            if st.value is not None:
                self._assign(st.target, self.eval(st.value, env, depth), env, depth)
            return None
        if isinstance(st, ast.AugAssign):
            cur = self.eval(st.target, env, depth)
            val = self.eval(st.value, env, depth)
            self._assign(st.target, self._binop(type(st.op).__name__, cur, val), env, depth)
            return None
        if isinstance(st, ast.If):
            t = self._truth(self.eval(st.test, env, depth))
            if t is True:
                return self.exec_block(st.body, env, depth)
            if t is False:
                return self.exec_block(st.orelse, env, depth) if st.orelse else None
            cond = norm(st.test)
            e1, e2 = env.copy(), env.copy()
            r1 = self.exec_block(st.body, e1, depth)
            r2 = self.exec_block(st.orelse, e2, depth) if st.orelse else None
            if r1 is DIVERGE and r2 is DIVERGE:
                return DIVERGE
            if r1 is DIVERGE:
                self._adopt(env, e2)
                return r2
            if r2 is DIVERGE:
                self._adopt(env, e1)
                return r1
            if r1 is not None and r2 is not None:
                self._merge_pending(env, e1, e2)
                return Alt([(cond, r1), (f"not ({cond})", r2)])
            if r1 is not None:
                self._adopt(env, e2)
                self._pending_return(env, cond, r1)
                return None
            if r2 is not None:
                self._adopt(env, e1)
                self._pending_return(env, f"not ({cond})", r2)
                return None
            self._merge(env, e1, e2, cond)
            return None
        if isinstance(st, (ast.For, ast.AsyncFor)):
            it = self.eval(st.iter, env, depth)
            env.loop_depth += 1
            self._bind_loop_target(st.target, it, env)
            # variables assigned in the loop body become loop-carried: evaluate once
            self.exec_block(st.body, env, depth)
            env.loop_depth -= 1
            return None
        if isinstance(st, ast.While):
            env.loop_depth += 1
            self.exec_block(st.body, env, depth)
            env.loop_depth -= 1
            return None
        if isinstance(st, (ast.With, ast.AsyncWith)):
            for item in st.items:
                v = self.eval(item.context_expr, env, depth)
                if item.optional_vars is not None:
                    self._assign(item.optional_vars, v, env, depth)
            return self.exec_block(st.body, env, depth)
        if isinstance(st, ast.Try):
            r = self.exec_block(st.body, env, depth)
            return r
        if isinstance(st, ast.Raise):
            return DIVERGE
        if isinstance(st, (ast.Pass, ast.Import, ast.ImportFrom, ast.Assert, ast.FunctionDef,
                           ast.AsyncFunctionDef, ast.ClassDef, ast.Global, ast.Nonlocal, ast.Delete,
                           ast.Break, ast.Continue)):
            return None
        return None

    def _adopt(self, env: Env, other: Env) -> None:
        env.vars = other.vars

    def _merge_pending(self, env: Env, e1: Env, e2: Env) -> None:
        for e in (e1, e2):
            if "<ret>" in e.vars:
                self._pending_return(env, "", e.vars["<ret>"])

    def _merge(self, env: Env, e1: Env, e2: Env, cond: str) -> None:
        keys = set(e1.vars) | set(e2.vars)
        out = {}
        for k in keys:
            a, b = e1.vars.get(k), e2.vars.get(k)
            if a is b:
                out[k] = a
            elif a is None or b is None:
                out[k] = Alt([(cond, a if a is not None else Unknown("unbound")),
                              (f"not ({cond})", b if b is not None else Unknown("unbound"))])
            else:
                out[k] = Alt([(cond, a), (f"not ({cond})", b)])
        env.vars = out

    def _bind_loop_target(self, target: ast.expr, it: V, env: Env) -> None:
        if isinstance(target, ast.Name):
            env.vars[target.id] = LoopVar(target.id, it)
        elif isinstance(target, (ast.Tuple, ast.List)):
            for t in target.elts:
                self._bind_loop_target(t, it, env)

    def _assign(self, target: ast.expr, val: V, env: Env, depth: int) -> None:
        if isinstance(target, ast.Name):
            env.vars[target.id] = val
        elif isinstance(target, (ast.Tuple, ast.List)):
            items = val.items if isinstance(val, Seq) and len(val.items) == len(target.elts) else None
            for i, t in enumerate(target.elts):
                self._assign(t, items[i] if items else Index(val, Lit(i)), env, depth)
        elif isinstance(target, ast.Attribute):
            base = self.eval(target.value, env, depth)
            if isinstance(base, Param) and base.name == "self":
                env.self_attrs[target.attr] = val if env.loop_depth == 0 else Unknown("loop-assigned")
            for b in alts(base):
                if isinstance(b, Node):
                    b.fields[target.attr] = val
        elif isinstance(target, ast.Subscript):
            base = self.eval(target.value, env, depth)
            key = self.eval(target.slice, env, depth)
            for b in alts(base):
                if isinstance(b, DictV):
                    b.items.append((key, val if env.loop_depth == 0 else Rep(val)))
                elif isinstance(b, Seq) and isinstance(key, Lit) and isinstance(key.value, int):
                    try:
                        b.items[key.value] = val
                    except IndexError:
                        pass

    def _effect(self, e: ast.expr, env: Env, depth: int) -> None:
        """expression statement: model list mutations, otherwise evaluate for nested effects"""
        if isinstance(e, ast.Await):
            e = e.value
        if isinstance(e, ast.Call) and isinstance(e.func, ast.Attribute) and e.func.attr in ("append", "extend", "insert", "update"):
            base = self.eval(e.func.value, env, depth)
            args = [self.eval(a, env, depth) for a in e.args]
            for b in alts(base):
                if isinstance(b, Seq) and args:
                    if e.func.attr == "append":
                        b.items.append(args[0] if env.loop_depth == 0 else Rep(args[0]))
                    elif e.func.attr == "extend":
                        b.items.append(Star(args[0]) if env.loop_depth == 0 else Rep(Star(args[0])))
                    elif e.func.attr == "insert" and len(args) == 2:
                        if is_lit(args[0], 0) and env.loop_depth == 0:
                            b.items.insert(0, args[1])
                        else:
                            b.items.append(Rep(args[1]))
                elif isinstance(b, DictV) and e.func.attr == "update" and args:
                    b.items.append((None, args[0]))
            return
        self.eval(e, env, depth)

    # --------------------------------------------------------- expressions
    def _truth(self, v: V) -> Optional[bool]:
        if isinstance(v, Lit):
            try:
                return bool(v.value)
            except Exception:
                return None
        if isinstance(v, Node):
            return True
        if isinstance(v, Seq):
            if not v.items:
                return False
            if any(not isinstance(i, (Star, Rep)) for i in v.items):
                return True
            return None
        if isinstance(v, DictV):
            if not v.items:
                return False
            if any(k is not None and not isinstance(x, Rep) for k, x in v.items):
                return True
        return None

    def _binop(self, op: str, l: V, r: V) -> V:
        if isinstance(l, Lit) and isinstance(r, Lit):
            try:
                if op == "Add":
                    return Lit(l.value + r.value)
                if op == "Mult":
                    return Lit(l.value * r.value)
                if op == "Div":
                    return Lit(l.value / r.value)
                if op == "Mod":
                    return Lit(l.value % r.value)
            except Exception:
                pass
        if op == "Add" and (isinstance(l, Seq) or isinstance(r, Seq)):
            li = l.items if isinstance(l, Seq) else [Star(l)]
            ri = r.items if isinstance(r, Seq) else [Star(r)]
            return Seq(list(li) + list(ri))
        return BinV(op, l, r)

    def eval(self, e: Optional[ast.expr], env: Env, depth: int = 0) -> V:
        if e is None:
            return Lit(None)
        m = getattr(self, "_e_" + type(e).__name__, None)
        if m is None:
            return Unknown(norm(e), e)
        return m(e, env, depth)

    def _e_Constant(self, e, env, depth):
        return Lit(e.value)

    def _e_Name(self, e, env, depth):
        if e.id in env.vars:
            return env.vars[e.id]
        if e.id in ("True", "False", "None"):
            return Lit({"True": True, "False": False, "None": None}[e.id])
        k, v = self.repo.resolve(env.module, e.id)
        if k == "const":
            return self._from_py(v)
        if k == "func":
            return CallableV(v)
        if k == "class":
            return ClassV(v)
        if k == "ext":
            return Unknown("ext:" + v, e)
        if k == "var":
            mod, name = v
            vals = mod.assigns.get(name, [])
            if len(vals) == 1 and isinstance(vals[0], ast.expr):
                return self.eval(vals[0], Env(mod, None), depth + 1) if depth < self.max_depth else Unknown(name)
        return Unknown("name:" + e.id, e)

    def _from_py(self, v) -> V:
        if isinstance(v, (list, tuple)):
            return Seq([self._from_py(x) for x in v])
        if isinstance(v, dict):
            return DictV([(self._from_py(k), self._from_py(x)) for k, x in v.items()])
        return Lit(v)

    def _e_Attribute(self, e, env, depth):
        # ast.X reference
        if isinstance(e.value, ast.Name) and e.value.id == "ast" and env.module.imports.get("ast", ("",))[0] == "ast":
            return Unknown("ast." + e.attr, e)
        if isinstance(e.value, ast.Name) and e.value.id == "sys" and e.attr == "version_info":
            return Lit(tuple(sys.version_info[:3]))
        base = self.eval(e.value, env, depth)
        if isinstance(base, Param) and base.name == "self":
            if e.attr in env.self_attrs:
                return env.self_attrs[e.attr]
            if env.self_cls is not None:
                init = self._init_attrs(env.self_cls, depth)
                if e.attr in init:
                    return init[e.attr]
                fm = self.repo.find_method(env.self_cls, e.attr)
                if fm is not None:
                    return CallableV(fm, bound=True)
        if isinstance(base, Node) and e.attr in base.fields:
            return base.fields[e.attr]
        if isinstance(base, Lit) and isinstance(base.value, SymPath) and e.attr in ("stem", "name", "parent"):
            return Lit(getattr(base.value, e.attr))
        if isinstance(base, ClassV):
            fm = self.repo.find_method(base.ci, e.attr)
            if fm is not None:
                return CallableV(fm, bound=False)
            ca = base.ci.class_assigns().get(e.attr)
            if ca is not None:
                try:
                    return Lit(self.repo.const_eval(base.ci.module, ca))
                except NotConst:
                    return Attr(base, e.attr)
        if isinstance(base, ModuleV):
            k, v = self.repo.resolve(base.mod, e.attr)
            if k == "func":
                return CallableV(v)
            if k == "class":
                return ClassV(v)
            if k == "const":
                return self._from_py(v)
        if isinstance(base, Alt):
            opts = []
            for c, o in base.options:
                if isinstance(o, Node) and e.attr in o.fields:
                    opts.append((c, o.fields[e.attr]))
                else:
                    opts.append((c, Attr(o, e.attr)))
            return Alt(opts)
        return Attr(base, e.attr)

    def _init_attrs(self, ci: ClassInfo, depth: int) -> Dict[str, V]:
        """constant-valued `self.x = <expr>` assignments of __init__ (only literal constants
        and parameters are kept: they do not change afterwards unless reassigned elsewhere)"""
        if ci.key in self._init_cache:
            return self._init_cache[ci.key]
        out: Dict[str, V] = {}
        self._init_cache[ci.key] = out
        init = self.repo.find_method(ci, "__init__")
        if init is None:
            return out
        reassigned = set()
        for c in self.repo.mro(ci):
            for name, m in c.methods.items():
                if name == "__init__":
                    continue
                for n in ast.walk(m.node):
                    if isinstance(n, ast.Attribute) and isinstance(n.ctx, ast.Store) and isinstance(n.value, ast.Name) and n.value.id == "self":
                        reassigned.add(n.attr)
        for st in init.node.body:
            tgt = val = None
            if isinstance(st, ast.Assign) and len(st.targets) == 1:
                tgt, val = st.targets[0], st.value
            elif isinstance(st, ast.AnnAssign) and st.value is not None:
                tgt, val = st.target, st.value
            if isinstance(tgt, ast.Attribute) and isinstance(tgt.value, ast.Name) and tgt.value.id == "self" and tgt.attr not in reassigned:
                if isinstance(val, ast.Constant):
                    out[tgt.attr] = Lit(val.value)
                elif isinstance(val, ast.Name) and val.id in [a.arg for a in init.node.args.args + init.node.args.kwonlyargs]:
                    out[tgt.attr] = Attr(Param("self", init.key), tgt.attr)
        return out

    def _e_Subscript(self, e, env, depth):
        base = self.eval(e.value, env, depth)
        key = self.eval(e.slice, env, depth)
        if isinstance(base, DictV) and isinstance(key, Lit):
            hit = base.lookup(key.value)
            if hit is not None:
                return hit
        if isinstance(base, Seq) and isinstance(key, Lit) and isinstance(key.value, int):
            items = base.items
            if not any(isinstance(i, (Star, Rep)) for i in items):
                try:
                    return items[key.value]
                except IndexError:
                    pass
        if isinstance(base, Lit) and isinstance(key, Lit):
            try:
                return self._from_py(base.value[key.value])
            except Exception:
                pass
        return Index(base, key)

    def _e_Slice(self, e, env, depth):
        return Unknown("slice:" + norm(e), e)

    def _e_List(self, e, env, depth):
        items = []
        for x in e.elts:
            if isinstance(x, ast.Starred):
                v = self.eval(x.value, env, depth)
                if isinstance(v, Seq):
                    items.extend(v.items)
                else:
                    items.append(Star(v))
            else:
                items.append(self.eval(x, env, depth))
        return Seq(items)

    _e_Tuple = _e_List

    def _e_Set(self, e, env, depth):
        return CallV("set", [self._e_List(e, env, depth)], {}, e, "set")

    def _e_Dict(self, e, env, depth):
        items = []
        for k, v in zip(e.keys, e.values):
            items.append((self.eval(k, env, depth) if k is not None else None, self.eval(v, env, depth)))
        return DictV(items)

    def _comp(self, e, env, depth, kind):
        # a comprehension over a literal sequence of known length is that sequence, element by element
        if kind == "list" and len(e.generators) == 1 and isinstance(e.generators[0].target, ast.Name) and not e.generators[0].ifs:
            it0 = self.eval(e.generators[0].iter, env, depth)
            if isinstance(it0, Seq) and it0.items and not any(isinstance(x, Star) for x in it0.items):
                out = []
                for item in it0.items:
                    env3 = env.copy()
                    env3.vars[e.generators[0].target.id] = item
                    out.append(self.eval(e.elt, env3, depth))
                return Seq(out)
        env2 = env.copy()
        gens = []
        for g in e.generators:
            it = self.eval(g.iter, env2, depth)
            self._bind_loop_target(g.target, it, env2)
            gens.append((norm(g.target), it, [self.eval(c, env2, depth) for c in g.ifs]))
        if kind == "dict":
            return ListOf(self.eval(e.value, env2, depth), gens, "dict", self.eval(e.key, env2, depth))
        return ListOf(self.eval(e.elt, env2, depth), gens, kind)

    def _e_ListComp(self, e, env, depth):
        return self._comp(e, env, depth, "list")

    def _e_GeneratorExp(self, e, env, depth):
        return self._comp(e, env, depth, "gen")

    def _e_SetComp(self, e, env, depth):
        return self._comp(e, env, depth, "set")

    def _e_DictComp(self, e, env, depth):
        return self._comp(e, env, depth, "dict")

    def _e_JoinedStr(self, e, env, depth):
        parts = []
        for p in e.values:
            if isinstance(p, ast.Constant):
                parts.append(Lit(p.value))
            else:
                parts.append(self.eval(p.value, env, depth))
        if all(isinstance(p, Lit) for p in parts):
            return Lit("".join(str(p.value) for p in parts))
        return Fmt(parts)

    def _e_BinOp(self, e, env, depth):
        return self._binop(type(e.op).__name__, self.eval(e.left, env, depth), self.eval(e.right, env, depth))

    def _e_BoolOp(self, e, env, depth):
        vals = [self.eval(v, env, depth) for v in e.values]
        if isinstance(e.op, ast.Or):
            out = None
            for v in vals:
                t = self._truth(v)
                if t is True:
                    out = v if out is None else OrV(out, v)
                    return out
                if t is False:
                    if v is vals[-1] and out is None:
                        return v
                    if v is vals[-1]:
                        return OrV(out, v)
                    continue
                out = v if out is None else OrV(out, v)
            return out if out is not None else vals[-1]
        ts = [self._truth(v) for v in vals]
        if all(t is True for t in ts):
            return vals[-1]
        if any(t is False for t in ts):
            return Lit(False)
        return Unknown(norm(e), e)

    def _e_UnaryOp(self, e, env, depth):
        v = self.eval(e.operand, env, depth)
        if isinstance(e.op, ast.Not):
            t = self._truth(v)
            if t is not None:
                return Lit(not t)
        if isinstance(e.op, ast.USub) and isinstance(v, Lit):
            try:
                return Lit(-v.value)
            except Exception:
                pass
        return Unknown(norm(e), e)

    def _e_Compare(self, e, env, depth):
        if len(e.ops) == 1:
            l = self.eval(e.left, env, depth)
            r = self.eval(e.comparators[0], env, depth)
            if isinstance(l, Lit) and isinstance(r, Lit):
                try:
                    op = e.ops[0]
                    if isinstance(op, ast.Eq):
                        return Lit(l.value == r.value)
                    if isinstance(op, ast.NotEq):
                        return Lit(l.value != r.value)
                    if isinstance(op, ast.GtE):
                        return Lit(l.value >= r.value)
                    if isinstance(op, ast.Gt):
                        return Lit(l.value > r.value)
                    if isinstance(op, ast.Lt):
                        return Lit(l.value < r.value)
                    if isinstance(op, ast.LtE):
                        return Lit(l.value <= r.value)
                    if isinstance(op, ast.Is):
                        return Lit(l.value is r.value)
                    if isinstance(op, ast.IsNot):
                        return Lit(l.value is not r.value)
                    if isinstance(op, ast.In):
                        return Lit(l.value in r.value)
                    if isinstance(op, ast.NotIn):
                        return Lit(l.value not in r.value)
                except Exception:
                    pass
        return Unknown(norm(e), e)

    def _e_IfExp(self, e, env, depth):
        t = self.eval(e.test, env, depth)
        tt = self._truth(t)
        if tt is True:
            return self.eval(e.body, env, depth)
        if tt is False:
            return self.eval(e.orelse, env, depth)
        body = self.eval(e.body, env, depth)
        orelse = self.eval(e.orelse, env, depth)
        # `x if x else d`  and  `d if not x else x`
        if norm(e.test) == norm(e.body):
            return OrV(body, orelse)
        return Alt([(norm(e.test), body), (f"not ({norm(e.test)})", orelse)])

    def _e_Lambda(self, e, env, depth):
        return Unknown("lambda:" + norm(e), e)

    def _e_Await(self, e, env, depth):
        return self.eval(e.value, env, depth)

    def _e_Starred(self, e, env, depth):
        return Star(self.eval(e.value, env, depth))

    def _e_NamedExpr(self, e, env, depth):
        v = self.eval(e.value, env, depth)
        self._assign(e.target, v, env, depth)
        return v

    def _e_FormattedValue(self, e, env, depth):
        return self.eval(e.value, env, depth)

    # ---------------------------------------------------------------- calls
    def _e_Call(self, e: ast.Call, env, depth):
        # ast.X(...) node constructor
        f = e.func
        if isinstance(f, ast.Attribute) and isinstance(f.value, ast.Name) and f.value.id == "ast" \
                and env.module.imports.get("ast", ("",))[0] == "ast" and hasattr(ast, f.attr) \
                and isinstance(getattr(ast, f.attr), type) and issubclass(getattr(ast, f.attr), ast.AST):
            return self._make_node(f.attr, e, env, depth)
        fname = norm(f)
        if isinstance(f, ast.Name) and f.id == "cast" and len(e.args) == 2:
            return self.eval(e.args[1], env, depth)
        if isinstance(f, ast.Name) and f.id in ("list", "tuple") and len(e.args) == 1 and f.id not in env.vars:
            v = self.eval(e.args[0], env, depth)
            if isinstance(v, (Seq, ListOf)):
                return v
        if isinstance(f, ast.Name) and f.id == "dict" and len(e.args) == 1 and f.id not in env.vars:
            v = self.eval(e.args[0], env, depth)
            if isinstance(v, DictV):
                return DictV(list(v.items))
        if isinstance(f, ast.Name) and f.id == "str" and len(e.args) == 1:
            v = self.eval(e.args[0], env, depth)
            if isinstance(v, Lit):
                return Lit(str(v.value))
        if isinstance(f, ast.Name) and f.id == "len" and len(e.args) == 1:
            v = self.eval(e.args[0], env, depth)
            if isinstance(v, Seq) and not any(isinstance(i, (Star, Rep)) for i in v.items):
                return Lit(len(v.items))
        if isinstance(f, ast.Name) and f.id == "getattr" and len(e.args) >= 2 and isinstance(e.args[1], ast.Constant):
            return Attr(self.eval(e.args[0], env, depth), e.args[1].value)
        if isinstance(f, ast.Attribute) and f.attr == "as_posix" and not e.args:
            return self.eval(f.value, env, depth)
        if isinstance(f, ast.Attribute) and f.attr == "copy" and not e.args:
            b = self.eval(f.value, env, depth)
            if isinstance(b, DictV):
                return DictV(list(b.items))
            if isinstance(b, Seq):
                return Seq(list(b.items))
        if isinstance(f, ast.Attribute) and f.attr == "items" and not e.args:
            b = self.eval(f.value, env, depth)
            return CallV(Attr(b, "items"), [], {}, e, fname)
        fv = self.eval(f, env, depth)
        args = [self.eval(a, env, depth) for a in e.args]
        kwargs: Dict[str, V] = {}
        for k in e.keywords:
            if k.arg is None:
                kv = self.eval(k.value, env, depth)
                if isinstance(kv, DictV) and all(isinstance(kk, Lit) for kk, _ in kv.items if kk is not None):
                    for kk, vv in kv.items:
                        if kk is not None:
                            kwargs[kk.value] = vv
                else:
                    kwargs["**"] = kv
            else:
                kwargs[k.arg] = self.eval(k.value, env, depth)
        for target in alts(fv):
            if isinstance(target, CallableV):
                fi = target.fi
                if depth >= self.max_depth or not self._may_inline(fi):
                    return CallV(fv, args, kwargs, e, fi.key)
                bound = self._bind(fi, args, kwargs, method=target.bound)
                if target.bound and fi.node.args.args:
                    bound[fi.node.args.args[0].arg] = Param("self", fi.key)
                sub = self.call_function(fi, bound, depth + 1, self_attrs=env.self_attrs if target.bound else None)
                return sub
            if isinstance(target, ClassV):
                return CallV(fv, args, kwargs, e, "new:" + target.ci.key)
        name = fname
        if isinstance(fv, Unknown) and fv.text.startswith("ext:"):
            name = fv.text[4:]
        return CallV(fv, args, kwargs, e, name)

    def _bind(self, fi: FuncInfo, args: List[V], kwargs: Dict[str, V], method: bool) -> Dict[str, V]:
        a = fi.node.args
        names = [x.arg for x in a.posonlyargs + a.args]
        if method and names and names[0] in ("self", "cls"):
            names = names[1:]
        out: Dict[str, V] = {}
        rest = []
        for i, v in enumerate(args):
            if i < len(names) and not isinstance(v, Star):
                out[names[i]] = v
            else:
                rest.append(v)
        if a.vararg:
            out["*" + a.vararg.arg] = Seq(rest)
        extra = {}
        allnames = set(names) | {x.arg for x in a.kwonlyargs}
        for k, v in kwargs.items():
            if k in allnames:
                out[k] = v
            else:
                extra[k] = v
        if a.kwarg:
            out["**" + a.kwarg.arg] = DictV([(Lit(k), v) for k, v in extra.items()])
        return out

    def _make_node(self, kind: str, e: ast.Call, env, depth) -> V:
        cls = getattr(ast, kind)
        fields: Dict[str, V] = {}
        for name, a in zip(cls._fields, e.args):
            fields[name] = self.eval(a, env, depth)
        for k in e.keywords:
            if k.arg is None:
                kv = self.eval(k.value, env, depth)
                opts = alts(kv)
                if len(opts) == 1 and isinstance(opts[0], DictV):
                    for kk, vv in opts[0].items:
                        if isinstance(kk, Lit):
                            fields[kk.value] = vv
                else:
                    fields["**"] = kv
            else:
                fields[k.arg] = self.eval(k.value, env, depth)
        where = f"{env.module.relpath}:{e.lineno}"
        return Node(kind, fields, e, where)


class CallableV(V):
    def __init__(self, fi: FuncInfo, bound: bool = False):
        self.fi = fi
        self.bound = bound

    def __repr__(self):
        return f"<fn {self.fi.key}>"


class ClassV(V):
    def __init__(self, ci: ClassInfo):
        self.ci = ci

    def __repr__(self):
        return f"<class {self.ci.key}>"


class ModuleV(V):
    def __init__(self, mod: Module):
        self.mod = mod


def emitted_source(v: V) -> str:
    """best-effort rendering of an emitted shape as pseudo-Python (for reports)"""
    if isinstance(v, Node):
        k = v.kind
        g = lambda n: emitted_source(v.fields[n]) if n in v.fields else "?"
        if k == "Name":
            return g("id").strip("'\"") if isinstance(v.fields.get("id"), Lit) else "<" + g("id") + ">"
        if k == "Constant":
            return g("value")
        if k == "Attribute":
            return f"{g('value')}.{g('attr').strip(chr(39))}"
        if k == "Call":
            return f"{g('func')}({g('args')}, {g('keywords')})"
        if k == "keyword":
            return f"{g('arg').strip(chr(39))}={g('value')}"
        return f"{k}(" + ", ".join(f"{n}={emitted_source(x)}" for n, x in v.fields.items() if n != "lineno") + ")"
    if isinstance(v, Seq):
        return "[" + ", ".join(emitted_source(i) for i in v.items) + "]"
    if isinstance(v, Lit):
        return repr(v.value)
    return chain(v) if isinstance(v, (Param, Attr, Index, LoopVar)) else repr(v)


# --------------------------------------------------------------------------- rendering an emitted shape as Python text
_LIST_FIELDS = ("body", "orelse", "finalbody", "decorator_list", "args", "keywords", "elts", "targets", "names", "generators", "ifs", "posonlyargs", "kwonlyargs",
                "kw_defaults", "defaults", "type_params", "handlers", "items", "bases", "ops", "comparators", "values", "keys")


def renders(v: V, **kw_) -> List[str]:
    """one rendering per alternative of the shape"""
    out = []
    for a in alts(v):
        try:
            out.append(render(a, **kw_))
        except ValueError as exc:
            out.append(f"<unrenderable: {exc}>")
    return sorted(set(out))

def _hole(v: V) -> str:
    import re as _re
    t = chain(v) if isinstance(v, (Param, Attr, Index, LoopVar)) else repr(v)
    t = _re.sub(r"[^0-9A-Za-z_]+", "_", t).strip("_")
    return "_H_" + (t[:60] or "x")


def _to_ast(v: V, want: str = "expr"):
    """shape -> ast node (or str / list / constant for non-node fields); holes become names `_H_<origin>`"""
    if isinstance(v, Lit):
        return v.value
    if isinstance(v, Seq):
        out = []
        for i in v.items:
            if isinstance(i, Star):
                out.append(ast.Starred(value=ast.Name(id=_hole(i.value) if hasattr(i, "value") else "_H_star", ctx=ast.Load()), ctx=ast.Load()))
            else:
                out.append(_to_ast(i))
        return out
    if isinstance(v, Node):
        cls = getattr(ast, v.kind, None)
        if cls is None:
            return ast.Name(id=_hole(v), ctx=ast.Load())
        kwargs = {}
        for f in cls._fields:
            if f in v.fields:
                x = _to_ast(v.fields[f], "str" if f in ("id", "attr", "arg", "name", "module") else "expr")
                if f in ("id", "attr", "arg", "name", "module") and not isinstance(x, (str, type(None))):
                    x = x.id if isinstance(x, ast.Name) else _hole(v.fields[f])
                if f == "value" and v.kind == "Constant" and isinstance(x, ast.AST):
                    return ast.Name(id="_C" + (x.id[2:] if isinstance(x, ast.Name) and x.id.startswith("_H") else "_" + _hole(v.fields[f])[3:]), ctx=ast.Load())
                if f in _LIST_FIELDS and not isinstance(x, list) and not (f == "args" and v.kind in ("FunctionDef", "AsyncFunctionDef", "Lambda")):
                    # a sequence that is computed as a whole (comprehension over the schema, a parameter): one starred hole
                    x = [ast.Starred(value=x if isinstance(x, ast.AST) else ast.Name(id=_hole(v.fields[f]), ctx=ast.Load()), ctx=ast.Load())] if f not in ("body", "orelse", "finalbody") \
                        else [ast.Expr(value=x if isinstance(x, ast.AST) else ast.Name(id=_hole(v.fields[f]), ctx=ast.Load()))]
                kwargs[f] = x
        node = cls(**kwargs)
        for f in cls._fields:
            if not hasattr(node, f):
                default = [] if f in ("body", "orelse", "finalbody", "decorator_list", "args", "keywords", "elts", "targets", "names", "generators", "ifs", "posonlyargs", "kwonlyargs",
                                      "kw_defaults", "defaults", "type_params", "handlers", "items", "bases", "ops", "comparators", "values", "keys") else None
                if f == "ctx":
                    default = ast.Load()
                if f == "args" and v.kind in ("FunctionDef", "AsyncFunctionDef", "Lambda"):
                    default = ast.arguments(posonlyargs=[], args=[], vararg=None, kwonlyargs=[], kw_defaults=[], kwarg=None, defaults=[])
                setattr(node, f, default)
        return node
    if isinstance(v, Fmt):
        # a string built from literal and computed parts
        parts = []
        for p in v.parts:
            parts.append(str(p.value) if isinstance(p, Lit) else "{" + _hole(p)[3:] + "}")
        return "".join(parts) if want == "str" else ast.Name(id="_H_" + "".join(ch if ch.isalnum() or ch == "_" else "_" for ch in "".join(parts))[:70], ctx=ast.Load())
    if want == "str":
        return _hole(v)
    return ast.Name(id=_hole(v), ctx=ast.Load())


def render(v: V, strip_annotations: bool = True, strip_docstrings: bool = True) -> str:
    """Python text of an emitted function / statement shape.  Annotations and docstrings of the emitted code can be left
    out (they do not change what the emitted code does).  Raises ValueError when the shape cannot be rendered."""
    try:
        node = _to_ast(v)
        if isinstance(node, list):
            node = ast.Module(body=[n if isinstance(n, ast.stmt) else ast.Expr(value=n) for n in node], type_ignores=[])
        if not isinstance(node, ast.AST):
            return repr(node)

        class Strip(ast.NodeTransformer):
            def visit_arg(self, n):
                if strip_annotations:
                    n.annotation = None
                return n

            def _fn(self, n):
                self.generic_visit(n)
                if strip_annotations:
                    n.returns = None
                if strip_docstrings and n.body and isinstance(n.body[0], ast.Expr) and isinstance(n.body[0].value, ast.Name) and n.body[0].value.id.startswith("_C"):
                    n.body = n.body[1:] or [ast.Pass()]
                elif strip_docstrings and n.body and isinstance(n.body[0], ast.Expr) and (
                        (isinstance(n.body[0].value, ast.Constant) and isinstance(n.body[0].value.value, str)) or
                        (isinstance(n.body[0].value, ast.Constant) and isinstance(n.body[0].value.value, ast.AST)) or
                        (isinstance(n.body[0].value, ast.Constant))):
                    n.body = n.body[1:] or [ast.Pass()]
                return n
            visit_FunctionDef = visit_AsyncFunctionDef = _fn

            def visit_AnnAssign(self, n):
                self.generic_visit(n)
                if strip_annotations and n.value is not None and isinstance(n.target, ast.Name):
                    return ast.Assign(targets=[n.target], value=n.value)
                return n
        node = Strip().visit(node)
        # arguments written as "*name" by the generator are varargs of the emitted function
        for n in ast.walk(node):
            if isinstance(n, ast.arguments):
                keep = []
                for a in n.args:
                    if isinstance(a.arg, str) and a.arg.startswith("**"):
                        n.kwarg = ast.arg(arg=a.arg[2:], annotation=None)
                    elif isinstance(a.arg, str) and a.arg.startswith("*"):
                        n.vararg = ast.arg(arg=a.arg[1:], annotation=None)
                    else:
                        keep.append(a)
                n.args = keep
            if isinstance(n, ast.Name) and isinstance(n.id, str) and n.id.startswith("*"):
                n.id = n.id  # rendered as it is (a starred name in a call)
        ast.fix_missing_locations(node)
        return ast.unparse(node)
    except Exception as exc:  # pragma: no cover
        raise ValueError(f"shape cannot be rendered: {exc}") from exc
