"""Rule registry, findings, known-findings matching, evidence files, exit codes."""
from __future__ import annotations

import json
import os
import sys
import time
import traceback
from dataclasses import dataclass, field
from pathlib import Path
from typing import Callable, Dict, List, Optional

from .model import AnalysisError, Repo

VERIF = Path(__file__).resolve().parent.parent
KNOWN_FILE = VERIF / "known_findings.json"
EVIDENCE_DIR = VERIF / "evidence"


@dataclass
class Finding:
    prop: str
    rule: str
    key: str  # construct key: module::qualname::normalised construct (never a line number)
    msg: str
    loc: str = ""
    path: str = ""

    def ident(self):
        return (self.prop, self.rule, self.key)


@dataclass
class RuleSpec:
    rid: str  # e.g. C01.R1
    prop: str
    title: str
    fn: Callable
    min_instances: int = 1
    tier: str = "quick"  # quick | thorough
    also: List[str] = field(default_factory=list)  # other properties this rule serves


RULES: Dict[str, RuleSpec] = {}


def rule(rid: str, title: str, min_instances: int = 1, tier: str = "quick", also: Optional[List[str]] = None):
    prop = rid.split(".")[0]

    def deco(fn):
        if rid in RULES:
            raise RuntimeError(f"duplicate rule {rid}")
        RULES[rid] = RuleSpec(rid, prop, title, fn, min_instances, tier, also or [])
        return fn

    return deco


class Ctx:
    """handed to each rule: record instances checked, findings, analysis errors"""

    def __init__(self, repo: Repo, spec: RuleSpec, prop: str, tier: str):
        self.repo = repo
        self.spec = spec
        self.prop = prop
        self.tier = tier
        self.instances: List[dict] = []
        self.findings: List[Finding] = []
        self.errors: List[str] = []
        self.notes: List[str] = []

    def ok(self, what: str, loc: str = "") -> None:
        self.instances.append({"rule": self.spec.rid, "instance": what, "loc": loc, "verdict": "holds"})

    def fail(self, key: str, msg: str, loc: str = "", path: str = "") -> None:
        self.instances.append({"rule": self.spec.rid, "instance": key, "loc": loc, "verdict": "VIOLATED", "msg": msg})
        self.findings.append(Finding(self.prop, self.spec.rid, key, msg, loc, path))

    def check(self, cond: bool, key: str, msg: str, loc: str = "", okmsg: Optional[str] = None) -> bool:
        if cond:
            self.ok(okmsg or key, loc)
        else:
            self.fail(key, msg, loc)
        return bool(cond)

    def error(self, msg: str) -> None:
        self.errors.append(f"{self.spec.rid}: {msg}")

    def note(self, msg: str) -> None:
        self.notes.append(f"{self.spec.rid}: {msg}")


def load_known() -> List[dict]:
    if not KNOWN_FILE.exists():
        return []
    data = json.loads(KNOWN_FILE.read_text())
    return data.get("findings", [])


_sharing: Optional[dict] = None


def sharing() -> dict:
    """rule id -> further properties the rule is run for: those anchored in a source file the rule inspects and whose
    statement overlaps with the rule's own property (sa/sharing.json, tools/gen_sharing.py)"""
    global _sharing
    if _sharing is None:
        try:
            _sharing = json.loads((VERIF / "sa" / "sharing.json").read_text())
        except Exception:
            _sharing = {}
    return _sharing


def rules_for(prop: str, tier: str) -> List[RuleSpec]:
    out = []
    for spec in RULES.values():
        if spec.prop != prop and prop not in spec.also and prop not in sharing().get(spec.rid, ()):
            continue
        if spec.tier == "thorough" and tier != "thorough":
            continue
        out.append(spec)
    return sorted(out, key=lambda s: _rid_key(s.rid))


def _rid_key(rid: str):
    p, r = rid.split(".", 1)
    digits = "".join(ch for ch in r if ch.isdigit())
    return (p, int(digits) if digits else 0, r)


@dataclass
class PropResult:
    prop: str
    tier: str
    instances: List[dict]
    findings: List[Finding]
    known_hits: List[dict]
    violations: List[Finding]
    errors: List[str]
    notes: List[str]
    rules_run: List[str]
    wall: float


def run_property(repo: Repo, prop: str, tier: str = "quick", only_rule: Optional[str] = None) -> PropResult:
    t0 = time.time()
    instances: List[dict] = []
    findings: List[Finding] = []
    errors: List[str] = []
    notes: List[str] = []
    rules_run = []
    for spec in rules_for(prop, tier):
        if only_rule and spec.rid != only_rule:
            continue
        ctx = Ctx(repo, spec, prop, tier)
        try:
            spec.fn(ctx)
        except AnalysisError as exc:
            ctx.error(str(exc))
        except Exception as exc:  # a crash of the checker is an analysis error, never a verdict
            tb = traceback.format_exc(limit=6)
            ctx.error(f"internal error {type(exc).__name__}: {exc}\n{tb}")
        n = len(ctx.instances)
        if not ctx.errors and n < spec.min_instances:
            ctx.error(f"matched {n} instance(s), expected at least {spec.min_instances} (rule would pass vacuously)")
        rules_run.append(spec.rid)
        instances += ctx.instances
        findings += ctx.findings
        errors += ctx.errors
        notes += ctx.notes
    known = load_known()
    open_known = [k for k in known if k.get("status", "open") == "open"]
    known_hits: List[dict] = []
    violations: List[Finding] = []
    seen = set()
    for f in findings:
        if f.ident() in seen:
            continue
        seen.add(f.ident())
        hit = None
        for k in open_known:
            if k["rule"] == f.rule and k["key"] == f.key:  # a finding is the same finding under every property its rule is run for
                hit = k
                break
        if hit is not None:
            known_hits.append({"finding": f, "known": hit})
        else:
            violations.append(f)
    return PropResult(prop, tier, instances, findings, known_hits, violations, errors, notes, rules_run, time.time() - t0)


def write_evidence(res: PropResult, meta: dict, repo: Repo, extra: Optional[dict] = None) -> Path:
    EVIDENCE_DIR.mkdir(exist_ok=True)
    held = [i for i in res.instances if i["verdict"] == "holds"]
    distinct = len({(i["rule"], i["instance"]) for i in res.instances})
    samples = []
    per_rule_seen: Dict[str, int] = {}
    for i in res.instances:
        c = per_rule_seen.get(i["rule"], 0)
        if c < 3 or i["verdict"] != "holds":
            samples.append(i)
        per_rule_seen[i["rule"]] = c + 1
    per_rule = {}
    for i in res.instances:
        d = per_rule.setdefault(i["rule"], {"instances": 0, "held": 0})
        d["instances"] += 1
        d["held"] += 1 if i["verdict"] == "holds" else 0
    for rid, d in per_rule.items():
        d["title"] = RULES[rid].title if rid in RULES else ""
    cov = {
        "explanation": meta.get("explanation", ""),
        "not_decided": meta.get("not_decided", ""),
        "obligations": len(res.instances),
        "discharged": len(held),
        "evaluations": len(res.instances),
        "distinct_nontrivial": distinct,
        "rule": "one evaluation = one rule instance (a construct in /repo that the rule's premise matched); "
                "distinct = distinct (rule, construct) pairs; every instance is non-trivial because a rule "
                "only records an instance after locating the construct in the parsed source",
        "samples": samples[:60],
        "exhaustive": True,
        "checker_cmd": f"/venv/bin/python check.py --property {res.prop} --tier {res.tier}",
        "trusted_base": meta.get("trusted_base", []),
        "rules": per_rule,
        "rules_run": res.rules_run,
        "modules_parsed": len(repo.modules),
        "functions_indexed": sum(len(m.functions) for m in repo.modules.values()),
        "repo_root": str(repo.root),
        "alpha_normalised_functions": sum(len(getattr(m, "alpha_normalised", [])) for m in repo.modules.values()),
        "normal_forms_applied": {k: sum(getattr(m, "normal_forms", {}).get(k, 0) for m in repo.modules.values()) for k in ("docstring", "logging", "else", "tempreturn", "annotation", "ifexp", "loop2comp", "setupdate", "flip", "anyall", "sink", "guard", "yieldfrom", "sinkcall", "dictsplat", "mergeif", "unroll")},
        "known_findings_matched": [
            {"rule": h["finding"].rule, "key": h["finding"].key, "id": h["known"].get("id", "")} for h in res.known_hits
        ],
        "violations_reported": [
            {"rule": f.rule, "key": f.key, "msg": f.msg, "loc": f.loc} for f in res.violations
        ],
        "analysis_errors": res.errors,
        "notes": res.notes,
    }
    if extra:
        cov.update(extra)
    ev = {
        "property_id": res.prop,
        "tier": res.tier,
        "seed": int(os.environ.get("VERIF_SEED", "0") or 0),
        "level": "other",
        "coverage": cov,
        "assumptions": meta.get("assumptions", []),
        "wall_s": round(res.wall, 3),
        "violations": len(res.violations),
    }
    path = EVIDENCE_DIR / f"{res.prop}.json"
    path.write_text(json.dumps(ev, indent=1, default=str) + "\n")
    return path


def write_replay(res: PropResult) -> Path:
    EVIDENCE_DIR.mkdir(exist_ok=True)
    path = EVIDENCE_DIR / f"{res.prop}.replay.json"
    path.write_text(json.dumps({
        "property": res.prop,
        "tier": res.tier,
        "violations": [f.__dict__ for f in res.violations],
        "replay": [f"/venv/bin/python check.py --property {res.prop} --rule {f.rule} --verbose" for f in res.violations],
    }, indent=1) + "\n")
    return path


def report(res: PropResult, verbose: bool = False) -> int:
    out = sys.stdout
    print(f"== {res.prop} tier={res.tier} rules={len(res.rules_run)} instances={len(res.instances)} "
          f"held={sum(1 for i in res.instances if i['verdict']=='holds')} wall={res.wall:.2f}s", file=out)
    if verbose:
        for i in res.instances:
            print(f"   [{i['verdict']}] {i['rule']} {i['instance']} @ {i['loc']}", file=out)
    for n in res.notes:
        print(f"   note: {n}", file=out)
    for h in res.known_hits:
        f, k = h["finding"], h["known"]
        print(f"KNOWN-FINDING: property={res.prop} rule={f.rule} site={f.key} {k.get('witness', k.get('what', ''))}", file=out)
    if res.errors:
        for e in res.errors:
            print(f"ANALYSIS-ERROR: property={res.prop} {e}", file=out)
    if res.violations:
        replay = write_replay(res)
        for f in res.violations:
            print(f"   violation: {f.rule} {f.key}\n      {f.msg}\n      at {f.loc}" + (f"\n      path {f.path}" if f.path else ""), file=out)
        print(f"VIOLATION property={res.prop} replay={replay}", file=out)
        return 1
    if res.errors:
        return 2
    return 0
