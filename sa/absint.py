"""Path-sensitive abstract interpretation of one function over a *finite decision
table*.  A rule supplies scenarios; each scenario fixes the truth value of a few
atomic conditions (e.g. "response.is_success", "'data' in <json>") and which calls
raise.  The interpreter walks the function's statements, resolves local aliases by
substitution, evaluates every branch test in Kleene three-valued logic under the
scenario, forks where a test stays unknown, and returns the set of possible
outcomes (return <expr> / raise <expr> / fall-through) with the side-effect calls
met on the way.  Nothing is executed; tests are evaluated symbolically only."""
from __future__ import annotations

import ast
import copy
from dataclasses import dataclass, field
from typing import Set, Callable, Dict, List, Optional, Tuple

from .model import AnalysisError, FuncInfo, norm

Atom = Callable[[ast.expr], Optional[bool]]


@dataclass
class State:
    env: Dict[str, ast.expr]
    effects: List[ast.expr] = field(default_factory=list)
    trace: List[str] = field(default_factory=list)

    def fork(self) -> "State":
        return State(dict(self.env), list(self.effects), list(self.trace))


@dataclass
class Flow:
    kind: str  # next | return | raise | break | continue | yield
    state: State
    value: Optional[ast.expr] = None  # resolved expression returned / raised
    exc: str = ""  # exception class name for raise
    node: Optional[ast.AST] = None


@dataclass
class Outcome:
    kind: str  # return | raise | fallthrough
    value: Optional[ast.expr]
    exc: str
    effects: List[ast.expr]
    trace: List[str]
    node: Optional[ast.AST]
    yields: List[ast.expr] = field(default_factory=list)
    env: Dict[str, ast.expr] = field(default_factory=dict)

    def deref(self, e: Optional[ast.AST]) -> Optional[ast.AST]:
        """value of a local container name (kept symbolic by substitution)"""
        seen = 0
        while isinstance(e, ast.Name) and e.id in self.env and seen < 5:
            e = self.env[e.id]
            seen += 1
        return e

    def muts(self, name: str) -> List[ast.expr]:
        m = self.env.get("<mut:" + name + ">")
        return list(m.elts) if isinstance(m, ast.List) else []

    def text(self) -> str:
        v = norm(self.value) if self.value is not None else ""
        e = ", ".join(norm(x) for x in self.effects)
        return f"{self.kind} {self.exc or ''} {v}" + (f" after [{e}]" if e else "")


class _Subst(ast.NodeTransformer):
    def __init__(self, env, deep=False, force=False):
        self.env = env
        self.deep = deep
        self.force = force
        self.identity = env.get("<identity>", ()) if isinstance(env, dict) else ()

    def visit_Name(self, node):
        if isinstance(node.ctx, ast.Load) and node.id in self.env:
            v = self.env[node.id]
            if not self.force and node.id in self.identity and not self.deep:
                return node  # an object mutated in place keeps its identity
            if not self.force and is_mutable_display(v) and not (self.deep and ("<mut:" + node.id + ">") not in self.env):
                return node  # keep the identity of a locally built container
            return copy.deepcopy(v)
        return node

    def visit_Await(self, node):
        return self.visit(node.value)

    def visit_Call(self, node):
        # cast(T, x) -> x
        if isinstance(node.func, ast.Name) and node.func.id == "cast" and len(node.args) == 2:
            return self.visit(node.args[1])
        self.generic_visit(node)
        return node

    def visit_Lambda(self, node):
        return node

    def visit_ListComp(self, node):
        return self._comp(node)

    visit_SetComp = visit_GeneratorExp = visit_DictComp = visit_ListComp

    def _comp(self, node):
        bound = set()
        for g in node.generators:
            for n in ast.walk(g.target):
                if isinstance(n, ast.Name):
                    bound.add(n.id)
        saved = self.env
        self.env = {k: v for k, v in self.env.items() if k not in bound}
        self.generic_visit(node)
        self.env = saved
        return node


MUTATORS = {"append", "extend", "insert", "add", "update", "setdefault", "pop", "remove", "clear", "sort", "reverse", "discard"}


def identity_names(fn: ast.AST) -> frozenset:
    """local names of objects that are mutated in place (method mutators, attribute or
    item stores): substituting them by their constructor expression would lose identity"""
    out = set()

    def root(e):
        while isinstance(e, (ast.Attribute, ast.Subscript)):
            e = e.value
        return e.id if isinstance(e, ast.Name) else None
    for n in ast.walk(fn):
        if isinstance(n, ast.Call) and isinstance(n.func, ast.Attribute) and n.func.attr in MUTATORS:
            r = root(n.func.value)
            if r:
                out.add(r)
        elif isinstance(n, (ast.Attribute, ast.Subscript)) and isinstance(n.ctx, (ast.Store, ast.Del)):
            r = root(n.value)
            if r:
                out.add(r)
    return frozenset(out)


def is_mutable_display(v: ast.AST) -> bool:
    if isinstance(v, (ast.List, ast.Dict, ast.Set, ast.ListComp, ast.DictComp, ast.SetComp)):
        return True
    if isinstance(v, ast.Call) and isinstance(v.func, ast.Name) and v.func.id in ("list", "dict", "set", "defaultdict"):
        return True
    if isinstance(v, ast.Call) and isinstance(v.func, ast.Attribute) and v.func.attr == "copy" and not v.args:
        return True
    return False


def subst(e: ast.expr, env: Dict[str, ast.expr], deep: bool = False) -> ast.expr:
    """deep=True also inlines locally built containers that were never mutated"""
    return ast.fix_missing_locations(_Subst(env, deep).visit(copy.deepcopy(e)))


def k_not(a):
    return None if a is None else (not a)


def k_and(vals):
    if any(v is False for v in vals):
        return False
    if all(v is True for v in vals):
        return True
    return None


def k_or(vals):
    if any(v is True for v in vals):
        return True
    if all(v is False for v in vals):
        return False
    return None


_NEG = {ast.NotIn: ast.In, ast.NotEq: ast.Eq, ast.IsNot: ast.Is}


class Interp:
    def __init__(self, fi: FuncInfo, atom: Atom,
                 raises: Optional[Callable[[ast.Call], Optional[str]]] = None,
                 catches: Optional[Callable[[str, str], bool]] = None,
                 is_effect: Optional[Callable[[ast.Call], bool]] = None,
                 init_env: Optional[Dict[str, ast.expr]] = None,
                 max_paths: int = 512,
                 implicit_raises: Optional[Set[str]] = None):
        self.fi = fi
        # exception types that the statements of a try body may raise implicitly (subscripts, conversions): every handler
        # catching one of them is also explored from the state at the start of the try statement
        self.implicit_raises = implicit_raises or set()
        self.atom = atom
        self.raises = raises or (lambda c: None)
        self.catches = catches or (lambda handler, exc: handler == exc)
        self.is_effect = is_effect or (lambda c: False)
        self.init_env = init_env or {}
        self.max_paths = max_paths
        self.forks = 0
        self.unknown_tests: List[str] = []

    def _simp(self, e: ast.expr, env: Dict[str, ast.expr]) -> ast.expr:
        """conditional expressions whose test the scenario decides are replaced by the arm taken"""
        if not any(isinstance(n, ast.IfExp) for n in ast.walk(e)):
            return e
        interp = self

        class T(ast.NodeTransformer):
            def visit_IfExp(self, node):
                node = self.generic_visit(node)
                self_env = env
                interp._env = self_env
                t = interp._tv(node.test)
                if t is True:
                    return node.body
                if t is False:
                    return node.orelse
                return node
        try:
            return ast.fix_missing_locations(T().visit(copy.deepcopy(e)))
        except Exception:
            return e

    # ----------------------------------------------------------------- truth
    def tv(self, e: ast.expr, env: Dict[str, ast.expr]) -> Optional[bool]:
        self._env = env
        r = self._tv(subst(e, env))
        if r is None:
            r = self._tv(subst(e, env, deep=True))
        return r

    def _tv(self, e: ast.expr) -> Optional[bool]:
        if isinstance(e, ast.BoolOp):
            vals = [self._tv(v) for v in e.values]
            return k_and(vals) if isinstance(e.op, ast.And) else k_or(vals)
        if isinstance(e, ast.UnaryOp) and isinstance(e.op, ast.Not):
            return k_not(self._tv(e.operand))
        if isinstance(e, ast.Constant):
            return bool(e.value)
        if isinstance(e, ast.Compare) and len(e.ops) == 1 and isinstance(e.left, ast.Constant) and isinstance(e.comparators[0], ast.Constant) \
                and isinstance(e.ops[0], (ast.Is, ast.IsNot, ast.Eq, ast.NotEq)):
            # two literals: `None is not None`, `'a' == 'b'` (a local that the path bound to a literal)
            same = (e.left.value is e.comparators[0].value) if isinstance(e.ops[0], (ast.Is, ast.IsNot)) and (e.left.value is None or e.comparators[0].value is None or isinstance(e.left.value, bool)) \
                else (e.left.value == e.comparators[0].value and type(e.left.value) is type(e.comparators[0].value))
            return same if isinstance(e.ops[0], (ast.Is, ast.Eq)) else not same
        if isinstance(e, ast.NamedExpr):
            return self._tv(e.value)
        r = self.atom(e)
        if r is not None:
            return r
        if isinstance(e, ast.Call) and isinstance(e.func, ast.Name) and e.func.id == "bool" and len(e.args) == 1 and not e.keywords:
            return self._tv(e.args[0])   # bool(x) has the truth value of x
        if isinstance(e, ast.Name) and is_mutable_display(getattr(self, "_env", {}).get(e.id)):
            # truthiness of a locally built container: known when it was filled or never touched
            base = self._env[e.id]
            muts = self._env.get("<mut:" + e.id + ">")
            mlist = list(muts.elts) if isinstance(muts, ast.List) else []
            grows = [m for m in mlist if isinstance(m, ast.Call) and ((isinstance(m.func, ast.Name) and m.func.id == "<setitem>")
                     or (isinstance(m.func, ast.Attribute) and m.func.attr in ("append", "add", "insert", "setdefault")))]
            if grows:
                return True
            if not mlist and isinstance(base, (ast.List, ast.Set)):
                return len(base.elts) > 0
            if not mlist and isinstance(base, ast.Dict):
                return len(base.keys) > 0
        if isinstance(e, ast.Compare) and len(e.ops) == 1 and type(e.ops[0]) in _NEG:
            pos = ast.Compare(left=e.left, ops=[_NEG[type(e.ops[0])]()], comparators=e.comparators)
            ast.copy_location(pos, e)
            return k_not(self.atom(ast.fix_missing_locations(pos)))
        if isinstance(e, (ast.Dict, ast.List, ast.Tuple, ast.Set)):
            n = len(e.keys) if isinstance(e, ast.Dict) else len(e.elts)
            return n > 0
        return None

    # ------------------------------------------------------------ statements
    def run(self) -> List[Outcome]:
        st = State(dict(self.init_env))
        st.env["<identity>"] = identity_names(self.fi.node)
        flows = self.block(self.fi.node.body, [st])
        out: List[Outcome] = []
        for f in flows:
            ys = f.state.env.get("<yields>")
            yl = list(ys.elts) if isinstance(ys, ast.List) else []
            if f.kind == "return":
                out.append(Outcome("return", f.value, "", f.state.effects, f.state.trace, f.node, yl, f.state.env))
            elif f.kind == "raise":
                out.append(Outcome("raise", f.value, f.exc, f.state.effects, f.state.trace, f.node, yl, f.state.env))
            elif f.kind == "next":
                out.append(Outcome("fallthrough", None, "", f.state.effects, f.state.trace, None, yl, f.state.env))
            else:
                raise AnalysisError(f"absint: stray {f.kind} in {self.fi.key}")
        return out

    def block(self, body: List[ast.stmt], states: List[State]) -> List[Flow]:
        flows = [Flow("next", s) for s in states]
        for st in body:
            nxt: List[Flow] = []
            for f in flows:
                if f.kind != "next":
                    nxt.append(f)
                else:
                    nxt.extend(self.stmt(st, f.state))
            flows = nxt
            if len(flows) > self.max_paths:
                raise AnalysisError(f"absint: more than {self.max_paths} paths in {self.fi.key}")
        return flows

    def _record_effects(self, e: ast.AST, state: State) -> Optional[Flow]:
        """record effect calls in evaluation order; return a raise Flow if a call raises"""
        calls = [n for n in _walk_eval_order(e) if isinstance(n, ast.Call)]
        for c in calls:
            rc = subst(c, state.env)
            if not isinstance(rc, ast.Call):
                continue
            exc = self.raises(rc)
            if exc:
                state.trace.append(f"L{getattr(c, 'lineno', 0)}: {norm(rc)[:60]} raises {exc}")
                return Flow("raise", state, None, exc, c)
            if self.is_effect(rc):
                state.effects.append(rc)
        return None

    def stmt(self, st: ast.stmt, state: State) -> List[Flow]:
        if isinstance(st, (ast.Assign, ast.AnnAssign, ast.AugAssign)):
            value = st.value
            if value is not None:
                r = self._record_effects(value, state)
                if r:
                    return [r]
            if isinstance(st, ast.Assign):
                rv = subst(value, state.env)
                for t in st.targets:
                    self._bind(t, rv, state)
            elif isinstance(st, ast.AnnAssign) and value is not None:
                self._bind(st.target, subst(value, state.env), state)
            elif isinstance(st, ast.AugAssign) and isinstance(st.target, ast.Name):
                cur = state.env.get(st.target.id)
                if cur is not None and (not isinstance(cur, ast.Name) or isinstance(value, (ast.Constant, ast.JoinedStr))) and not is_mutable_display(cur) and st.target.id not in state.env.get("<identity>", ()):
                    # immutable value (str / number / tuple): `x += v` is the rebinding `x = x + v`
                    state.env[st.target.id] = ast.BinOp(left=cur, op=st.op, right=subst(value, state.env))
                else:
                    state.env.pop(st.target.id, None)
            elif isinstance(st, ast.AugAssign) and isinstance(st.target, (ast.Attribute, ast.Subscript)):
                # `obj.attr += v` / `d[k] += v`: a store of `old <op> v` (recorded like a plain store)
                cur_ = copy.deepcopy(st.target)
                cur_.ctx = ast.Load()
                self._bind(st.target, ast.fix_missing_locations(ast.BinOp(left=subst(cur_, state.env), op=st.op, right=subst(value, state.env))), state)
            return [Flow("next", state)]
        if isinstance(st, ast.Expr):
            v = st.value
            if isinstance(v, ast.Await):
                v = v.value
            if isinstance(v, (ast.Yield, ast.YieldFrom)):
                if v.value is not None:
                    r = self._record_effects(v.value, state)
                    if r:
                        return [r]
                    ys = state.env.get("<yields>")
                    elts = list(ys.elts) if isinstance(ys, ast.List) else []
                    yv = subst(v.value, state.env)
                    if isinstance(v, ast.YieldFrom):  # every element of the iterable is yielded
                        yv = ast.Call(func=ast.Name(id="<elem>", ctx=ast.Load()), args=[yv], keywords=[])
                    elts.append(yv)
                    state.env["<yields>"] = ast.List(elts=elts, ctx=ast.Load())
                return [Flow("next", state)]
            r = self._record_effects(st.value, state)
            if r:
                return [r]
            # in-place mutation of a tracked object: x.update(..) / x.keywords.extend(..)
            if isinstance(v, ast.Call) and isinstance(v.func, ast.Attribute) and v.func.attr in MUTATORS:
                root = v.func.value
                while isinstance(root, (ast.Attribute, ast.Subscript)):
                    root = root.value
                if isinstance(root, ast.Name) and root.id not in ("self", "cls"):
                    name = root.id
                    self._mutated(name, subst(v, {k: x for k, x in state.env.items() if k != name}), state)
            return [Flow("next", state)]
        if isinstance(st, ast.Return):
            if st.value is not None:
                r = self._record_effects(st.value, state)
                if r:
                    return [r]
            return [Flow("return", state, subst(st.value, state.env) if st.value is not None else None, "", st)]
        if isinstance(st, ast.Raise):
            exc = st.exc
            name = ""
            rv = None
            if exc is not None:
                rv = subst(exc, state.env)
                name = _exc_name(exc)
            state.trace.append(f"L{st.lineno}: raise {name}")
            return [Flow("raise", state, rv, name, st)]
        if isinstance(st, ast.If):
            r = self._record_effects(st.test, state)
            if r:
                return [r]
            t = self.tv(st.test, state.env)
            out: List[Flow] = []
            if t is None:
                self.forks += 1
                self.unknown_tests.append(f"L{st.lineno}: {norm(st.test)[:80]}")
            if t is not False:
                s1 = state.fork() if t is None else state
                s1.trace.append(f"L{st.lineno}: if {norm(st.test)[:50]} -> {'true' if t else 'true?'}")
                out += self.block(st.body, [s1])
            if t is not True:
                s2 = state
                s2.trace.append(f"L{st.lineno}: if {norm(st.test)[:50]} -> {'false' if t is False else 'false?'}")
                out += self.block(st.orelse, [s2]) if st.orelse else [Flow("next", s2)]
            return out
        if isinstance(st, (ast.With, ast.AsyncWith)):
            for item in st.items:
                r = self._record_effects(item.context_expr, state)
                if r:
                    return [r]
                if item.optional_vars is not None:
                    self._bind(item.optional_vars, subst(item.context_expr, state.env), state)
            return self.block(st.body, [state])
        if isinstance(st, ast.Try):
            pre = state.fork() if self.implicit_raises else None
            flows = self.block(st.body, [state])
            out = []
            if pre is not None:
                for h in st.handlers:
                    names = _handler_names(h)
                    hit = [n for n in names if n in self.implicit_raises or (n in ("", "Exception", "BaseException"))]
                    if hit:
                        hs = pre.fork()
                        hs.trace.append(f"L{h.lineno}: except {'/'.join(names)} (implicit)")
                        if h.name:
                            hs.env[h.name] = ast.Name(id=f"<exc:{hit[0]}>", ctx=ast.Load())
                        out += self.block(h.body, [hs])
            for f in flows:
                if f.kind == "raise":
                    handled = False
                    for h in st.handlers:
                        names = _handler_names(h)
                        if any(n in ("", "Exception", "BaseException") or self.catches(n, f.exc) for n in names):
                            hs = f.state
                            hs.trace.append(f"L{h.lineno}: except {'/'.join(names)}")
                            if h.name:
                                hs.env[h.name] = ast.Name(id=f"<exc:{f.exc}>", ctx=ast.Load())
                            out += self.block(h.body, [hs])
                            handled = True
                            break
                    if not handled:
                        out.append(f)
                elif f.kind == "next" and st.orelse:
                    out += self.block(st.orelse, [f.state])
                else:
                    out.append(f)
            if st.finalbody:
                fin: List[Flow] = []
                for f in out:
                    for g in self.block(st.finalbody, [f.state]):
                        fin.append(f if g.kind == "next" else g)
                out = fin
            return out
        if isinstance(st, (ast.For, ast.AsyncFor)):
            r = self._record_effects(st.iter, state)
            if r:
                return [r]
            skip = state.fork()
            it = self._simp(subst(st.iter, state.env), state.env)
            if isinstance(it, (ast.List, ast.Tuple, ast.Set)) and not it.elts:
                skip.trace.append(f"L{st.lineno}: loop skipped")
                return self.block(st.orelse, [skip]) if st.orelse else [Flow("next", skip)]
            elem = ast.Call(func=ast.Name(id="<elem>", ctx=ast.Load()), args=[it], keywords=[])
            self._bind(st.target, ast.fix_missing_locations(elem), state)
            state.trace.append(f"L{st.lineno}: loop body once")
            out = []
            for f in self.block(st.body, [state]):
                if f.kind in ("next", "continue", "break"):
                    out.append(Flow("next", f.state))
                else:
                    out.append(f)
            skip.trace.append(f"L{st.lineno}: loop skipped")
            out += self.block(st.orelse, [skip]) if st.orelse else [Flow("next", skip)]
            return out
        if isinstance(st, ast.While):
            t = self.tv(st.test, state.env)
            out = []
            if t is not False:
                s1 = state.fork()
                for f in self.block(st.body, [s1]):
                    if f.kind in ("next", "continue", "break"):
                        out.append(Flow("next", f.state))
                    else:
                        out.append(f)
            if t is not True:
                out.append(Flow("next", state))
            return out
        if isinstance(st, ast.Break):
            return [Flow("break", state)]
        if isinstance(st, ast.Continue):
            return [Flow("continue", state)]
        if isinstance(st, ast.Assert):
            return [Flow("next", state)]
        if isinstance(st, (ast.Pass, ast.FunctionDef, ast.AsyncFunctionDef, ast.ClassDef, ast.Import,
                           ast.ImportFrom, ast.Global, ast.Nonlocal, ast.Delete)):
            return [Flow("next", state)]
        raise AnalysisError(f"absint: unsupported statement {type(st).__name__} in {self.fi.key}")

    def _bind(self, target: ast.expr, value: ast.expr, state: State) -> None:
        if isinstance(target, ast.Name):
            old = state.env.get(target.id)
            if old is not None and _mentions(value, target.id):
                # x = f(x): the old value of x (kept symbolic when it is a container) is inlined
                value = ast.fix_missing_locations(_Subst({target.id: old}, force=True).visit(copy.deepcopy(value)))
            state.env[target.id] = value
            state.env.pop("<mut:" + target.id + ">", None)
        elif isinstance(target, (ast.Tuple, ast.List)):
            if isinstance(value, (ast.Tuple, ast.List)) and len(value.elts) == len(target.elts):
                for t, v in zip(target.elts, value.elts):
                    self._bind(t, v, state)
            else:
                for i, t in enumerate(target.elts):
                    sub = ast.Subscript(value=value, slice=ast.Constant(value=i), ctx=ast.Load())
                    self._bind(t, ast.fix_missing_locations(sub), state)
        elif isinstance(target, ast.Subscript):
            base = target.value
            store = ast.Call(func=ast.Name(id="<setitem>", ctx=ast.Load()),
                             args=[subst(base, state.env) if not isinstance(base, ast.Name) else base,
                                   subst(target.slice, state.env), value], keywords=[])
            store = ast.fix_missing_locations(ast.copy_location(store, target))
            if self.is_effect(store):
                state.effects.append(store)
            root = base
            while isinstance(root, (ast.Subscript, ast.Attribute)):
                root = root.value
            if isinstance(root, ast.Name) and root.id not in ("self", "cls"):
                self._mutated(root.id, store, state)
        elif isinstance(target, ast.Attribute):
            store = ast.Call(func=ast.Name(id="<setattr>", ctx=ast.Load()),
                             args=[subst(target.value, state.env), ast.Constant(value=target.attr), value], keywords=[])
            store = ast.fix_missing_locations(ast.copy_location(store, target))
            if self.is_effect(store):
                state.effects.append(store)

    def _mutated(self, name: str, how: ast.expr, state: State) -> None:
        """`name` was mutated in place: remember how, and freeze aliases computed from it before"""
        muts = state.env.get("<mut:" + name + ">")
        elts = list(muts.elts) if isinstance(muts, ast.List) else []
        k = len(elts)
        elts.append(how)
        state.env["<mut:" + name + ">"] = ast.List(elts=elts, ctx=ast.Load())
        for var, expr in list(state.env.items()):
            if var == name or var.startswith("<") or not isinstance(expr, ast.AST):
                continue
            if _mentions(expr, name):
                wrapped = ast.Call(func=ast.Name(id="<pre>", ctx=ast.Load()),
                                   args=[expr, ast.Constant(value=name), ast.Constant(value=k)], keywords=[])
                state.env[var] = ast.fix_missing_locations(wrapped)


def _mentions(e: ast.AST, name: str) -> bool:
    if isinstance(e, ast.Call) and isinstance(e.func, ast.Name) and e.func.id == "<pre>" \
            and isinstance(e.args[1], ast.Constant) and e.args[1].value == name:
        return False
    if isinstance(e, ast.Name) and e.id == name:
        return True
    return any(_mentions(c, name) for c in ast.iter_child_nodes(e))


def _walk_eval_order(e: ast.AST):
    """post-order walk (arguments before the call that uses them)"""
    for child in ast.iter_child_nodes(e):
        if isinstance(child, (ast.Lambda, ast.FunctionDef, ast.AsyncFunctionDef)):
            continue
        yield from _walk_eval_order(child)
    yield e


def _exc_name(exc: ast.expr) -> str:
    if isinstance(exc, ast.Call):
        exc = exc.func
    if isinstance(exc, ast.Attribute):
        # Cls.from_errors_dicts(...) -> Cls ; module.Cls -> Cls
        if isinstance(exc.value, ast.Name) and exc.attr[:1].islower():
            return exc.value.id
        return exc.attr
    if isinstance(exc, ast.Name):
        return exc.id
    return norm(exc)


def _handler_names(h: ast.ExceptHandler) -> List[str]:
    if h.type is None:
        return [""]
    ts = h.type.elts if isinstance(h.type, ast.Tuple) else [h.type]
    out = []
    for t in ts:
        out.append(t.attr if isinstance(t, ast.Attribute) else getattr(t, "id", norm(t)))
    return out


# --------------------------------------------------------------------------- helper inlining
def inline_helpers(e: ast.expr, repo, fi, atom=None, depth: int = 2, only_private: bool = True) -> ast.expr:
    """replace calls `self.m(...)` / `f(...)` of repository functions that have ONE symbolic outcome (a pure
    expression of their parameters, no recorded effects) by that expression.  Makes a symbolic value independent of
    whether a sub-expression was factored out into a helper.  Calls with several outcomes are left alone."""
    from .model import bind_args, param_defaults

    def callee_of(c: ast.Call):
        f = c.func
        if isinstance(f, ast.Attribute) and isinstance(f.value, ast.Name) and f.value.id in ("self", "cls") and fi.cls is not None:
            m = repo.find_method(fi.cls, f.attr)
            return m, True
        if isinstance(f, ast.Name):
            k, v = repo.resolve(fi.module, f.id)
            if k == "func":
                return v, False
        return None, False

    class T(ast.NodeTransformer):
        def __init__(self, d):
            self.d = d

        def visit_Call(self, node):
            self.generic_visit(node)
            if self.d <= 0:
                return node
            callee, is_method = callee_of(node)
            if callee is None or callee.key == fi.key:
                return node
            if only_private and not callee.node.name.startswith("_"):
                return node
            if isinstance(callee.node, ast.AsyncFunctionDef) or any(isinstance(x, (ast.Yield, ast.YieldFrom)) for x in ast.walk(callee.node)):
                return node
            if any(isinstance(x, (ast.FunctionDef, ast.ClassDef, ast.AsyncFunctionDef)) for x in callee.node.body):
                return node
            try:
                outs = Interp(callee, atom or (lambda x: None)).run()
            except Exception:
                return node
            rets = [o for o in outs if o.kind == "return"]
            if len(rets) != 1 or len(outs) != 1 or rets[0].effects or rets[0].value is None:
                return node
            if any(k.startswith("<mut:") for k in rets[0].env):
                return node
            binding = bind_args(callee, node, method=is_method)
            if any(k.startswith("*") for k in binding):
                return node
            for p, d in param_defaults(callee).items():
                binding.setdefault(p, d)
            params = [a.arg for a in callee.node.args.posonlyargs + callee.node.args.args + callee.node.args.kwonlyargs if a.arg not in ("self", "cls")]
            if any(p not in binding for p in params):
                return node
            val = _Subst({p: binding[p] for p in params}, deep=True, force=True).visit(copy.deepcopy(rets[0].value))
            return T(self.d - 1).visit(val)
    return ast.fix_missing_locations(T(depth).visit(copy.deepcopy(e)))


def quantifier_values(value: ast.expr, atom) -> Optional[set]:
    """possible truth values of `any(c for t in I)` / `all(...)` when the element condition is decided by `atom` for a
    generic element (written `<elem>(I)`, like the loop variable of a loop run once); None if `value` is no such call"""
    v = value
    if not (isinstance(v, ast.Call) and isinstance(v.func, ast.Name) and v.func.id in ("any", "all") and len(v.args) == 1 and isinstance(v.args[0], (ast.GeneratorExp, ast.ListComp))
            and len(v.args[0].generators) == 1 and not v.args[0].generators[0].ifs and isinstance(v.args[0].generators[0].target, ast.Name)):
        return None
    g = v.args[0].generators[0]
    elem = ast.Call(func=ast.Name(id="<elem>", ctx=ast.Load()), args=[g.iter], keywords=[])
    cond = _Subst({g.target.id: elem}, deep=True, force=True).visit(copy.deepcopy(v.args[0].elt))
    neg = False
    while isinstance(cond, ast.UnaryOp) and isinstance(cond.op, ast.Not):
        cond, neg = cond.operand, not neg
    r = atom(cond)
    if r is None:
        return {True, False}
    r = (not r) if neg else r
    # a generic element satisfying c: any -> True, all -> True; not satisfying: any -> False (no element does), all -> False
    return {bool(r)}
