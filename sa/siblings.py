"""Normal forms for comparing sibling implementations (async vs sync, plain vs
OpenTelemetry).  Two functions are 'the same' when the dumps of their normal forms
are equal.  Normalisation never looks at text or positions."""
from __future__ import annotations

import ast
import copy
from typing import Dict, List, Optional, Set

from .model import ClassInfo, FuncInfo, Repo

ASYNC_NAME_MAP = {
    "AsyncClient": "Client",
    "aclose": "close",
    "__aenter__": "__enter__",
    "__aexit__": "__exit__",
    "AsyncIterator": "Iterator",
}


class _AsyncEraser(ast.NodeTransformer):
    def visit_AsyncFunctionDef(self, node):
        self.generic_visit(node)
        new = ast.FunctionDef(**{f: getattr(node, f) for f in node._fields})
        return ast.copy_location(new, node)

    def visit_Await(self, node):
        return self.visit(node.value)

    def visit_AsyncFor(self, node):
        self.generic_visit(node)
        return ast.copy_location(ast.For(**{f: getattr(node, f) for f in node._fields}), node)

    def visit_AsyncWith(self, node):
        self.generic_visit(node)
        return ast.copy_location(ast.With(**{f: getattr(node, f) for f in node._fields}), node)

    def visit_Attribute(self, node):
        self.generic_visit(node)
        if node.attr in ASYNC_NAME_MAP:
            node.attr = ASYNC_NAME_MAP[node.attr]
        return node

    def visit_Name(self, node):
        if node.id in ASYNC_NAME_MAP:
            node.id = ASYNC_NAME_MAP[node.id]
        return node


class _Stripper(ast.NodeTransformer):
    """drop annotations, docstrings, decorators' positions; AnnAssign -> Assign"""

    def visit_FunctionDef(self, node):
        node.returns = None
        for a in node.args.posonlyargs + node.args.args + node.args.kwonlyargs:
            a.annotation = None
        if node.args.vararg:
            node.args.vararg.annotation = None
        if node.args.kwarg:
            node.args.kwarg.annotation = None
        if node.body and isinstance(node.body[0], ast.Expr) and isinstance(node.body[0].value, ast.Constant) \
                and isinstance(node.body[0].value.value, str):
            node.body = node.body[1:] or [ast.Pass()]
        if hasattr(node, "type_comment"):
            node.type_comment = None
        self.generic_visit(node)
        return node

    visit_AsyncFunctionDef = visit_FunctionDef

    def visit_AnnAssign(self, node):
        self.generic_visit(node)
        if node.value is None:
            return None
        return ast.copy_location(ast.Assign(targets=[node.target], value=node.value), node)

    def visit_Call(self, node):
        # cast(T, x) -> x  (typing only)
        if isinstance(node.func, ast.Name) and node.func.id == "cast" and len(node.args) == 2 and not node.keywords:
            return self.visit(node.args[1])
        self.generic_visit(node)
        return node


class _KeywordBinder(ast.NodeTransformer):
    """self.m(a, b, k=c)  ->  self.m(p1=a, p2=b, k=c) with keywords sorted, using the
    signature of m in the class"""

    def __init__(self, repo: Repo, ci: ClassInfo):
        self.repo = repo
        self.ci = ci

    def visit_Call(self, node):
        self.generic_visit(node)
        f = node.func
        if isinstance(f, ast.Attribute) and isinstance(f.value, ast.Name) and f.value.id == "self":
            m = self.repo.find_method(self.ci, f.attr)
            if m is not None and not any(isinstance(a, ast.Starred) for a in node.args):
                names = [a.arg for a in m.node.args.posonlyargs + m.node.args.args][1:]
                if len(node.args) <= len(names):
                    kws = [ast.keyword(arg=names[i], value=a) for i, a in enumerate(node.args)]
                    node.args = []
                    node.keywords = kws + node.keywords
            named = sorted([k for k in node.keywords if k.arg is not None], key=lambda k: k.arg)
            node.keywords = named + [k for k in node.keywords if k.arg is None]
        return node


class _AlphaRenamer(ast.NodeTransformer):
    """rename local variables (not parameters, not attributes) by first binding order"""

    def __init__(self, params: Set[str]):
        self.params = params
        self.map: Dict[str, str] = {}

    def run(self, fn):
        # collect stores in source order
        for n in _ordered_walk(fn):
            if isinstance(n, ast.Name) and isinstance(n.ctx, ast.Store) and n.id not in self.params and n.id not in self.map:
                self.map[n.id] = f"_v{len(self.map)}"
            elif isinstance(n, ast.ExceptHandler) and n.name and n.name not in self.map:
                self.map[n.name] = f"_v{len(self.map)}"
            elif isinstance(n, (ast.FunctionDef, ast.AsyncFunctionDef)) and n is not fn and n.name not in self.map:
                self.map[n.name] = f"_v{len(self.map)}"
        return self.visit(fn)

    def visit_Name(self, node):
        if node.id in self.map:
            node.id = self.map[node.id]
        return node

    def visit_ExceptHandler(self, node):
        if node.name in self.map:
            node.name = self.map[node.name]
        self.generic_visit(node)
        return node

    def visit_FunctionDef(self, node):
        if node.name in self.map:
            node.name = self.map[node.name]
        self.generic_visit(node)
        return node

    def visit_arg(self, node):
        if node.arg in self.map:
            node.arg = self.map[node.arg]
        return node


def _ordered_walk(node):
    yield node
    for c in ast.iter_child_nodes(node):
        yield from _ordered_walk(c)


def _is_span_call(e: ast.AST, span_names: Set[str]) -> bool:
    return isinstance(e, ast.Call) and isinstance(e.func, ast.Attribute) and isinstance(e.func.value, ast.Name) \
        and e.func.value.id in span_names


class _TelemetryEraser:
    """with self.tracer.start_as_current_span(..) as S: B -> B ; drop S.* statements;
    drop ifs emptied by that; drop assignments only used by dropped statements;
    _X_with_telemetry(root_span=.., ...) -> _X(...)"""

    SUFFIX = "_with_telemetry"

    def __init__(self):
        self.spans: Set[str] = {"root_span", "span"}

    def run(self, fn):
        fn = copy.deepcopy(fn)
        # parameters that carry spans
        fn.args.args = [a for a in fn.args.args if a.arg != "root_span"]
        fn.body = self._block(fn.body)
        self._drop_dead_assigns(fn)
        fn = _CallRenamer(self.SUFFIX).visit(fn)
        if fn.name.endswith(self.SUFFIX):
            fn.name = fn.name[: -len(self.SUFFIX)]
        return fn

    def _is_tracer_with(self, st) -> bool:
        if not isinstance(st, (ast.With, ast.AsyncWith)) or len(st.items) != 1:
            return False
        c = st.items[0].context_expr
        return isinstance(c, ast.Call) and isinstance(c.func, ast.Attribute) and c.func.attr == "start_as_current_span"

    def _block(self, body: List[ast.stmt]) -> List[ast.stmt]:
        out: List[ast.stmt] = []
        for st in body:
            if self._is_tracer_with(st):
                v = st.items[0].optional_vars
                if isinstance(v, ast.Name):
                    self.spans.add(v.id)
                out.extend(self._block(st.body))
                continue
            if isinstance(st, ast.Expr) and _is_span_call(st.value, self.spans):
                continue
            for fld in ("body", "orelse", "finalbody"):
                b = getattr(st, fld, None)
                if isinstance(b, list) and b and isinstance(b[0], ast.stmt):
                    setattr(st, fld, self._block(b))
            for h in getattr(st, "handlers", []) or []:
                h.body = self._block(h.body) or [ast.Pass()]
            if isinstance(st, ast.If) and not st.body and not st.orelse:
                continue
            if isinstance(st, (ast.If, ast.For, ast.While, ast.With, ast.AsyncWith, ast.AsyncFor)) and not st.body:
                st.body = [ast.Pass()]
            out.append(st)
        return out

    def _drop_dead_assigns(self, fn) -> None:
        changed = True
        while changed:
            changed = False
            loads = {n.id for n in ast.walk(fn) if isinstance(n, ast.Name) and isinstance(n.ctx, ast.Load)}

            def prune(body):
                nonlocal changed
                out = []
                for st in body:
                    if isinstance(st, ast.Assign) and len(st.targets) == 1 and isinstance(st.targets[0], ast.Name) \
                            and st.targets[0].id not in loads and _pure_expr(st.value):
                        changed = True
                        continue
                    for fld in ("body", "orelse", "finalbody"):
                        b = getattr(st, fld, None)
                        if isinstance(b, list) and b and isinstance(b[0], ast.stmt):
                            setattr(st, fld, prune(b) or [ast.Pass()])
                    out.append(st)
                return out

            fn.body = prune(fn.body)


def _pure_expr(e: ast.expr) -> bool:
    """json.dumps(..)/str(..)-style expressions with no repo side effects"""
    for n in ast.walk(e):
        if isinstance(n, ast.Call):
            d = n.func
            name = d.attr if isinstance(d, ast.Attribute) else getattr(d, "id", "")
            base = d.value.id if isinstance(d, ast.Attribute) and isinstance(d.value, ast.Name) else ""
            if not ((base == "json" and name == "dumps") or name in ("str", "repr")
                    or (base == "self" and name == "_convert_dict_to_json_serializable")):
                return False
        if isinstance(n, (ast.Await, ast.Yield, ast.YieldFrom)):
            return False
    return True


class _CallRenamer(ast.NodeTransformer):
    def __init__(self, suffix):
        self.suffix = suffix

    def visit_Call(self, node):
        self.generic_visit(node)
        f = node.func
        if isinstance(f, ast.Attribute) and f.attr.endswith(self.suffix):
            f.attr = f.attr[: -len(self.suffix)]
            node.keywords = [k for k in node.keywords if k.arg != "root_span"]
        return node


def normal_form(repo: Repo, ci: ClassInfo, fi: FuncInfo, erase_async: bool = True,
                erase_telemetry: bool = False, rename_to: Optional[str] = None) -> str:
    fn = copy.deepcopy(fi.node)
    if erase_telemetry:
        fn = _TelemetryEraser().run(fn)
    if erase_async:
        fn = _AsyncEraser().visit(fn)
    fn = _Stripper().visit(fn)
    fn = _KeywordBinder(repo, ci).visit(fn)
    params = {a.arg for a in fn.args.posonlyargs + fn.args.args + fn.args.kwonlyargs}
    if fn.args.vararg:
        params.add(fn.args.vararg.arg)
    if fn.args.kwarg:
        params.add(fn.args.kwarg.arg)
    fn = _AlphaRenamer(params).run(fn)
    if rename_to:
        fn.name = rename_to
    ast.fix_missing_locations(fn)
    return ast.dump(fn, annotate_fields=True, include_attributes=False)


def first_difference(a: str, b: str) -> str:
    i = 0
    n = min(len(a), len(b))
    while i < n and a[i] == b[i]:
        i += 1
    return f"...{a[max(0, i - 60):i + 80]}  <->  ...{b[max(0, i - 60):i + 80]}"


def is_forwarder(fn: ast.AST, target: str) -> bool:
    """after telemetry erasure: body is a single `return/expr self.<target>(<own params by name>)`"""
    body = [s for s in fn.body if not isinstance(s, ast.Pass)]
    if len(body) != 1:
        return False
    st = body[0]
    v = st.value if isinstance(st, (ast.Return, ast.Expr)) else None
    if isinstance(v, ast.Await):
        v = v.value
    if not (isinstance(v, ast.Call) and isinstance(v.func, ast.Attribute) and isinstance(v.func.value, ast.Name)
            and v.func.value.id == "self" and v.func.attr == target):
        return False
    params = [a.arg for a in fn.args.args if a.arg != "self"]
    if v.args:
        return False
    passed = {}
    for k in v.keywords:
        if k.arg is None:
            if not (fn.args.kwarg and isinstance(k.value, ast.Name) and k.value.id == fn.args.kwarg.arg):
                return False
            continue
        if not (isinstance(k.value, ast.Name) and k.value.id == k.arg):
            return False
        passed[k.arg] = True
    if set(passed) != set(params):
        return False
    if fn.args.kwarg and not any(k.arg is None for k in v.keywords):
        return False
    return True
