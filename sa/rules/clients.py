"""Rules over the four bundled base clients (dependencies/): C11, C12, C13 and the
client-side clauses of C03."""
from __future__ import annotations

import ast
import copy
from typing import Dict, List, Optional, Tuple

from ..absint import Interp, Outcome, subst
from ..model import AnalysisError, ClassInfo, FuncInfo, dotted, norm, walk_no_nested
from ..report import rule
from ..siblings import _TelemetryEraser, first_difference, is_forwarder, normal_form
from ..util import (allargs, argv, calls_named, cfg_of, dict_items, is_attr, is_const, is_name, key, kw, names_in,
                    pkg_version, site_packages_source, stdlib_source, strip_pre)

DEP = "client_generators.dependencies."
CLIENTS = {
    "async": (DEP + "async_base_client", "AsyncBaseClient"),
    "sync": (DEP + "base_client", "BaseClient"),
    "async_otel": (DEP + "async_base_client_open_telemetry", "AsyncBaseClientOpenTelemetry"),
    "sync_otel": (DEP + "base_client_open_telemetry", "BaseClientOpenTelemetry"),
}
TELE = "_with_telemetry"


def client_classes(repo) -> Dict[str, ClassInfo]:
    return {k: repo.cls(f"{m}:{c}") for k, (m, c) in CLIENTS.items()}


def _method(ci: ClassInfo, name: str) -> FuncInfo:
    m = ci.methods.get(name)
    if m is None:
        raise AnalysisError(f"anchor method {ci.key}.{name} not found")
    return m


# --------------------------------------------------------------------- C11.R1
@rule("C11.R1", "the four bundled clients agree after async erasure / telemetry dispatch", min_instances=30)
def c11_r1(ctx):
    repo = ctx.repo
    cl = client_classes(repo)

    def compare(a_tag, a_name, b_tag, b_name, what):
        ca, cb = cl[a_tag], cl[b_tag]
        fa, fb = _method(ca, a_name), _method(cb, b_name)
        na = normal_form(repo, ca, fa, rename_to="m")
        nb = normal_form(repo, cb, fb, rename_to="m")
        k = f"{ca.module.short}::{ca.qualname}.{a_name} ~ {cb.module.short}::{cb.qualname}.{b_name}"
        if na == nb:
            ctx.ok(f"{what}: {k}", fa.loc())
        else:
            ctx.fail(k, f"{what}: sibling implementations differ after normalisation: {first_difference(na, nb)}", fb.loc())

    # (a) async vs sync of the same flavour
    for a, s in (("async", "sync"), ("async_otel", "sync_otel")):
        for name in sorted(set(cl[a].methods) & set(cl[s].methods) | {"__aenter__", "__aexit__"} & set(cl[a].methods)):
            sname = {"__aenter__": "__enter__", "__aexit__": "__exit__"}.get(name, name)
            if name == "__init__" or sname not in cl[s].methods:
                continue
            compare(a, name, s, sname, "async~sync")
        _compare_inits(ctx, repo, cl[s], cl[a], "sync<=async")
    # (b) plain vs OpenTelemetry flavour: shared helpers identical; _execute == execute; _execute_ws == execute_ws
    for p, o in (("async", "async_otel"), ("sync", "sync_otel")):
        for name in sorted(set(cl[p].methods) & set(cl[o].methods)):
            if name in ("__init__", "execute", "execute_ws"):
                continue
            compare(p, name, o, name, "plain~otel")
        compare(p, "execute", o, "_execute", "plain.execute~otel._execute")
        if "execute_ws" in cl[p].methods:
            compare(p, "execute_ws", o, "_execute_ws", "plain.execute_ws~otel._execute_ws")
        _compare_inits(ctx, repo, cl[p], cl[o], "plain<=otel")
    # (c) OTel dispatchers: `if self.tracer: X_with_telemetry(P) else X(P)`, P = all own parameters
    for o in ("async_otel", "sync_otel"):
        for name in ("execute", "execute_ws"):
            if name not in cl[o].methods:
                continue
            fi = _method(cl[o], name)
            _check_dispatcher(ctx, fi, "_" + name)


def _init_attrs(repo, ci: ClassInfo) -> Dict[str, str]:
    from ..siblings import _AsyncEraser, _Stripper
    fi = _method(ci, "__init__")
    fn = _Stripper().visit(_AsyncEraser().visit(copy.deepcopy(fi.node)))
    out = {}
    for st in ast.walk(fn):
        if isinstance(st, ast.Assign) and len(st.targets) == 1 and isinstance(st.targets[0], ast.Attribute) and is_name(st.targets[0].value, "self"):
            out[st.targets[0].attr] = ast.dump(st.value)
    return out


REQUEST_ATTRS = ("url", "headers", "http_client", "ws_url", "ws_headers", "ws_origin", "ws_connection_init_payload")


def _compare_inits(ctx, repo, small: ClassInfo, big: ClassInfo, what: str):
    """constructors: the attributes the request path reads are initialised identically;
    the smaller client's attribute set is contained in the bigger one's"""
    a, b = _init_attrs(repo, small), _init_attrs(repo, big)
    fi = _method(big, "__init__")
    probs = []
    missing = sorted(set(a) - set(b))
    if missing:
        probs.append(f"attributes {missing} of {small.qualname} are not initialised by {big.qualname}")
    for attr in REQUEST_ATTRS:
        if attr in a and attr in b and a[attr] != b[attr]:
            probs.append(f"self.{attr} is initialised differently in {small.qualname} and {big.qualname}")
    ctx.check(not probs, f"{big.module.short}::{big.qualname}.__init__ ~ {small.module.short}::{small.qualname}.__init__ ({what})",
              "; ".join(probs), fi.loc(), okmsg=f"constructors agree on request attributes ({what}): {small.qualname} / {big.qualname}")


def _check_dispatcher(ctx, fi: FuncInfo, target: str):
    fn = fi.node
    params = [a.arg for a in fn.args.args if a.arg != "self"]
    calls = [c for c in walk_no_nested(fn) if isinstance(c, ast.Call) and dotted(c.func) in (f"self.{target}", f"self.{target}{TELE}")]
    k = key(fi, "dispatch")
    if {dotted(c.func) for c in calls} != {f"self.{target}", f"self.{target}{TELE}"}:
        ctx.fail(k, f"dispatcher must call both self.{target} and self.{target}{TELE}", fi.loc())
        return
    ok = True
    for c in calls:
        passed = {kk.arg: kk.value for kk in c.keywords if kk.arg}
        splat = [kk.value for kk in c.keywords if kk.arg is None]
        if c.args or set(passed) != set(params) or any(not is_name(v, n) for n, v in passed.items()) \
                or not (fn.args.kwarg and len(splat) == 1 and is_name(splat[0], fn.args.kwarg.arg)):
            ctx.fail(key(fi, norm(c.func)), f"dispatcher call does not forward every parameter by name plus **kwargs: {norm(c)[:120]}", fi.loc(c))
            ok = False
    # the branch test is the truthiness of self.tracer and nothing else
    tests = [n.test for n in walk_no_nested(fn) if isinstance(n, ast.If)]
    if len(tests) != 1 or norm(tests[0]) not in ("self.tracer", "self.tracer is not None"):
        ctx.fail(k, f"dispatcher test must be the presence of self.tracer, found {[norm(t) for t in tests]}", fi.loc())
        ok = False
    # what is done with the result: returned, or iterated and re-yielded unchanged
    for n in walk_no_nested(fn):
        if isinstance(n, (ast.Yield,)):
            # must yield the loop variable of a for over the generator variable
            loops = [l for l in walk_no_nested(fn) if isinstance(l, (ast.For, ast.AsyncFor))]
            good = len(loops) == 1 and isinstance(loops[0].target, ast.Name) and is_name(n.value, loops[0].target.id) \
                and len(loops[0].body) == 1
            if not good:
                ctx.fail(key(fi, "yield"), "execute_ws dispatcher must re-yield each message unchanged", fi.loc(n))
                ok = False
    if ok:
        ctx.ok(f"{fi.key} dispatches on self.tracer and forwards all parameters", fi.loc())


# --------------------------------------------------------------------- C11.R2
@rule("C11.R2", "every *_with_telemetry method equals its plain twin after telemetry erasure or forwards to it",
      min_instances=10, also=["C12", "C13"])
def c11_r2(ctx):
    repo = ctx.repo
    cl = client_classes(repo)
    for tag in ("async_otel", "sync_otel"):
        ci = cl[tag]
        for name, fi in sorted(ci.methods.items()):
            if not name.endswith(TELE):
                continue
            twin = name[: -len(TELE)]
            if twin not in ci.methods:
                ctx.fail(key(fi, "twin"), f"{name} has no plain twin {twin}", fi.loc())
                continue
            erased = _TelemetryEraser().run(fi.node)
            if is_forwarder(erased, twin):
                ctx.ok(f"{ci.qualname}.{name} forwards to {twin}", fi.loc())
                continue
            na = normal_form(repo, ci, fi, erase_telemetry=True, rename_to="m")
            nb = normal_form(repo, ci, ci.methods[twin], rename_to="m")
            ctx.check(na == nb, key(fi, "twin-equality"),
                      f"{name} is neither a forwarder to {twin} nor equal to it after telemetry erasure: {first_difference(na, nb)}",
                      fi.loc(), okmsg=f"{ci.qualname}.{name} == {twin} after telemetry erasure")


# ------------------------------------------------------- request body helpers
def _outcomes(fi: FuncInfo, atom=None, raises=None, is_effect=None, catches=None) -> List[Outcome]:
    it = Interp(fi, atom or (lambda e: None), raises=raises, is_effect=is_effect, catches=catches)
    return it.run()


def _is_body_dict(e: ast.AST, params=("query", "operation_name", "variables")) -> Optional[str]:
    """None if e is {"query": query, "operationName": operation_name, "variables": variables}"""
    if not isinstance(e, ast.Dict):
        return f"not a dict literal: {norm(e)[:80]}"
    items = dict_items(e)
    want = {"query": params[0], "operationName": params[1], "variables": params[2]}
    if set(items) != set(want):
        return f"body keys are {sorted(map(str, items))}, expected {sorted(want)}"
    for k, p in want.items():
        if not is_name(items[k], p):
            return f"body key {k!r} is bound to {norm(items[k])[:60]}, expected parameter {p}"
    return None


def _json_dumps_arg(e: ast.AST) -> Optional[ast.AST]:
    if isinstance(e, ast.Call) and dotted(e.func) == "json.dumps" and e.args:
        return allargs(e)[0]
    return None


@rule("C11.R3", "request body carries exactly query/operationName/variables from the like-named parameters", min_instances=8,
      also=["C02"])
def c11_r3(ctx):
    for tag, ci in client_classes(ctx.repo).items():
        # JSON path
        fi = _method(ci, "_execute_json")
        outs = [o for o in _outcomes(fi) if o.kind == "return"]
        if len(outs) != 1 or not isinstance(outs[0].value, ast.Call):
            ctx.fail(key(fi, "return"), "cannot identify the single returned post call", fi.loc())
        else:
            post = outs[0].value
            ok = dotted(post.func) == "self.http_client.post"
            problems = []
            if not ok:
                problems.append(f"returned call is {dotted(post.func)}, expected self.http_client.post")
            url = kw(post, "url") or (allargs(post)[0] if allargs(post) else None)
            if url is None or norm(url) != "self.url":
                problems.append(f"url is {norm(url) if url is not None else None}")
            content = kw(post, "content")
            body = _json_dumps_arg(content) if content is not None else None
            if body is None:
                j = kw(post, "json")
                body = j
            if body is None:
                problems.append("no content=json.dumps(..) / json= body")
            else:
                why = _is_body_dict(strip_pre(body))
                if why:
                    problems.append(why)
            for bad in ("data", "files"):
                if kw(post, bad) is not None:
                    problems.append(f"JSON path passes {bad}=")
            ctx.check(not problems, key(fi, "post"), "; ".join(problems), fi.loc(), okmsg=f"{tag}._execute_json posts the three-key JSON body")
        # multipart path
        fi = _method(ci, "_execute_multipart")
        outs = [o for o in _outcomes(fi) if o.kind == "return"]
        if len(outs) != 1 or not isinstance(outs[0].value, ast.Call):
            ctx.fail(key(fi, "return"), "cannot identify the single returned post call", fi.loc())
            continue
        post = outs[0].value
        problems = []
        if dotted(post.func) != "self.http_client.post":
            problems.append(f"returned call is {dotted(post.func)}")
        url = kw(post, "url") or (allargs(post)[0] if allargs(post) else None)
        if url is None or norm(url) != "self.url":
            problems.append("url is not self.url")
        data = outs[0].deref(kw(post, "data"))
        data = strip_pre(data) if data is not None else None
        if not isinstance(data, ast.Dict):
            problems.append("data= is not a dict literal")
        else:
            items = dict_items(data)
            if set(items) != {"operations", "map"}:
                problems.append(f"multipart form fields are {sorted(map(str, items))}, expected ['map', 'operations']")
            else:
                ops = _json_dumps_arg(items["operations"])
                why = _is_body_dict(ops) if ops is not None else "operations is not json.dumps(..)"
                if why:
                    problems.append(why)
                mp = _json_dumps_arg(items["map"])
                if mp is None or not is_name(mp, "files_map"):
                    problems.append("map is not json.dumps(files_map)")
        files = kw(post, "files")
        if files is None or not is_name(files, "files"):
            problems.append("files= is not the files parameter")
        splat = [k.value for k in post.keywords if k.arg is None]
        if not (len(splat) == 1 and is_name(splat[0], "kwargs")):
            problems.append("**kwargs not forwarded to post")
        for bad in ("headers", "content", "json"):
            if kw(post, bad) is not None:
                problems.append(f"multipart path passes {bad}= (the multipart boundary Content-Type must be left to the HTTP library)")
        if outs[0].muts("kwargs"):
            problems.append("the caller's kwargs mapping is mutated on the multipart path")
        ctx.check(not problems, key(fi, "post"), "; ".join(problems), fi.loc(), okmsg=f"{tag}._execute_multipart posts operations/map/files")


# --------------------------------------------------------------------- C11.R4
@rule("C11.R4", "Content-Type default first, caller headers win, kwargs not mutated", min_instances=4)
def c11_r4(ctx):
    for tag, ci in client_classes(ctx.repo).items():
        fi = _method(ci, "_execute_json")
        outs = [o for o in _outcomes(fi) if o.kind == "return"]
        if len(outs) != 1 or not isinstance(outs[0].value, ast.Call):
            ctx.fail(key(fi, "return"), "cannot identify the returned post call", fi.loc())
            continue
        o = outs[0]
        post = o.value
        problems = []
        hdr_expr = kw(post, "headers")
        for k in post.keywords:
            if k.arg is not None:
                continue
            sp = k.value
            if is_name(sp, "kwargs"):
                if hdr_expr is None:
                    problems.append("kwargs is splatted directly and no headers= is passed: the Content-Type default is lost")
                continue
            if isinstance(sp, ast.Name):
                base = strip_pre(o.env.get(sp.id)) if o.env.get(sp.id) is not None else None
                is_copy = base is not None and (
                    (isinstance(base, ast.Call) and dotted(base.func) == "kwargs.copy") or
                    (isinstance(base, ast.Call) and dotted(base.func) == "dict" and allargs(base) and is_name(allargs(base)[0], "kwargs")) or
                    (isinstance(base, ast.Dict) and any(kk is None and is_name(v, "kwargs") for kk, v in zip(base.keys, base.values))))
                if not is_copy:
                    problems.append(f"mapping splatted into post is {norm(base)[:60] if base is not None else sp.id}, not a copy of kwargs "
                                    "(the caller's dict would be mutated, or the caller's other keyword arguments dropped)")
                for m in o.muts(sp.id):
                    if isinstance(m, ast.Call) and is_name(m.func, "<setitem>") and is_const(allargs(m)[1], "headers"):
                        hdr_expr = allargs(m)[2]
                    elif isinstance(m, ast.Call) and is_name(m.func, "<setitem>") and is_name(allargs(m)[0], "kwargs"):
                        problems.append("the caller's kwargs mapping is mutated")
        for m in o.muts("kwargs"):
            problems.append(f"the caller's kwargs mapping is mutated: {norm(m)[:60]}")
        if hdr_expr is None:
            problems.append("no headers entry reaches the post call")
        else:
            hname = hdr_expr.id if isinstance(hdr_expr, ast.Name) else None
            lit = strip_pre(o.deref(hdr_expr))
            sources: List[str] = []
            if isinstance(lit, ast.Dict):
                for k_, v_ in zip(lit.keys, lit.values):
                    if k_ is None:
                        sources.append("caller" if "kwargs" in names_in(v_) else "other")
                    elif is_const(k_, "Content-Type"):
                        sources.append("default" if is_const(v_, "application/json") else "default-wrong")
            else:
                problems.append(f"headers value is {norm(lit)[:60]}, not built from a dict literal holding the Content-Type default")
            if hname:
                for m in o.muts(hname):
                    if isinstance(m, ast.Call) and isinstance(m.func, ast.Attribute) and m.func.attr == "update" and m.args:
                        sources.append("caller" if "kwargs" in names_in(allargs(m)[0]) and "headers" in norm(allargs(m)[0]) else "other")
                    elif isinstance(m, ast.Call) and is_name(m.func, "<setitem>") and is_const(allargs(m)[1], "Content-Type"):
                        sources.append("default" if is_const(allargs(m)[2], "application/json") else "default-wrong")
                    elif isinstance(m, ast.Call) and isinstance(m.func, ast.Attribute) and m.func.attr == "setdefault" and allargs(m) and is_const(allargs(m)[0], "Content-Type"):
                        sources.insert(0, "default" if len(allargs(m)) > 1 and is_const(allargs(m)[1], "application/json") else "default-wrong")
            if "default-wrong" in sources:
                problems.append("the Content-Type default is not application/json")
            if "default" not in sources:
                problems.append("no Content-Type: application/json default")
            elif "caller" not in sources:
                problems.append("caller-supplied headers (kwargs['headers']) are not merged")
            elif sources.index("default") > len(sources) - 1 - sources[::-1].index("caller"):
                problems.append("the Content-Type default is applied after the caller's headers (the caller no longer wins)")
        ctx.check(not problems, key(fi, "headers"), "; ".join(problems), fi.loc(), okmsg=f"{tag}._execute_json merges default then caller headers into a copy of kwargs")


# --------------------------------------------------------------------- C11.R5
def _sep_atom(scn):
    def atom(e):
        t = norm(e)
        if t == "isinstance(obj, list)":
            return scn.get("list", False)
        if t == "isinstance(obj, dict)":
            return scn.get("dict", False)
        if t == "isinstance(obj, Upload)":
            return scn.get("upload", False)
        if t in ("isinstance(obj, (list, tuple))", "isinstance(obj, (tuple, list))"):
            return scn.get("list", False)
        if t == "obj in files_list":
            return scn.get("seen")
        if t == "obj is None":
            return False
        return None
    return atom


def _fmt_parts(e: ast.AST) -> Optional[List[str]]:
    """parts of an f-string / concatenation as texts"""
    if isinstance(e, ast.JoinedStr):
        out = []
        for p in e.values:
            if isinstance(p, ast.Constant):
                out.append(repr(p.value))
            else:
                out.append(norm(strip_pre(p.value)))
        return out
    return None


@rule("C11.R5", "upload extraction follows the multipart request spec on every path", min_instances=24, also=["C03"])
def c11_r5(ctx):
    from ..util import comp_struct
    for tag, ci in client_classes(ctx.repo).items():
        outer = _method(ci, "_get_files_from_variables")
        sep_key = f"{ci.module.short}:{ci.qualname}._get_files_from_variables.separate_files"
        sep = ctx.repo.func(sep_key)
        eff = lambda c: (isinstance(c.func, ast.Name) and c.func.id in ("<setitem>",)) or \
                        (isinstance(c.func, ast.Attribute) and dotted(c.func).split(".")[0] in ("files_list", "files_map") and c.func.attr in ("append", "extend", "insert", "setdefault", "pop", "remove", "clear", "update")) or \
                        (isinstance(c.func, ast.Attribute) and isinstance(c.func.value, ast.Subscript) and dotted(c.func.value.value) == "files_map")

        def run(scn):
            return Interp(sep, _sep_atom(scn), is_effect=eff).run()

        def _rv(o):
            """the returned value; a result variable assigned a name or a constant on this path stands for that value"""
            v = o.value
            if isinstance(v, ast.Name) and o.env.get(v.id) is not None:
                d = strip_pre(o.env[v.id])
                if isinstance(d, (ast.Name, ast.Constant)):
                    return d
            return v

        # other: returned unchanged, no effect
        outs = run({})
        good = len(outs) == 1 and outs[0].kind == "return" and is_name(_rv(outs[0]), "obj") and not outs[0].effects
        ctx.check(good, key(sep, "leaf"), f"a non-container, non-Upload value must be returned unchanged with no side effect; got {[o.text() for o in outs]}", sep.loc(), okmsg=f"{tag}: leaf returned unchanged")

        # Upload seen before: None returned, exactly one append of `path` to files_map[str(index of obj)]
        outs = run({"upload": True, "seen": True})
        probs = []
        if len(outs) != 1:
            probs.append(f"{len(outs)} outcomes")
        else:
            o = outs[0]
            if not (o.kind == "return" and (o.value is None or is_const(_rv(o), None))):
                probs.append(f"returns {o.text()} instead of None (file position must be null in operations)")
            effs = [norm(strip_pre(e)) for e in o.effects]
            if effs != ["files_map[str(files_list.index(obj))].append(path)"]:
                probs.append(f"effects are {effs}, expected a single files_map[str(files_list.index(obj))].append(path)")
        ctx.check(not probs, key(sep, "upload-repeated"), "; ".join(probs), sep.loc(), okmsg=f"{tag}: repeated Upload adds its path to the existing map entry")

        # Upload first time
        outs = run({"upload": True, "seen": False})
        probs = []
        if len(outs) != 1:
            probs.append(f"{len(outs)} outcomes")
        else:
            o = outs[0]
            if not (o.kind == "return" and (o.value is None or is_const(_rv(o), None))):
                probs.append(f"returns {o.text()} instead of None")
            effs = [norm(e) for e in o.effects]
            want_a = "files_list.append(obj)"
            # index must be len(files_list) taken BEFORE the append
            want_b1 = "<setitem>(files_map, str(<pre>(len(files_list), 'files_list', 0)), [path])"
            want_b0 = "<setitem>(files_map, str(len(files_list)), [path])"
            if effs == [want_a, want_b1] or effs == [want_b0, want_a]:
                pass
            else:
                probs.append(f"effects are {effs}; expected files_list.append(obj) and files_map[str(<index before append>)] = [path]")
        ctx.check(not probs, key(sep, "upload-first"), "; ".join(probs), sep.loc(), okmsg=f"{tag}: first Upload registered once with a fresh index")

        # list: every element recursed with path.index, result collected in order
        allo = run({"list": True})
        outs = [o for o in allo if any("loop body once" in t for t in o.trace)]
        probs = []
        compform = [strip_pre(o.deref(o.value)) for o in allo if o.kind == "return" and o.value is not None and isinstance(strip_pre(o.deref(o.value)), ast.ListComp)]
        if not outs and len(allo) == 1 and len(compform) == 1:
            # comprehension form of the same loop (also what the loader makes of a plain accumulation loop)
            cs = comp_struct(compform[0])
            if not (cs[0] == "separate_files(path=f'{path}.{$0_0}', obj=$0_1)" and [(str(a), [str(x) for x in b]) for a, b in cs[1]] == [("enumerate(obj)", [])]):
                probs.append(f"list branch builds {norm(compform[0])[:140]}; expected [separate_files(f'{{path}}.{{index}}', value) for index, value in enumerate(obj)]")
        elif len(outs) != 1 or outs[0].kind != "return":
            probs.append(f"list branch outcomes: {[o.text() for o in outs]}")
        else:
            o = outs[0]
            rv = o.value
            name = rv.id if isinstance(rv, ast.Name) else None
            built = strip_pre(o.deref(rv)) if rv is not None else None
            if name is None or not isinstance(built, ast.List) or built.elts:
                probs.append(f"list branch does not return a freshly built list: {norm(rv) if rv is not None else None}")
            else:
                m = o.muts(name)
                calls = [c for c in ast.walk(m[0]) if isinstance(c, ast.Call) and is_name(c.func, "separate_files")] if len(m) == 1 else []
                if len(m) != 1 or not (isinstance(m[0], ast.Call) and isinstance(m[0].func, ast.Attribute) and m[0].func.attr == "append") or len(calls) != 1:
                    probs.append(f"list branch must append exactly the recursive result per element: {[norm(x)[:100] for x in m]}")
                else:
                    c = calls[0]
                    ca = allargs(c)
                    parts = _fmt_parts(ca[0]) if ca else None
                    elem = "<elem>(enumerate(obj))"
                    if parts != ["path", "'.'", f"{elem}[0]"] or len(ca) != 2 or norm(ca[1]) != f"{elem}[1]":
                        probs.append(f"recursive call is {norm(c)[:140]}; expected separate_files(f'{{path}}.{{index}}', value) over enumerate(obj)")
        ctx.check(not probs, key(sep, "list"), "; ".join(probs), sep.loc(), okmsg=f"{tag}: list elements recursed with path.index")

        # dict
        allo = run({"dict": True})
        outs = [o for o in allo if any("loop body once" in t for t in o.trace)]
        probs = []
        compform = [strip_pre(o.deref(o.value)) for o in allo if o.kind == "return" and o.value is not None and isinstance(strip_pre(o.deref(o.value)), ast.DictComp)]
        if not outs and len(allo) == 1 and len(compform) == 1:
            cs = comp_struct(compform[0])
            if not (cs[0] == "$0_0: separate_files(path=f'{path}.{$0_0}', obj=$0_1)" and [(str(a), [str(x) for x in b]) for a, b in cs[1]] == [("obj.items()", [])]):
                probs.append(f"dict branch builds {norm(compform[0])[:140]}; expected {{key: separate_files(f'{{path}}.{{key}}', value) for key, value in obj.items()}}")
        elif len(outs) != 1 or outs[0].kind != "return":
            probs.append(f"dict branch outcomes: {[o.text() for o in outs]}")
        else:
            o = outs[0]
            rv = o.value
            name = rv.id if isinstance(rv, ast.Name) else None
            built = strip_pre(o.deref(rv)) if rv is not None else None
            if name is None or not isinstance(built, ast.Dict) or built.keys:
                probs.append(f"dict branch does not return a freshly built dict: {norm(rv) if rv is not None else None}")
            else:
                m = o.muts(name)
                elem = "<elem>(obj.items())"
                okm = len(m) == 1 and isinstance(m[0], ast.Call) and is_name(m[0].func, "<setitem>") and is_name(allargs(m[0])[0], name) and norm(allargs(m[0])[1]) == f"{elem}[0]"
                calls = [c for c in ast.walk(m[0]) if isinstance(c, ast.Call) and is_name(c.func, "separate_files")] if okm else []
                if not okm or len(calls) != 1:
                    probs.append(f"dict branch must store the recursive result under the same key: {[norm(x)[:100] for x in m]}")
                else:
                    c = calls[0]
                    ca = allargs(c)
                    parts = _fmt_parts(ca[0]) if ca else None
                    if parts != ["path", "'.'", f"{elem}[0]"] or len(ca) != 2 or norm(ca[1]) != f"{elem}[1]":
                        probs.append(f"recursive call is {norm(c)[:140]}; expected separate_files(f'{{path}}.{{key}}', value) over obj.items()")
        ctx.check(not probs, key(sep, "dict"), "; ".join(probs), sep.loc(), okmsg=f"{tag}: dict values recursed with path.key")

        # root call, files dict, return triple
        outs = Interp(outer, lambda e: None).run()
        probs = []
        if len(outs) != 1 or outs[0].kind != "return" or not isinstance(outs[0].value, ast.Tuple) or len(outs[0].value.elts) != 3:
            probs.append("cannot identify the returned (variables, files, files_map) triple")
        else:
            o = outs[0]
            a, b, c = [strip_pre(o.deref(x)) for x in o.value.elts]
            c_raw = o.value.elts[2]
            if norm(a) != "separate_files('variables', variables)":
                probs.append(f"root call is {norm(a)[:80]}, expected separate_files('variables', variables)")
            good_b = isinstance(b, ast.DictComp) and len(b.generators) == 1 and norm(b.generators[0].iter) == "enumerate(files_list)" \
                and isinstance(b.generators[0].target, ast.Tuple) and len(b.generators[0].target.elts) == 2 and not b.generators[0].ifs \
                and norm(b.key) == f"str({norm(b.generators[0].target.elts[0])})"
            if not good_b:
                probs.append(f"files mapping is {norm(b)[:100]}; expected keys str(i) over enumerate(files_list)")
            elif isinstance(b.value, ast.Tuple):
                fv = norm(b.generators[0].target.elts[1])
                attrs = [norm(x) for x in b.value.elts]
                if attrs != [f"{fv}.filename", f"{fv}.content", f"{fv}.content_type"]:
                    probs.append(f"file tuple is {attrs}")
            else:
                probs.append("file entry is not a (filename, content, content_type) tuple")
            if not is_name(c_raw, "files_map"):
                probs.append(f"third element is {norm(c_raw)[:60]}, expected files_map")
            if o.muts("files_map") or o.muts("files_list"):
                probs.append("files_map / files_list mutated outside separate_files")
        ctx.check(not probs, key(outer, "root"), "; ".join(probs), outer.loc(), okmsg=f"{tag}: root path 'variables', files keyed by index")

        # dispatch: multipart iff files and files_map
        ex = _method(ci, "execute" if "_execute" not in ci.methods else "_execute")
        for scn, want in (({"files": True, "map": True}, "_execute_multipart"), ({"files": False, "map": False}, "_execute_json"),
                          ({"files": True, "map": False}, "_execute_json"), ({"files": False, "map": True}, "_execute_json")):
            def atom(e, scn=scn):
                t = norm(strip_pre(e))
                if t.endswith("[1]") and "_process_variables" in t:
                    return scn["files"]
                if t.endswith("[2]") and "_process_variables" in t:
                    return scn["map"]
                return None
            outs = Interp(ex, atom).run()
            names = {dotted(o.value.func).split(".")[-1] if isinstance(o.value, ast.Call) else "?" for o in outs if o.kind == "return"}
            ctx.check(names == {want}, key(ex, f"dispatch files={scn['files']} map={scn['map']}"),
                      f"with files={scn['files']} files_map={scn['map']} the request goes to {sorted(names)}, expected {want}", ex.loc(),
                      okmsg=f"{tag}: files={scn['files']} map={scn['map']} -> {want}")


# --------------------------------------------------------------------- C11.R6
@rule("C11.R6", "no per-call state is stored on the client object or in module globals", min_instances=4)
def c11_r6(ctx):
    for tag, ci in client_classes(ctx.repo).items():
        bad = []
        for name, fi in ci.methods.items():
            if name == "__init__":
                continue
            for n in ast.walk(fi.node):
                if isinstance(n, ast.Attribute) and isinstance(n.ctx, (ast.Store, ast.Del)) and is_name(n.value, "self"):
                    bad.append((fi, n, f"self.{n.attr} assigned in {name}"))
                if isinstance(n, (ast.Global, ast.Nonlocal)) and isinstance(n, ast.Global):
                    bad.append((fi, n, f"global {', '.join(n.names)} in {name}"))
                if isinstance(n, ast.Call) and isinstance(n.func, ast.Attribute) and n.func.attr in ("append", "update", "extend", "setdefault", "pop", "clear", "add") \
                        and isinstance(n.func.value, ast.Attribute) and is_name(n.func.value.value, "self") and n.func.value.attr not in ("http_client",):
                    bad.append((fi, n, f"in-place mutation of self.{n.func.value.attr} in {name}"))
        if bad:
            for fi, n, msg in bad:
                ctx.fail(key(fi, norm(n)[:80]), f"shared mutable state: {msg} (concurrent calls would affect each other)", fi.loc(n))
        else:
            ctx.ok(f"{tag}: no store to self.* outside __init__ in {len(ci.methods)} methods", ci.loc())


# --------------------------------------------------------------------- C11.R7 / C03.R3
@rule("C11.R7", "variables are converted with the UNSET filter and by_alias/exclude_unset dumps before sending", min_instances=12,
      also=["C03", "C13", "C07"])
def c11_r7(ctx):
    for tag, ci in client_classes(ctx.repo).items():
        # _convert_dict_to_json_serializable
        fi = _method(ci, "_convert_dict_to_json_serializable")
        outs = [o for o in Interp(fi, lambda e: None).run()]
        probs = []
        dparam = fi.node.args.args[1].arg if len(fi.node.args.args) > 1 else "dict_"
        if len(outs) != 1 or not isinstance(outs[0].value, ast.DictComp):
            probs.append("not a single dict comprehension over the variables")
        else:
            dc = outs[0].value
            g = dc.generators[0]
            if norm(g.iter) != f"{dparam}.items()" or not isinstance(g.target, ast.Tuple) or len(g.target.elts) != 2:
                probs.append(f"iterates {norm(g.iter)}")
            else:
                kn, vn = norm(g.target.elts[0]), norm(g.target.elts[1])
                if norm(dc.key) != kn:
                    probs.append(f"key expression is {norm(dc.key)}, expected the original key {kn}")
                if norm(dc.value) != f"self._convert_value({vn})":
                    probs.append(f"value expression is {norm(dc.value)}, expected self._convert_value({vn})")
                guards = [norm(x) for x in g.ifs]
                if guards != [f"{vn} is not UNSET"]:
                    probs.append(f"guards are {guards}, expected exactly ['{vn} is not UNSET'] (omitted arguments must be absent, None must travel)")
        ctx.check(not probs, key(fi, "comprehension"), "; ".join(probs), fi.loc(), okmsg=f"{tag}: UNSET filtered, None kept, values converted")

        # _convert_value
        fi = _method(ci, "_convert_value")
        vp = fi.node.args.args[1].arg if len(fi.node.args.args) > 1 else "value"

        def mk(scn):
            def atom(e):
                t = norm(e)
                if t == f"isinstance({vp}, BaseModel)":
                    return scn == "model"
                if t == f"isinstance({vp}, list)":
                    return scn == "list"
                return None
            return atom
        def _res(x):
            """the returned value; a single-exit result variable stands for what it was assigned on this path"""
            v = x.value
            if isinstance(v, ast.Name) and v.id != vp and isinstance(x.env.get(v.id), ast.AST):
                return strip_pre(x.env[v.id])
            return strip_pre(v) if v is not None else v
        o = Interp(fi, mk("model")).run()
        probs = []
        if len(o) != 1 or not isinstance(_res(o[0]), ast.Call) or dotted(_res(o[0]).func) != f"{vp}.model_dump":
            probs.append(f"BaseModel values are not dumped with model_dump: {[x.text() for x in o]}")
        else:
            c = _res(o[0])
            flags = {k.arg: k.value for k in c.keywords}
            cfg = _model_config(ctx.repo)
            for flag, cfgkey in (("by_alias", "serialize_by_alias"), ("exclude_unset", None)):
                v = flags.get(flag)
                if not (v is not None and is_const(v, True)) and not (cfgkey and cfg.get(cfgkey) is True):
                    probs.append(f"model_dump lacks {flag}=True")
            for flag in ("exclude_none", "exclude_defaults", "exclude", "include"):
                if flag in flags and not is_const(flags[flag], False) and not is_const(flags[flag], None):
                    probs.append(f"model_dump passes {flag}= (explicit None / defaults set by the caller would be dropped)")
        ctx.check(not probs, key(fi, "model"), "; ".join(probs), fi.loc(), okmsg=f"{tag}: models dumped by_alias, exclude_unset")
        o = Interp(fi, mk("list")).run()
        lv = _res(o[0]) if len(o) == 1 else None
        good = len(o) == 1 and isinstance(lv, ast.ListComp) and norm(lv.generators[0].iter) == vp \
            and norm(lv.elt) == f"self._convert_value({norm(lv.generators[0].target)})" and not lv.generators[0].ifs
        ctx.check(good, key(fi, "list"), f"list values must be converted element-wise, got {[x.text() for x in o]}", fi.loc(), okmsg=f"{tag}: lists converted element-wise")
        o = Interp(fi, mk("other")).run()
        good = len(o) == 1 and o[0].kind == "return" and is_name(_res(o[0]), vp)
        ctx.check(good, key(fi, "leaf"), f"other values must pass through unchanged, got {[x.text() for x in o]}", fi.loc(), okmsg=f"{tag}: leaves unchanged")

        # _process_variables
        fi = _method(ci, "_process_variables")
        def at(scn):
            return lambda e: (scn if norm(e) == "variables" else None)
        o = Interp(fi, at(True)).run()
        good = len(o) == 1 and o[0].kind == "return" and norm(strip_pre(o[0].value)) == "self._get_files_from_variables(self._convert_dict_to_json_serializable(variables))"
        ctx.check(good, key(fi, "pipeline"), f"variables must go through _convert_dict_to_json_serializable then _get_files_from_variables; got {[x.text() for x in o]}", fi.loc(),
                  okmsg=f"{tag}: variables converted then scanned for uploads")
        o = Interp(fi, at(False)).run()
        good = len(o) == 1 and o[0].kind == "return" and norm(o[0].value) == "({}, {}, {})"
        ctx.check(good, key(fi, "empty"), f"no variables must yield three empty mappings; got {[x.text() for x in o]}", fi.loc(), okmsg=f"{tag}: empty variables -> empty payload")


def _model_config(repo) -> Dict[str, object]:
    ci = repo.cls(DEP + "base_model:BaseModel")
    e = ci.class_assigns().get("model_config")
    out: Dict[str, object] = {}
    if isinstance(e, ast.Call):
        for k in e.keywords:
            if k.arg and isinstance(k.value, ast.Constant):
                out[k.arg] = k.value.value
            elif k.arg:
                out[k.arg] = norm(k.value)
    elif isinstance(e, ast.Dict):
        for k, v in zip(e.keys, e.values):
            if isinstance(k, ast.Constant):
                out[k.value] = v.value if isinstance(v, ast.Constant) else norm(v)
    return out


# ===================================================================== C12
_GET_DATA_SCENARIOS = [
    # name, status class ('2xx' | '3xx' (also 1xx) | '4xx' (also 5xx)), json_raises, is_dict, has_data, has_errors, errors_truthy, expected
    ("non-2xx", "4xx", None, None, None, None, None, ("raise", "GraphQLClientHttpError")),
    ("non-2xx with error body", "4xx", False, True, True, True, True, ("raise", "GraphQLClientHttpError")),
    ("non-2xx, body not JSON", "4xx", True, None, None, None, None, ("raise", "GraphQLClientHttpError")),
    ("non-2xx, data only body", "4xx", False, True, True, False, False, ("raise", "GraphQLClientHttpError")),
    ("1xx/3xx status with a data body", "3xx", False, True, True, False, False, ("raise", "GraphQLClientHttpError")),
    ("1xx/3xx status, body not JSON", "3xx", True, None, None, None, None, ("raise", "GraphQLClientHttpError")),
    ("2xx, body not JSON", "2xx", True, None, None, None, None, ("raise", "GraphQLClientInvalidResponseError")),
    ("2xx, JSON not an object", "2xx", False, False, None, None, None, ("raise", "GraphQLClientInvalidResponseError")),
    ("2xx, object without data and errors", "2xx", False, True, False, False, False, ("raise", "GraphQLClientInvalidResponseError")),
    ("2xx, data only", "2xx", False, True, True, False, False, ("return", "data")),
    ("2xx, data and empty errors", "2xx", False, True, True, True, False, ("return", "data")),
    ("2xx, errors only", "2xx", False, True, False, True, True, ("raise", "GraphQLClientGraphQLMultiError")),
    ("2xx, data and errors", "2xx", False, True, True, True, True, ("raise", "GraphQLClientGraphQLMultiError")),
]


def _scn(name):
    for s_ in _GET_DATA_SCENARIOS:
        if s_[0] == name:
            return s_
    raise KeyError(name)


def _get_data_atom(resp: str, scn):
    _, status_ok, _jr, is_dict, has_data, has_errors, errors_truthy, _ = scn
    J = f"{resp}.json()"

    def atom(e):
        t = norm(strip_pre(e))
        if t == f"{resp}.is_success":
            return status_ok == "2xx"
        if t == f"{resp}.is_error":
            return status_ok == "4xx"  # httpx: 4xx and 5xx only - a 3xx/1xx response is neither success nor error
        if t in (f"{resp}.is_client_error", f"{resp}.is_server_error"):
            return None if status_ok == "4xx" else False
        if t in (f"{resp}.is_redirect", f"{resp}.is_informational", f"{resp}.has_redirect_location"):
            return None if status_ok == "3xx" else False
        if t == f"isinstance({J}, dict)":
            return is_dict
        if t == f"'data' in {J}":
            return has_data if is_dict else None
        if t == f"'errors' in {J}":
            return has_errors if is_dict else None
        if t in (f"{J}.get('errors')", f"{J}['errors']", f"{J}.get('errors', None)"):
            return errors_truthy
        if t in (f"{J}.get('errors') is None",):
            return None if has_errors is None else (not has_errors or None)
        # key-set forms of the shape test: keys().isdisjoint({...}) / set intersection
        ee = strip_pre(e)
        if isinstance(ee, ast.Call) and isinstance(ee.func, ast.Attribute) and ee.func.attr == "isdisjoint" and len(ee.args) == 1 and norm(ee.func.value) in (f"{J}.keys()", J) \
                and isinstance(ee.args[0], (ast.Set, ast.Tuple, ast.List)) and all(isinstance(x, ast.Constant) for x in ee.args[0].elts):
            keys = {x.value for x in ee.args[0].elts}
            if not is_dict or not keys <= {"data", "errors"} or has_data is None or has_errors is None:
                return None
            return not (("data" in keys and has_data) or ("errors" in keys and has_errors))
        return None
    return atom


@rule("C12.R1", "get_data classifies every response class into the documented outcome (decision table over the CFG)",
      min_instances=52)
def c12_r1(ctx):
    for tag, ci in client_classes(ctx.repo).items():
        fi = _method(ci, "get_data")
        resp = fi.node.args.args[1].arg
        J = f"{resp}.json()"
        for scn in _GET_DATA_SCENARIOS:
            name, status_ok, json_raises = scn[0], scn[1], scn[2]
            want = scn[-1]
            raises = (lambda c: "ValueError" if norm(c) == J and json_raises else None)
            catches = lambda handler, exc: handler == exc or (exc == "ValueError" and handler in ("ValueError", "Exception", "BaseException"))
            it = Interp(fi, _get_data_atom(resp, scn), raises=raises, catches=catches)
            outs = it.run()
            got = set()
            detail = []
            for o in outs:
                if o.kind == "raise":
                    got.add(("raise", o.exc))
                elif o.kind == "return":
                    v = norm(strip_pre(o.value)) if o.value is not None else "None"
                    got.add(("return", "data" if v in (f"{J}.get('data')", f"{J}['data']") else v))
                else:
                    got.add(("return", "None"))
                detail.append(o.text())
            k = key(fi, f"scenario: {name}")
            if got == {want}:
                ctx.ok(f"{tag}.get_data [{name}] -> {want[0]} {want[1]}", fi.loc())
            else:
                ctx.fail(k, f"response class '{name}' must end in {want[0]} {want[1]} but can end in {sorted(got)}"
                            + (f" (undecided tests: {it.unknown_tests})" if it.unknown_tests else ""), fi.loc(),
                         path=" | ".join(outs[0].trace) if outs else "")


@rule("C12.R2", "exceptions raised by get_data carry status/response/errors/data from the right sources", min_instances=12)
def c12_r2(ctx):
    for tag, ci in client_classes(ctx.repo).items():
        fi = _method(ci, "get_data")
        resp = fi.node.args.args[1].arg
        J = f"{resp}.json()"
        # collect raise expressions with aliases resolved (status not ok / decode fails / errors present)
        def collect(scn, json_raises=False):
            raises = (lambda c: "ValueError" if norm(c) == J and json_raises else None)
            catches = lambda handler, exc: handler in ("ValueError", "Exception", "BaseException", exc)
            return Interp(fi, _get_data_atom(resp, scn), raises=raises, catches=catches).run()
        o = collect(_scn('non-2xx'))
        good = len(o) == 1 and isinstance(o[0].value, ast.Call) and norm(kw(o[0].value, "status_code") or allargs(o[0].value)[0] if (o[0].value.args or kw(o[0].value, "status_code")) else ast.Constant(0)) == f"{resp}.status_code" \
            and norm((kw(o[0].value, "response") or (allargs(o[0].value)[1] if len(allargs(o[0].value)) > 1 else ast.Constant(0)))) == resp
        ctx.check(good, key(fi, "http-error-args"), f"HTTP error must carry status_code={resp}.status_code and response={resp}; got {[x.text() for x in o]}", fi.loc(),
                  okmsg=f"{tag}: HTTP error carries status and response")
        for scn, jr, label in ((_scn("2xx, body not JSON"), True, "decode"), (_scn("2xx, JSON not an object"), False, "shape")):
            o = collect(scn, jr)
            good = len(o) == 1 and isinstance(o[0].value, ast.Call) and norm(kw(o[0].value, "response") or (allargs(o[0].value)[0] if allargs(o[0].value) else ast.Constant(0))) == resp
            ctx.check(good, key(fi, f"invalid-response-args-{label}"), f"invalid-response error ({label}) must carry response={resp}; got {[x.text() for x in o]}", fi.loc(),
                      okmsg=f"{tag}: invalid-response error ({label}) carries the response")
        o = collect(_scn('2xx, data and errors'))
        good = False
        if len(o) == 1 and isinstance(o[0].value, ast.Call):
            c = o[0].value
            if dotted(c.func) == "GraphQLClientGraphQLMultiError.from_errors_dicts":
                e = kw(c, "errors_dicts") or (allargs(c)[0] if allargs(c) else None)
                d = kw(c, "data") or (allargs(c)[1] if len(allargs(c)) > 1 else None)
                good = e is not None and d is not None and norm(strip_pre(e)) in (f"{J}.get('errors')", f"{J}['errors']") and norm(strip_pre(d)) in (f"{J}.get('data')",)
        ctx.check(good, key(fi, "multi-error-args"), f"multi-error must be built from_errors_dicts(errors_dicts=<errors member>, data=<data member>); got {[x.text() for x in o]}", fi.loc(),
                  okmsg=f"{tag}: multi-error carries every error dict and partial data")
    # exceptions module: attribute mapping
    repo = ctx.repo
    ex = DEP + "exceptions"
    fd = repo.func(f"{ex}:GraphQLClientGraphQLError.from_dict")
    outs = Interp(fd, lambda e: None).run()
    p = fd.node.args.args[1].arg
    probs = []
    if len(outs) != 1 or not isinstance(outs[0].value, ast.Call) or not is_name(outs[0].value.func, "cls"):
        probs.append("from_dict does not return cls(...)")
    else:
        kws = {k.arg: norm(k.value) for k in outs[0].value.keywords}
        want = {"message": [f"{p}['message']"], "locations": [f"{p}.get('locations')"], "path": [f"{p}.get('path')"],
                "extensions": [f"{p}.get('extensions')"], "original": [p]}
        for a, accepted in want.items():
            if kws.get(a) not in accepted:
                probs.append(f"{a} is {kws.get(a)}, expected {accepted[0]}")
    ctx.check(not probs, key(fd, "mapping"), "; ".join(probs), fd.loc(), okmsg="GraphQLClientGraphQLError.from_dict maps message/locations/path/extensions/original")
    init = repo.func(f"{ex}:GraphQLClientGraphQLError.__init__")
    stored = {norm(s.targets[0]): norm(s.value) for s in init.node.body if isinstance(s, ast.Assign) and len(s.targets) == 1}
    probs = [f"self.{a} is set from {stored.get('self.' + a)}" for a in ("message", "locations", "path", "extensions", "original") if stored.get("self." + a) != a]
    ctx.check(not probs, key(init, "store"), "; ".join(probs), init.loc(), okmsg="GraphQLClientGraphQLError stores its five attributes")
    fe = repo.func(f"{ex}:GraphQLClientGraphQLMultiError.from_errors_dicts")
    outs = Interp(fe, lambda e: None).run()
    probs = []
    if len(outs) != 1 or not isinstance(outs[0].value, ast.Call):
        probs.append("from_errors_dicts does not return cls(...)")
    else:
        c = outs[0].value
        from ..util import comp_struct
        ev, dv = kw(c, "errors"), kw(c, "data")
        ev = strip_pre(outs[0].deref(ev)) if ev is not None else None  # a list built first and then passed is the same list
        ep = fe.node.args.args[1].arg
        if comp_struct(ev) not in ((f"GraphQLClientGraphQLError.from_dict($0)", [(ep, [])]), (f"GraphQLClientGraphQLError.from_dict(error=$0)", [(ep, [])])):
            probs.append(f"errors is {norm(ev)[:100] if ev is not None else None}; expected one GraphQLClientGraphQLError.from_dict(e) per element, unfiltered")
        if dv is None or norm(dv) != "data":
            probs.append("data is not passed through")
    ctx.check(not probs, key(fe, "mapping"), "; ".join(probs), fe.loc(), okmsg="from_errors_dicts converts every error dict and keeps data")
    mi = repo.func(f"{ex}:GraphQLClientGraphQLMultiError.__init__")
    stored = {norm(s.targets[0]): norm(s.value) for s in mi.node.body if isinstance(s, ast.Assign) and len(s.targets) == 1}
    probs = [f"self.{a} is set from {stored.get('self.' + a)}" for a in ("errors", "data") if stored.get("self." + a) != a]
    ctx.check(not probs, key(mi, "store"), "; ".join(probs), mi.loc(), okmsg="multi-error stores errors and data")
    hi = repo.func(f"{ex}:GraphQLClientHttpError.__init__")
    stored = {norm(s.targets[0]): norm(s.value) for s in hi.node.body if isinstance(s, ast.Assign) and len(s.targets) == 1}
    probs = [f"self.{a} is set from {stored.get('self.' + a)}" for a in ("status_code", "response") if stored.get("self." + a) != a]
    ctx.check(not probs, key(hi, "store"), "; ".join(probs), hi.loc(), okmsg="HTTP error stores status_code and response")
    # exception hierarchy: every client exception derives from GraphQLClientError
    m = repo.mod(ex)
    for cname in ("GraphQLClientHttpError", "GraphQLClientInvalidResponseError", "GraphQLClientGraphQLError",
                  "GraphQLClientGraphQLMultiError", "GraphQLClientInvalidMessageFormat"):
        c = repo.cls(f"{ex}:{cname}")
        names = [x.qualname for x in repo.mro(c)]
        ctx.check("GraphQLClientError" in names, f"{ex}::{cname}::bases", f"{cname} does not derive from GraphQLClientError", c.loc(), okmsg=f"{cname} derives from GraphQLClientError")


# ===================================================================== C13
def _ws_methods(repo):
    cl = client_classes(repo)
    out = []
    out.append(("async", cl["async"], _method(cl["async"], "execute_ws"), ""))
    out.append(("async_otel", cl["async_otel"], _method(cl["async_otel"], "_execute_ws"), ""))
    out.append(("async_otel+tracer", cl["async_otel"], _method(cl["async_otel"], "_execute_ws" + TELE), TELE))
    return out


@rule("C13.R1", "handshake order: connection_init < ack < subscribe < frame loop, one subscribe, nothing sent before the ack", min_instances=3)
def c13_r1(ctx):
    for tag, ci, fi, suf in _ws_methods(ctx.repo):
        g = cfg_of(fi)
        def nodes_calling(name):
            out = []
            for n in g.stmts():
                part = n.ast
                if n.kind == "loop":
                    part = n.ast.iter
                elif n.kind == "with":
                    part = ast.Module(body=[ast.Expr(i.context_expr) for i in n.ast.items], type_ignores=[])
                elif n.kind == "handler":
                    continue
                elif n.label == "def":
                    continue
                if calls_named(part, name):
                    out.append(n)
            return out
        init = nodes_calling(f"self._send_connection_init{suf}")
        ack = [n for n in nodes_calling(f"self._handle_ws_message{suf}")
               if any(kw(c, "expected_type") is not None and norm(kw(c, "expected_type")).endswith("CONNECTION_ACK") for c in calls_named(n.ast if n.kind != "loop" else n.ast.iter, f"self._handle_ws_message{suf}"))]
        sub = nodes_calling(f"self._send_subscribe{suf}")
        withs = [n for n in g.nodes if n.kind == "with" and calls_named(ast.Module(body=[ast.Expr(i.context_expr) for i in n.ast.items], type_ignores=[]), "ws_connect")]
        loops = [n for n in g.nodes if n.kind == "loop" and isinstance(n.ast, ast.AsyncFor)]
        probs = []
        if len(withs) != 1:
            probs.append(f"{len(withs)} ws_connect context(s)")
        if len(init) != 1:
            probs.append(f"{len(init)} connection_init send(s)")
        if len(ack) != 1:
            probs.append(f"{len(ack)} handler call(s) expecting CONNECTION_ACK")
        if len(sub) != 1:
            probs.append(f"{len(sub)} subscribe send(s) (exactly one is required)")
        if len(loops) != 1:
            probs.append(f"{len(loops)} frame loop(s)")
        if not probs:
            w, i, a, s, l = withs[0], init[0], ack[0], sub[0], loops[0]
            for x, y, what in ((w, i, "ws_connect < connection_init"), (i, a, "connection_init < ack wait"), (a, s, "ack wait < subscribe"), (s, l, "subscribe < frame loop")):
                if not g.dominates(x, y) or x.id == y.id:
                    probs.append(f"order violated: {what} (not a dominance relation)")
            # the ack handler call consumes websocket.recv()
            c = calls_named(a.ast, f"self._handle_ws_message{suf}")[0]
            first = kw(c, "message") or (allargs(c)[0] if allargs(c) else None)
            if first is None or "websocket.recv()" not in norm(first):
                probs.append("the ack wait does not consume websocket.recv()")
            # subscribe not in a loop
            if s.id in g.reach_after(s):
                probs.append("subscribe is sent inside a loop")
            if i.id in g.reach_after(i):
                probs.append("connection_init is sent inside a loop")
            # nothing else is sent between the connect and the ack
            between = g.reach([w], avoid={a.id}) - {w.id}
            for nid in between:
                n = g.nodes[nid]
                if n.ast is None or n.id == i.id or n.kind in ("handler",):
                    continue
                part = n.ast.iter if n.kind == "loop" else n.ast
                sends = [c2 for c2 in calls_named(part, "send") if dotted(c2.func) != "self._send_connection_init" + suf] + \
                        [c2 for c2 in calls_named(part, f"self._send_subscribe{suf}", "self._send_subscribe")]
                if sends and not g.dominates(a, n):
                    probs.append(f"a frame is sent before the ack is received: {norm(sends[0])[:80]}")
            # subscribe carries the caller's query / operation_name / variables
            sc = calls_named(s.ast, f"self._send_subscribe{suf}")[0]
            for p in ("query", "operation_name", "variables"):
                v = kw(sc, p)
                if v is None or not is_name(v, p):
                    probs.append(f"subscribe is not given {p}={p}")
        ctx.check(not probs, key(fi, "handshake"), "; ".join(probs), fi.loc(), okmsg=f"{tag}: init < ack < subscribe < loop")


def _connect_kwargs_oracle() -> Tuple[set, str]:
    """keyword names accepted by websockets' connect() in the installed version:
    named parameters of connect.__init__ plus, where it forwards **kwargs to
    loop.create_connection, that function's named parameters"""
    path, src = site_packages_source("websockets", "asyncio", "client.py")
    tree = ast.parse(src)
    names: set = set()
    has_kwargs = False
    found = False
    for n in ast.walk(tree):
        if isinstance(n, ast.ClassDef) and n.name == "connect":
            for m in n.body:
                if isinstance(m, ast.FunctionDef) and m.name == "__init__":
                    found = True
                    a = m.args
                    names |= {x.arg for x in a.args + a.kwonlyargs} - {"self"}
                    has_kwargs = a.kwarg is not None
    if not found:
        raise AnalysisError(f"oracle: class connect.__init__ not found in {path}")
    if has_kwargs:
        p2, s2 = stdlib_source("asyncio.base_events")
        t2 = ast.parse(s2)
        ok = False
        for n in ast.walk(t2):
            if isinstance(n, ast.AsyncFunctionDef) and n.name == "create_connection":
                a = n.args
                names |= {x.arg for x in a.args + a.kwonlyargs} - {"self", "protocol_factory", "host", "port"}
                ok = True
        if not ok:
            raise AnalysisError("oracle: asyncio.base_events.create_connection not found")
    return names, path


@rule("C13.R2", "ws_connect keyword arguments exist in the installed websockets library; graphql-transport-ws subprotocol", min_instances=3)
def c13_r2(ctx):
    accepted, path = _connect_kwargs_oracle()
    ver = pkg_version("websockets")
    ctx.note(f"oracle: websockets {ver} connect() accepts {len(accepted)} named keywords ({path})")
    for tag, ci, fi, suf in _ws_methods(ctx.repo):
        outs = Interp(fi, lambda e: None).run()
        conns = calls_named(fi.node, "ws_connect")
        if len(conns) != 1:
            ctx.fail(key(fi, "ws_connect"), f"{len(conns)} ws_connect calls", fi.loc())
            continue
        c = conns[0]
        written: Dict[str, ast.AST] = {}
        for k in c.keywords:
            if k.arg:
                written[k.arg] = k.value
        env = outs[0].env if outs else {}
        for k in c.keywords:
            if k.arg is None and isinstance(k.value, ast.Name):
                base = env.get(k.value.id)
                base = strip_pre(base) if base is not None else None
                if isinstance(base, ast.Dict):
                    for kk in base.keys:
                        if isinstance(kk, ast.Constant):
                            written[kk.value] = base
                for m in (outs[0].muts(k.value.id) if outs else []):
                    if isinstance(m, ast.Call) and is_name(m.func, "<setitem>") and isinstance(allargs(m)[1], ast.Constant):
                        written[allargs(m)[1].value] = m
        for name in sorted(written):
            k_ = key(fi, f"ws_connect keyword {name}")
            if name in accepted:
                ctx.ok(f"{tag}: ws_connect keyword {name} accepted by websockets {ver}", fi.loc(c))
            else:
                ctx.fail(k_, f"keyword '{name}' is passed to websockets.connect but websockets {ver} does not accept it "
                             f"(connect.__init__/create_connection parameters: {sorted(accepted)[:12]}...)", fi.loc(c))
        sp = written.get("subprotocols")
        sp_ok = sp is not None and isinstance(sp, ast.List) and len(sp.elts) == 1 and isinstance(sp.elts[0], ast.Call) \
            and is_name(sp.elts[0].func, "Subprotocol") and len(allargs(sp.elts[0])) == 1
        val = None
        if sp_ok:
            a0 = allargs(sp.elts[0])[0]
            if isinstance(a0, ast.Constant):
                val = a0.value
            elif isinstance(a0, ast.Name):
                try:
                    val = ctx.repo.const_of(fi.module, a0.id)
                except Exception:
                    val = None
        ctx.check(val == "graphql-transport-ws", key(fi, "subprotocol"), f"subprotocols must be [Subprotocol('graphql-transport-ws')], got {norm(sp) if sp is not None else None} (= {val!r})", fi.loc(c),
                  okmsg=f"{tag}: subprotocol graphql-transport-ws")
        # url, headers and origin provenance
        url_ok = allargs(c) and norm(allargs(c)[0]) == "self.ws_url"
        ctx.check(bool(url_ok), key(fi, "ws_url"), "socket is not opened on self.ws_url", fi.loc(c), okmsg=f"{tag}: connects to self.ws_url")
        hdr = None
        for name, node in written.items():
            if isinstance(node, ast.Call) and is_name(node.func, "<setitem>") and name in ("extra_headers", "additional_headers"):
                hdr = node.args[2]
        hv = strip_pre(outs[0].deref(hdr)) if hdr is not None and outs else None
        ctx.check(hv is not None and norm(hv) == "self.ws_headers.copy()", key(fi, "ws_headers"),
                  f"handshake headers are {norm(hv) if hv is not None else None}, expected a copy of self.ws_headers", fi.loc(c), okmsg=f"{tag}: configured ws_headers sent")
        org = written.get("origin")
        oo = None
        if isinstance(org, ast.Dict):
            oo = dict_items(org).get("origin")
        ctx.check(oo is not None and norm(oo) == "self.ws_origin", key(fi, "ws_origin"), "origin is not self.ws_origin", fi.loc(c), okmsg=f"{tag}: configured origin sent")


_MT = "GraphQLTransportWSMessageType"


def _ws_enum(repo, ci: ClassInfo) -> Dict[str, str]:
    en = repo.cls(f"{ci.module.short}:{_MT}")
    out = {}
    for k, v in en.class_assigns().items():
        if isinstance(v, ast.Constant):
            out[k] = v.value
    if len(out) < 6:
        raise AnalysisError("message type enum has fewer members than expected")
    return out


def _handler_atom(msg_type: Optional[str], members: Dict[str, str], expected: Optional[str], has_data: Optional[bool], decoded="json.loads(message)"):
    """scenario: decoded frame has type `msg_type` (a member name, 'UNKNOWN', or None=missing)"""
    T = [f"{decoded}.get('type')", f"{decoded}['type']"]

    def atom(e):
        from ..util import comp_struct
        ee = strip_pre(e)
        t = norm(ee)
        if t in T:
            return bool(msg_type)
        # membership in the set / list of all enum values, whatever the comprehension variable is called
        if isinstance(ee, ast.Compare) and len(ee.ops) == 1 and isinstance(ee.ops[0], ast.In) and norm(ee.left) in T \
                and comp_struct(ee.comparators[0]) == ("$0.value", [(_MT, [])]):
            return msg_type in members
        for tt in T:
            if t == f"{tt} in {{t.value for t in {_MT}}}" or t == f"{tt} in [t.value for t in {_MT}]":
                return msg_type in members
            for mname in members:
                if t in (f"{tt} == {_MT}.{mname}", f"{_MT}.{mname} == {tt}", f"{tt} == {_MT}.{mname}.value", f"{tt} is {_MT}.{mname}"):
                    return msg_type == mname
            if t in (f"expected_type != {tt}", f"{tt} != expected_type"):
                return None if expected is None else (expected != msg_type)
            if t in (f"expected_type == {tt}", f"{tt} == expected_type"):
                return None if expected is None else (expected == msg_type)
        if t == "expected_type":
            return expected is not None
        if t in (f"'data' in {decoded}.get('payload', {{}})", f"'data' in {decoded}['payload']"):
            return has_data
        return None
    return atom


@rule("C13.R3", "frame dispatch is exhaustive over the message-type enum with the protocol's effect per type", min_instances=36)
def c13_r3(ctx):
    cl = client_classes(ctx.repo)
    targets = [("async", cl["async"], "_handle_ws_message"), ("async_otel", cl["async_otel"], "_handle_ws_message"),
               ("async_otel+tracer", cl["async_otel"], "_handle_ws_message" + TELE)]
    for tag, ci, mname in targets:
        fi = _method(ci, mname)
        members = _ws_enum(ctx.repo, ci)
        need = {"CONNECTION_INIT", "CONNECTION_ACK", "PING", "PONG", "SUBSCRIBE", "NEXT", "ERROR", "COMPLETE"}
        ctx.check(need <= set(members), key(fi, "enum"), f"message type enum lacks {sorted(need - set(members))}", fi.loc(), okmsg=f"{tag}: enum has the 8 protocol message types")
        values_ok = all(members.get(k) == k.lower() for k in need)
        ctx.check(values_ok, key(fi, "enum-values"), f"enum values differ from the protocol's type strings: {members}", fi.loc(), okmsg=f"{tag}: enum values are the protocol strings")
        eff = lambda c: dotted(c.func) in ("websocket.send", "websocket.close", "websocket.recv", "websocket.ping", "websocket.pong")
        D = "json.loads(message)"
        P = f"{D}.get('payload', {{}})"

        def run(msg_type, expected=None, has_data=None, non_json=False):
            raises = (lambda c: "ValueError" if non_json and norm(c) == D else None)
            catches = lambda h, e: h == e or (e == "ValueError" and h in ("ValueError", "Exception", "BaseException"))
            it = Interp(fi, _handler_atom(msg_type, members, expected, has_data, D), raises=raises, catches=catches, is_effect=eff)
            return it.run(), it

        def expect(name, outs_it, pred, want):
            outs, it = outs_it
            bad = [o.text() for o in outs if not pred(o)]
            if bad or not outs:
                ctx.fail(key(fi, f"frame: {name}"), f"frame '{name}' must {want}; possible outcomes: {[o.text() for o in outs]}"
                         + (f" (undecided tests: {it.unknown_tests})" if it.unknown_tests else ""), fi.loc())
            else:
                ctx.ok(f"{tag}: frame {name} -> {want}", fi.loc())

        inv = lambda o: o.kind == "raise" and o.exc == "GraphQLClientInvalidMessageFormat" and not o.effects
        expect("non-JSON", run(None, non_json=True), inv, "raise the invalid-message error")
        expect("missing type", run(None), inv, "raise the invalid-message error")
        expect("unknown type", run("UNKNOWN"), inv, "raise the invalid-message error")
        for m in ("NEXT", "PING", "PONG", "COMPLETE", "ERROR", "CONNECTION_INIT", "SUBSCRIBE"):
            expect(f"{m} while expecting the ack", run(m, expected="CONNECTION_ACK", has_data=True), inv, "raise the invalid-message error")
        none_ret = lambda o: (o.kind == "fallthrough" or (o.kind == "return" and (o.value is None or is_const(o.value, None))))
        expect("connection_ack (expected)", run("CONNECTION_ACK", expected="CONNECTION_ACK"), lambda o: none_ret(o) and not o.effects, "return nothing and send nothing")
        expect("next with data", run("NEXT", has_data=True), lambda o: o.kind == "return" and o.value is not None and norm(strip_pre(o.value)) == f"{P}['data']" and not o.effects,
               "return payload['data']")
        expect("next without data", run("NEXT", has_data=False), inv, "raise the invalid-message error")
        pong = f"websocket.send(json.dumps({{'type': {_MT}.PONG.value}}))"
        expect("ping", run("PING"), lambda o: none_ret(o) and [norm(e) for e in o.effects] == [pong], "send exactly one pong and return nothing")
        expect("pong", run("PONG"), lambda o: none_ret(o) and not o.effects, "be ignored")
        expect("complete", run("COMPLETE"), lambda o: none_ret(o) and [norm(e) for e in o.effects] == ["websocket.close()"], "close the socket (ends the iteration)")
        def is_multi(o):
            if not (o.kind == "raise" and o.exc == "GraphQLClientGraphQLMultiError" and not o.effects and isinstance(o.value, ast.Call)):
                return False
            e = kw(o.value, "errors_dicts") or (allargs(o.value)[0] if allargs(o.value) else None)
            return e is not None and norm(strip_pre(e)) == P
        expect("error", run("ERROR"), is_multi, "raise the GraphQL multi-error built from the frame's payload")
        for m in ("CONNECTION_INIT", "SUBSCRIBE", "CONNECTION_ACK"):
            expect(f"{m} (client-to-server or repeated, after the handshake)", run(m), lambda o: none_ret(o) and not o.effects, "be ignored without side effects")


@rule("C13.R4", "the frame loop yields exactly the handler's result for each frame, in order", min_instances=3)
def c13_r4(ctx):
    for tag, ci, fi, suf in _ws_methods(ctx.repo):
        loops = [n for n in walk_no_nested(fi.node) if isinstance(n, ast.AsyncFor)]
        probs = []
        if len(loops) != 1:
            probs.append(f"{len(loops)} async-for loops")
        else:
            lp = loops[0]
            if norm(lp.iter) != "websocket" or not isinstance(lp.target, ast.Name):
                probs.append(f"loop iterates {norm(lp.iter)}, expected the websocket itself (frames in arrival order)")
            else:
                mv = lp.target.id
                # abstractly run the loop body
                fake = ast.FunctionDef(name="body", args=ast.arguments(posonlyargs=[], args=[], kwonlyargs=[], kw_defaults=[], defaults=[]), body=lp.body, decorator_list=[], lineno=lp.lineno)
                fake_fi = FuncInfo(fi.module, fi.qualname + ".<loop>", fake, fi.cls)
                hcall = f"self._handle_ws_message{suf}"
                for truth in (True, False):
                    def atom(e, truth=truth):
                        t = norm(strip_pre(e))
                        if t.startswith(hcall + "("):
                            return truth
                        if t.startswith(hcall + "(") is False and t.endswith("is not None") and t.startswith(hcall):
                            return truth
                        return None
                    eff = lambda c: dotted(c.func).startswith("websocket.") or (dotted(c.func).startswith("self._send"))
                    outs = Interp(fake_fi, atom, is_effect=eff).run()
                    for o in outs:
                        ys = [norm(strip_pre(y)) for y in o.yields]
                        calls = [c for y in o.yields for c in ast.walk(strip_pre(y)) if isinstance(c, ast.Call)]
                        if truth:
                            good = len(ys) == 1 and len(calls) == 1 and dotted(calls[0].func) == hcall and ys[0].startswith(hcall + "(")
                            if good:
                                c = calls[0]
                                m = kw(c, "message") or (allargs(c)[0] if allargs(c) else None)
                                w = kw(c, "websocket") or (allargs(c)[1] if len(allargs(c)) > 1 else None)
                                good = m is not None and is_name(m, mv) and w is not None and is_name(w, "websocket") and kw(c, "expected_type") is None and len(c.args) <= 2 and {k.arg for k in c.keywords} <= {"message", "websocket", "root_span"}
                            if not good:
                                probs.append(f"a frame with data must be yielded exactly once as the handler's result; yields {ys}")
                        else:
                            if ys:
                                probs.append(f"something is yielded although the handler returned nothing: {ys}")
                        if o.kind != "fallthrough":
                            probs.append(f"loop body ends with {o.text()}")
                        if o.effects:
                            probs.append(f"loop body performs extra protocol I/O: {[norm(e) for e in o.effects]}")
        ctx.check(not probs, key(fi, "frame-loop"), "; ".join(sorted(set(probs))), fi.loc(), okmsg=f"{tag}: loop yields handler results only")


@rule("C13.R5", "connection_init and subscribe payloads", min_instances=4, also=["C02", "C03"])
def c13_r5(ctx):
    cl = client_classes(ctx.repo)
    for tag in ("async", "async_otel"):
        ci = cl[tag]
        fi = _method(ci, "_send_connection_init")
        for configured in (True, False):
            atom = lambda e, c=configured: c if norm(e) == "self.ws_connection_init_payload" else None
            eff = lambda c: dotted(c.func) == "websocket.send"
            outs = Interp(fi, atom, is_effect=eff).run()
            probs = []
            if len(outs) != 1 or len(outs[0].effects) != 1:
                probs.append(f"expected exactly one send, got {[o.text() for o in outs]}")
            else:
                o = outs[0]
                send = o.effects[0]
                arg = allargs(send)[0] if allargs(send) else None
                inner = _json_dumps_arg(arg) if arg is not None else None
                pname = inner.id if isinstance(inner, ast.Name) else None
                inner_s = strip_pre(o.deref(inner)) if inner is not None else None
                if not isinstance(inner_s, ast.Dict):
                    probs.append("payload is not a JSON-dumped dict literal")
                else:
                    items = dict_items(inner_s)
                    muts = o.muts(pname) if pname else []
                    for m in muts:
                        if isinstance(m, ast.Call) and is_name(m.func, "<setitem>") and isinstance(allargs(m)[1], ast.Constant):
                            items[allargs(m)[1].value] = allargs(m)[2]
                    if norm(items.get("type", ast.Constant(0))) != f"{_MT}.CONNECTION_INIT.value":
                        probs.append(f"type is {norm(items.get('type')) if 'type' in items else None}")
                    if configured and norm(items.get("payload", ast.Constant(0))) != "self.ws_connection_init_payload":
                        probs.append("configured connection_init payload is not sent")
                    if not configured and "payload" in items:
                        probs.append("a payload is sent although none is configured")
                    extra = set(items) - {"type", "payload"}
                    if extra:
                        probs.append(f"unexpected keys {sorted(map(str, extra))}")
            ctx.check(not probs, key(fi, f"payload configured={configured}"), "; ".join(probs), fi.loc(), okmsg=f"{tag}: connection_init payload (configured={configured})")
        fi = _method(ci, "_send_subscribe")
        for has_vars in (True, False):
            atom = lambda e, c=has_vars: c if norm(e) == "variables" else None
            eff = lambda c: dotted(c.func) == "websocket.send"
            outs = Interp(fi, atom, is_effect=eff).run()
            probs = []
            if len(outs) != 1 or len(outs[0].effects) != 1:
                probs.append(f"expected exactly one send, got {[o.text() for o in outs]}")
            else:
                o = outs[0]
                inner = _json_dumps_arg(allargs(o.effects[0])[0]) if allargs(o.effects[0]) else None
                pname = inner.id if isinstance(inner, ast.Name) else None
                inner_s = strip_pre(o.deref(inner)) if inner is not None else None
                if not isinstance(inner_s, ast.Dict):
                    probs.append("payload is not a JSON-dumped dict literal")
                else:
                    items = dict_items(inner_s)
                    if norm(items.get("id", ast.Constant(0))) != "operation_id":
                        probs.append("id is not the operation id")
                    if norm(items.get("type", ast.Constant(0))) != f"{_MT}.SUBSCRIBE.value":
                        probs.append("type is not subscribe")
                    pl = items.get("payload")
                    plname = strip_pre(pl).id if pl is not None and isinstance(strip_pre(pl), ast.Name) else None
                    if plname is not None:      # the inner dict was built under a local name of its own
                        pl = strip_pre(o.deref(strip_pre(pl)))
                    if not isinstance(pl, ast.Dict):
                        probs.append("payload.payload is not a dict literal")
                    else:
                        pit = dict_items(pl)
                        for m in (o.muts(pname) if pname else []):
                            if isinstance(m, ast.Call) and is_name(m.func, "<setitem>") and norm(allargs(m)[0]) == f"{pname}['payload']" and isinstance(allargs(m)[1], ast.Constant):
                                pit[allargs(m)[1].value] = allargs(m)[2]
                        for m in (o.muts(plname) if plname else []):
                            if isinstance(m, ast.Call) and is_name(m.func, "<setitem>") and norm(allargs(m)[0]) == plname and isinstance(allargs(m)[1], ast.Constant):
                                pit[allargs(m)[1].value] = allargs(m)[2]
                            else:
                                probs.append(f"the payload dict is modified by {norm(m)[:80]}")
                        if norm(pit.get("query", ast.Constant(0))) != "query":
                            probs.append("payload.query is not the query")
                        if norm(pit.get("operationName", ast.Constant(0))) != "operation_name":
                            probs.append("payload.operationName is not the operation name")
                        if has_vars and norm(pit.get("variables", ast.Constant(0))) != "self._convert_dict_to_json_serializable(variables)":
                            probs.append(f"payload.variables is {norm(pit['variables']) if 'variables' in pit else None}, expected the converted variables")
                        if not has_vars and "variables" in pit and norm(pit["variables"]) not in ("{}", "None", "variables"):
                            probs.append("variables sent although none were given")
                        extra = set(pit) - {"query", "operationName", "variables"}
                        if extra:
                            probs.append(f"unexpected payload keys {sorted(map(str, extra))}")
                    extra = set(items) - {"id", "type", "payload"}
                    if extra:
                        probs.append(f"unexpected keys {sorted(map(str, extra))}")
            ctx.check(not probs, key(fi, f"subscribe variables={has_vars}"), "; ".join(probs), fi.loc(), okmsg=f"{tag}: subscribe payload (variables={has_vars})")
    # operation id: one uuid4 per call
    for tag, ci, fi, suf in _ws_methods(ctx.repo):
        ids = calls_named(fi.node, "uuid4")
        g = cfg_of(fi)
        ok = len(ids) == 1
        if ok:
            n = g.node_of(ids[0])
            ok = n is not None and n.id not in g.reach_after(n)
        ctx.check(ok, key(fi, "operation-id"), "operation id must come from exactly one uuid4() per subscription", fi.loc(), okmsg=f"{tag}: one fresh operation id per call")
