"""rules about the runtime pieces that are copied verbatim into every generated package:
the shipped BaseModel (its pydantic configuration and its public surface), Upload, the exception classes"""
from __future__ import annotations

import ast
from typing import Dict, List

from ..model import AnalysisError, dotted, norm, walk_no_nested
from ..report import rule
from ..util import allargs, key, site_packages_source
from .clients import _model_config

DEP = "client_generators.dependencies."

# pydantic configuration of the base class of *every* generated model.  Each key is an instance confirmed by
# reading; a key that is not listed changes how every generated model validates or serialises.
MODEL_CONFIG = {
    "populate_by_name": (True, "inputs are built by Python field name as well as by GraphQL name (alias)"),
    "validate_assignment": (True, "assignment to a field of an input model is validated like construction"),
    "arbitrary_types_allowed": (True, "custom scalars configured with a plain Python class (README: fully custom type) and Upload have no pydantic schema; "
                                      "without the flag the package fails to import (PydanticSchemaGenerationError)"),
    "protected_namespaces": ("()", "GraphQL fields called model_* must not trip pydantic's namespace protection"),
}
# why some tempting additions break a property (used in the message only)
KNOWN_BAD = {
    "extra": "extra='forbid' makes a fragment class reject the payload its own subclass accepts (the payload of a selection holds the keys of everything selected next to the spread); "
             "extra='allow' changes what serialising back reproduces",
    "str_strip_whitespace": "string values of a response are altered (leading / trailing blanks are data): the validated object no longer exposes an equal value",
    "str_to_lower": "string values of a response are altered", "str_to_upper": "string values of a response are altered",
    "strict": "in strict mode a Python-mode validation refuses enum members given by value and custom types given as JSON scalars: conformant responses are rejected",
    "frozen": "input models can no longer be filled in after construction", "use_enum_values": "enum fields read back as plain strings instead of the member of the same name",
    "coerce_numbers_to_str": "a number where the schema says String is accepted", "from_attributes": "arbitrary objects are accepted where a JSON object is required",
    "alias_generator": "wire names would no longer be the GraphQL names", "ser_json_inf_nan": "", "validate_default": "",
}


@rule("C01.R10", "the pydantic configuration shared by every generated model is exactly the confirmed table", min_instances=5,
      also=["C03", "C04", "C05", "C06", "C07", "C08", "C11", "C15"])
def c01_r10(ctx):
    repo = ctx.repo
    ci = repo.cls(DEP + "base_model:BaseModel")
    raw = ci.class_assigns().get("model_config")
    if raw is None:
        raise AnalysisError("BaseModel.model_config not found")
    form_ok = (isinstance(raw, ast.Call) and dotted(raw.func) == "ConfigDict" and not raw.args and all(k.arg for k in raw.keywords)) or \
        (isinstance(raw, ast.Dict) and all(isinstance(k, ast.Constant) for k in raw.keys))
    ctx.check(form_ok, key_(ci, "model_config form"), f"model_config is `{norm(raw)[:120]}`: its keys cannot be read statically (** or positional arguments)", ci.loc(raw), okmsg="model_config is a literal ConfigDict")
    cfg = _model_config(repo)
    for k, (want, why) in MODEL_CONFIG.items():
        got = cfg.get(k, "<absent>")
        ctx.check(got == want, key_(ci, f"model_config {k}"), f"model_config[{k}] is {got!r}, confirmed value {want!r}: {why}", ci.loc(raw), okmsg=f"{k}={want!r}")
    for k in sorted(set(cfg) - set(MODEL_CONFIG)):
        ctx.fail(key_(ci, f"model_config +{k}"), f"model_config gained `{k}={cfg[k]!r}`, which applies to every generated result and input model" + (f": {KNOWN_BAD[k]}" if KNOWN_BAD.get(k) else ""), ci.loc(raw))
    # nothing else on the class alters validation: no validators / serializers / hooks defined on the shared base
    extra = []
    for st in ci.node.body:
        if isinstance(st, (ast.FunctionDef, ast.AsyncFunctionDef)):
            decos = {dotted(d.func) if isinstance(d, ast.Call) else dotted(d) for d in st.decorator_list}
            if decos & {"model_validator", "field_validator", "model_serializer", "field_serializer", "validator", "root_validator"} \
                    or st.name in ("model_post_init", "__init__", "__get_pydantic_core_schema__", "__setattr__", "__getattr__", "__getattribute__", "__eq__", "__hash__",
                                   "model_dump", "model_dump_json", "model_validate", "model_validate_json", "model_construct", "dict", "json", "copy", "model_copy"):
                extra.append(st.name)
    ctx.check(not extra, key_(ci, "hooks"), f"the shared BaseModel defines {extra}: validation / serialisation of every generated model goes through user-level code that the generated annotations do not describe",
              ci.loc(), okmsg="no validators, serializers or pydantic overrides on the shared base")
    bases = [dotted(b) for b in ci.node.bases]
    src = ci.module.imports.get(bases[0]) if len(bases) == 1 else None
    ctx.check(src == ("pydantic", "BaseModel"), key_(ci, "base"), f"BaseModel derives from {bases} ({src})", ci.loc(), okmsg="derives from pydantic.BaseModel only")


def key_(ci, construct: str) -> str:
    return f"{ci.module.short}::{ci.qualname}::{construct}"


@rule("C18.R7", "the shipped BaseModel adds no public attribute that a GraphQL field name could shadow (escapes are computed from pydantic's BaseModel)", min_instances=2,
      also=["C01", "C04", "C06"])
def c18_r7(ctx):
    repo = ctx.repo
    ci = repo.cls(DEP + "base_model:BaseModel")
    m = repo.mod("utils")
    rv = m.assigns.get("PYDANTIC_RESERVED_FIELD_NAMES", [None])[0]
    if rv is None:
        raise AnalysisError("utils.PYDANTIC_RESERVED_FIELD_NAMES not found")
    comp = rv
    while isinstance(comp, ast.Call) and dotted(comp.func) in ("frozenset", "set", "tuple", "list", "sorted") and len(allargs(comp)) == 1 and not comp.keywords:
        comp = allargs(comp)[0]
    good = isinstance(comp, (ast.ListComp, ast.SetComp, ast.GeneratorExp)) and len(comp.generators) == 1 and norm(comp.generators[0].iter) == "dir(BaseModel)" \
        and norm(comp.elt) == norm(comp.generators[0].target) and [norm(i) for i in comp.generators[0].ifs] == [f"not {norm(comp.generators[0].target)}.startswith('_')"] \
        and m.imports.get("BaseModel") == ("pydantic", "BaseModel")
    ctx.check(good, "utils::PYDANTIC_RESERVED_FIELD_NAMES::source", f"reserved names are `{norm(rv)[:160]}`: not every public attribute of pydantic.BaseModel (methods, properties such as model_fields_set / model_extra, "
              "and class attributes such as model_config / model_fields alike) is escaped, so a GraphQL field of that name replaces the attribute in the generated model", m.relpath,
              okmsg="reserved names = all public names in dir(pydantic.BaseModel)")
    public: List[str] = []
    for st in ci.node.body:
        if isinstance(st, (ast.FunctionDef, ast.AsyncFunctionDef, ast.ClassDef)):
            names = [st.name]
        elif isinstance(st, ast.Assign):
            names = [t.id for t in st.targets if isinstance(t, ast.Name)]
        elif isinstance(st, ast.AnnAssign) and isinstance(st.target, ast.Name):
            names = [st.target.id]
        else:
            names = []
        public += [n for n in names if not n.startswith("_")]
    # attributes of pydantic.BaseModel itself are covered by dir(BaseModel); anything new on the shipped subclass is not
    path, psrc = site_packages_source("pydantic", "main.py")
    ptree = ast.parse(psrc)
    pyd = set()
    for n in ptree.body:
        if isinstance(n, ast.ClassDef) and n.name == "BaseModel":
            for st in n.body:
                if isinstance(st, (ast.FunctionDef, ast.AsyncFunctionDef)):
                    pyd.add(st.name)
                elif isinstance(st, ast.AnnAssign) and isinstance(st.target, ast.Name):
                    pyd.add(st.target.id)
                elif isinstance(st, ast.Assign):
                    pyd |= {t.id for t in st.targets if isinstance(t, ast.Name)}
    if "model_config" not in pyd or "model_dump" not in pyd:
        raise AnalysisError(f"oracle: pydantic.BaseModel members not found in {path}")
    new = sorted(set(public) - pyd)
    ctx.check(not new, key_(ci, "public surface"), f"the shipped BaseModel defines public attribute(s) {new} that pydantic.BaseModel does not have: a GraphQL field of that (snake-cased) name is not escaped by "
              "process_name, so the generated class shadows the attribute (pydantic: NameError 'shadows an attribute in parent') or the helper is replaced by data", ci.loc(),
              okmsg=f"public members of the shipped BaseModel {sorted(set(public))} all exist on pydantic.BaseModel ({len(pyd)} members read from {path.split('site-packages/')[-1]})")


@rule("C11.R8", "distinct Upload objects are told apart by identity (the dedupe in the clients compares with ==)", min_instances=5, also=["C03"])
def c11_r8(ctx):
    repo = ctx.repo
    ci = repo.cls(DEP + "base_model:Upload")
    bad = [st.name for st in ci.node.body if isinstance(st, (ast.FunctionDef, ast.AsyncFunctionDef)) and st.name in ("__eq__", "__hash__", "__ne__", "__bool__", "__len__", "__iter__", "__getattr__", "__getattribute__")]
    ctx.check(not bad, key_(ci, "identity"), f"Upload defines {bad}: the clients register a file with `obj in files_list` / `files_list.index(obj)`, which compare with ==; two different files that compare equal "
              "are sent as one part and both variable paths point at the first file's content", ci.loc(), okmsg="Upload compares by identity")
    ctx.check(not ci.node.decorator_list and not ci.node.bases and not ci.node.keywords, key_(ci, "plain class"),
              f"Upload is declared with decorators {[norm(d) for d in ci.node.decorator_list]} / bases {[norm(b) for b in ci.node.bases]}: a dataclass / tuple base gives it value equality (and a dataclass with eq is unhashable)",
              ci.loc(), okmsg="Upload is a plain class (no dataclass / tuple base)")
    init = ci.methods.get("__init__")
    if init is None:
        raise AnalysisError("Upload.__init__ not found")
    params = [a.arg for a in init.node.args.args[1:]]
    stores = {}
    other = []
    for st in init.node.body:
        if isinstance(st, ast.Assign) and len(st.targets) == 1 and isinstance(st.targets[0], ast.Attribute) and dotted(st.targets[0].value) == "self":
            stores[st.targets[0].attr] = norm(st.value)
        elif isinstance(st, ast.AnnAssign) and isinstance(st.target, ast.Attribute) and dotted(st.target.value) == "self" and st.value is not None:
            stores[st.target.attr] = norm(st.value)
        else:
            other.append(norm(st)[:60])
    want = {"filename": "filename", "content": "content", "content_type": "content_type"}
    ctx.check(stores == want and not other and params == ["filename", "content", "content_type"], key_(ci, "__init__"),
              f"Upload.__init__ stores {stores} (other statements {other}): the multipart part must carry exactly the caller's file name, stream and content type", init.loc(),
              okmsg="Upload stores filename / content / content_type unchanged")
    # the consumers: every client reads exactly these attributes into the part tuple and dedupes with in / index
    n = 0
    for mod in ("base_client", "async_base_client", "base_client_open_telemetry", "async_base_client_open_telemetry"):
        for fi in repo.mod(DEP + mod).functions.values():
            if not fi.qualname.endswith("._get_files_from_variables"):
                continue
            n += 1
            src = norm(fi.node)
            uses_set = any(isinstance(x, (ast.Set, ast.SetComp)) or (isinstance(x, ast.Call) and dotted(x.func) in ("set", "dict.fromkeys", "id", "hash")) for x in ast.walk(fi.node))
            ctx.check(".filename, " in src and ".content_type)" in src and not uses_set, key(fi, "part tuple"),
                      "the multipart part is not (filename, content, content_type) of the registered Upload, or files are keyed by hash / id", fi.loc(),
                      okmsg=f"{fi.qualname}: part = (filename, content, content_type), registry is a list")
    if n < 2:
        raise AnalysisError("upload extraction functions not found in the bundled clients")


# exception classes: constructing one must not fail, whatever it is given ----------------------------------------------
_PURE_CALLS = {"super().__init__", "str", "repr", "list", "dict", "tuple", "len", "isinstance", "getattr", "type"}


@rule("C12.R3", "constructing or printing a client exception never raises: constructors only store their arguments", min_instances=5, also=["C13", "C11"])
def c12_r3(ctx):
    repo = ctx.repo
    m = repo.mod(DEP + "exceptions")
    n = 0
    for ci in m.classes.values():
        init = ci.methods.get("__init__")
        if init is None:
            continue
        n += 1
        params = {a.arg for a in init.node.args.args[1:] + init.node.args.kwonlyargs}
        bad = []
        for st in init.node.body:
            if isinstance(st, ast.Expr) and isinstance(st.value, ast.Call) and norm(st.value.func) == "super().__init__":
                vals = list(st.value.args) + [k.value for k in st.value.keywords]
            elif isinstance(st, ast.Assign) and all(isinstance(t, ast.Attribute) and dotted(t.value) == "self" for t in st.targets):
                vals = [st.value]
            elif isinstance(st, ast.AnnAssign) and isinstance(st.target, ast.Attribute) and st.value is not None:
                vals = [st.value]
            else:
                bad.append(norm(st)[:80])
                continue
            for v in vals:
                for x in ast.walk(v):
                    if isinstance(x, ast.Call) and norm(x.func) not in _PURE_CALLS:
                        bad.append(norm(x)[:80])
                    elif isinstance(x, (ast.Subscript, ast.BinOp, ast.Await)):
                        bad.append(norm(x)[:80])
        ctx.check(not bad, key_(ci, "__init__"), f"{ci.qualname}.__init__ computes {bad} from its arguments: the constructor runs inside the clients' `except` / classification branches, so an "
                  "exception raised here (UnicodeDecodeError for an undecodable frame, KeyError, TypeError) replaces the documented error type", init.loc(),
                  okmsg=f"{ci.qualname}.__init__ only stores {sorted(params)}")
    if n < 4:
        raise AnalysisError("exception constructors not found")
    # class hierarchy: every client error derives from the one documented base
    base = m.classes.get("GraphQLClientError")
    if base is None:
        raise AnalysisError("GraphQLClientError not found")
    for ci in m.classes.values():
        if ci is base:
            continue
        ctx.check([dotted(b) for b in ci.node.bases] == ["GraphQLClientError"], key_(ci, "base"), f"{ci.qualname} derives from {[dotted(b) for b in ci.node.bases]}", ci.loc(), okmsg=f"{ci.qualname} is a GraphQLClientError")
