"""Rules over the GraphQL-type -> annotation mappers, custom scalars, method arguments:
C05, C06, C07, C03."""
from __future__ import annotations

import ast
from typing import Dict, List, Optional

from ..absint import Interp
from ..model import AnalysisError, FuncInfo, dotted, norm, walk_no_nested
from ..report import rule
from ..shape import Alt, Lit, Node, Shaper, alts, chain, is_lit, nodes, seq_items
from ..util import allargs, argv, calls_named, cfg_of, is_const, is_name, key, kw, names_in, site_packages_source, strip_pre
from .clients import _model_config

RF = "client_generators.result_fields:"
IF = "client_generators.input_fields:"
CG = "codegen:"
KINDS = ["GraphQLScalarType", "GraphQLInterfaceType", "GraphQLObjectType", "GraphQLEnumType", "GraphQLUnionType", "GraphQLList", "GraphQLNonNull",
         "GraphQLInputObjectType"]


def _kind_atom(var: str, kind: Optional[str], extra=None):
    def atom(e):
        t = norm(strip_pre(e))
        for k in KINDS:
            if t == f"isinstance({var}, {k})":
                return k == kind
        if extra:
            return extra(t)
        return None
    return atom


def _call_kw(c: ast.Call, fi_params: List[str], name: str) -> Optional[ast.AST]:
    v = kw(c, name)
    if v is not None:
        return v
    if name in fi_params and fi_params.index(name) < len(c.args):
        return c.args[fi_params.index(name)]
    return None


# ====================================================================== C05
@rule("C05.R1", "nullability flag: reset to False under NonNull, to True for list items, passed on unchanged to leaves", min_instances=9, also=["C01"])
def c05_r1(ctx):
    repo = ctx.repo
    fi = repo.func(RF + "parse_operation_field_type")
    params = [a.arg for a in fi.node.args.args]
    leaf = {"GraphQLScalarType": "parse_scalar_type", "GraphQLInterfaceType": "parse_interface_type", "GraphQLObjectType": "parse_object_type",
            "GraphQLEnumType": "parse_enum_type", "GraphQLUnionType": "parse_union_type", "GraphQLList": "parse_list_type"}
    for kind, callee in leaf.items():
        o = Interp(fi, _kind_atom("type_", kind)).run()
        good = len(o) == 1 and isinstance(o[0].value, ast.Call) and dotted(o[0].value.func) == callee
        why = f"{kind} is handled by {[x.text()[:80] for x in o]}, expected {callee}"
        if good:
            c = o[0].value
            cp = [a.arg for a in repo.func(RF + callee).node.args.args]
            nv = _call_kw(c, cp, "nullable")
            tv = _call_kw(c, cp, "type_")
            if nv is None or norm(nv) != "nullable":
                good, why = False, f"{callee} receives nullable={norm(nv) if nv is not None else None}: the incoming flag must be passed on unchanged"
            elif tv is None or norm(tv) != "type_":
                good, why = False, f"{callee} receives type_={norm(tv) if tv is not None else None}"
        ctx.check(good, key(fi, kind), why, fi.loc(), okmsg=f"{kind} -> {callee}(nullable=nullable)")
    o = Interp(fi, _kind_atom("type_", "GraphQLNonNull")).run()
    good = len(o) == 1 and isinstance(o[0].value, ast.Call) and dotted(o[0].value.func) == "parse_operation_field_type"
    if good:
        c = o[0].value
        good = is_const(_call_kw(c, params, "nullable"), False) and norm(_call_kw(c, params, "type_") or ast.Constant(0)) == "type_.of_type"
    ctx.check(good, key(fi, "GraphQLNonNull"), f"under NonNull the wrapped type must be parsed with nullable=False; got {[x.text()[:120] for x in o]}", fi.loc(), okmsg="NonNull -> inner type with nullable=False")
    o = Interp(fi, _kind_atom("type_", None)).run()
    ctx.check(bool(o) and all(x.kind == "raise" and x.exc == "ParsingError" for x in o), key(fi, "unknown kind"), "an unknown type kind must raise ParsingError", fi.loc(), okmsg="unknown kind -> ParsingError")
    # list
    lf = repo.func(RF + "parse_list_type")
    o = Interp(lf, lambda e: None).run()
    good = len(o) == 1 and isinstance(o[0].value, ast.Call) and dotted(o[0].value.func) == "generate_list_annotation"
    if good:
        c = o[0].value
        sl = kw(c, "slice_") or (allargs(c)[0] if allargs(c) else None)
        nv = kw(c, "nullable") or (allargs(c)[1] if len(allargs(c)) > 1 else None)
        sl = strip_pre(sl) if sl is not None else None
        good = nv is not None and norm(nv) == "nullable" and isinstance(sl, ast.Call) and dotted(sl.func) == "parse_operation_field_type" \
            and is_const(_call_kw(sl, params, "nullable"), True) and "type_.of_type" in norm(_call_kw(sl, params, "type_") or ast.Constant(0))
    ctx.check(good, key(lf, "list"), f"list items must be parsed with nullable=True and the list itself wrapped with the incoming flag; got {[x.text()[:160] for x in o]}", lf.loc(),
              okmsg="List -> items nullable=True, wrapper gets the incoming flag")
    # union members
    uf = repo.func(RF + "parse_union_type")
    comps = [n for n in walk_no_nested(uf.node) if isinstance(n, ast.ListComp)]
    good = len(comps) == 1 and norm(comps[0].generators[0].iter) == "type_.types" and not comps[0].generators[0].ifs and isinstance(comps[0].elt, ast.Call) \
        and dotted(comps[0].elt.func) == "parse_operation_field_type" and is_const(_call_kw(comps[0].elt, params, "nullable"), False) \
        and is_const(_call_kw(comps[0].elt, params, "add_type_name"), True)
    rets = [n for n in walk_no_nested(uf.node) if isinstance(n, ast.Return)]
    good = good and len(rets) == 1 and norm(rets[0].value) == "generate_union_annotation(sub_annotations, nullable)"
    ctx.check(good, key(uf, "union"), "every union member must be parsed non-null with its type name added and the union wrapped with the incoming flag", uf.loc(), okmsg="Union -> every member nullable=False, wrapper gets the flag")
    # entry
    pf = repo.func(RF + "parse_operation_field")
    cs = calls_named(pf.node, "parse_operation_field_type")
    good = len(cs) == 1 and is_const(_call_kw(cs[0], params, "nullable"), True) and norm(_call_kw(cs[0], params, "type_") or ast.Constant(0)) == "type_"
    ctx.check(good, key(pf, "entry"), "the field's declared type must be parsed starting with nullable=True", pf.loc(), okmsg="entry call: nullable=True")


@rule("C05.R2", "Optional[...] is applied iff the flag is set or the field is conditional (@skip/@include)", min_instances=12, also=["C01", "C06"])
def c05_r2(ctx):
    repo = ctx.repo
    sh = Shaper(repo)
    opt = repo.resolve(repo.mod("client_generators.constants"), "OPTIONAL")
    ctx.check(opt == ("const", "Optional"), "client_generators.constants::OPTIONAL", f"OPTIONAL is {opt}", "", okmsg="OPTIONAL == 'Optional'")
    for fn, inner_kind in (("generate_annotation_name", "Name"), ("generate_list_annotation", "Subscript"), ("generate_union_annotation", "Subscript")):
        fi = repo.func(CG + fn)
        for flag in (True, False):
            v = sh.call_function(fi, {"nullable": Lit(flag)}, depth=1)
            outs = alts(v)
            good = len(outs) == 1 and isinstance(outs[0], Node)
            if good:
                n = outs[0]
                is_opt = n.kind == "Subscript" and isinstance(n.get("value"), Node) and is_lit(n.get("value").get("id"), "Optional")
                good = is_opt if flag else (not is_opt and n.kind == inner_kind)
                if flag and good:
                    good = isinstance(n.get("slice"), Node) and n.get("slice").kind == inner_kind
            ctx.check(good, key(fi, f"nullable={flag}"), f"{fn}(nullable={flag}) emits {v!r}"[:300], fi.loc(), okmsg=f"{fn}(nullable={flag}) -> {'Optional[...]' if flag else 'bare annotation'}")
    # wrappers keep their container
    for fn, head in (("generate_list_annotation", "List"), ("generate_union_annotation", "Union")):
        v = sh.call_function(repo.func(CG + fn), {"nullable": Lit(False)}, depth=1)
        n = alts(v)[0]
        good = isinstance(n, Node) and n.kind == "Subscript" and isinstance(n.get("value"), Node) and is_lit(n.get("value").get("id"), head)
        ctx.check(good, key(repo.func(CG + fn), "container"), f"{fn} does not emit {head}[...]", repo.func(CG + fn).loc(), okmsg=f"{fn} emits {head}[...]")
    # leaf parsers pass the flag to the helper
    for fn, helper in (("parse_object_type", "generate_annotation_name"), ("parse_enum_type", "generate_annotation_name")):
        fi = repo.func(RF + fn)
        rets = [n for n in walk_no_nested(fi.node) if isinstance(n, ast.Return)]
        good = len(rets) == 1 and isinstance(rets[0].value, ast.Call) and dotted(rets[0].value.func) == helper and norm(argv(rets[0].value, 1, "nullable") or ast.Constant(0)) == "nullable"
        ctx.check(good, key(fi, "flag"), f"{fn} does not wrap by the incoming nullable flag", fi.loc(), okmsg=f"{fn}: wraps by the incoming flag")
    it = repo.func(RF + "parse_interface_type")
    rets = [n for n in walk_no_nested(it.node) if isinstance(n, ast.Return)]
    good = len(rets) == 2 and all(isinstance(r.value, ast.Call) and (norm(kw(r.value, "nullable") or (allargs(r.value)[1] if len(allargs(r.value)) > 1 else ast.Constant(0))) == "nullable") for r in rets)
    ctx.check(good, key(it, "flag"), "parse_interface_type does not wrap by the incoming nullable flag on both paths", it.loc(), okmsg="parse_interface_type: wraps by the incoming flag")
    # directives
    pd = repo.func(RF + "parse_directives")
    cm = repo.mod("client_generators.constants")
    consts = (repo.resolve(cm, "INCLUDE_DIRECTIVE_NAME"), repo.resolve(cm, "SKIP_DIRECTIVE_NAME"))
    ctx.check(consts == (("const", "include"), ("const", "skip")), key(pd, "names"), f"conditional directive names are {consts}", pd.loc(), okmsg="conditional directives: include, skip")
    # the set of directive names that make a field optional: the right-hand side of the membership test inside any(...)
    env = {st.targets[0].id: st.value for st in walk_no_nested(pd.node) if isinstance(st, ast.Assign) and isinstance(st.targets[0], ast.Name)}
    members = None
    for c in walk_no_nested(pd.node):
        if isinstance(c, ast.Call) and is_name(c.func, "any") and c.args and isinstance(c.args[0], (ast.GeneratorExp, ast.ListComp)):
            for cmp_ in ast.walk(c.args[0].elt):
                if isinstance(cmp_, ast.Compare) and len(cmp_.ops) == 1 and isinstance(cmp_.ops[0], ast.In):
                    rhs = cmp_.comparators[0]
                    rhs = env.get(rhs.id, rhs) if isinstance(rhs, ast.Name) else rhs
                    if isinstance(rhs, (ast.Tuple, ast.List, ast.Set)) and all(isinstance(x, ast.Constant) for x in rhs.elts):
                        members = sorted(x.value for x in rhs.elts)
    ctx.check(members == ["include", "skip"], key(pd, "set"), f"directives that make a field optional are {members}", pd.loc(), okmsg="exactly @include/@skip make a field optional")
    # every directive of the field is looked at: the quantified collection is the `directives` parameter itself (through
    # comprehensions / locals), never a slice or a filtered part of it
    pdir = pd.node.args.args[1].arg if len(pd.node.args.args) > 1 else "directives"
    sources = []
    for c in walk_no_nested(pd.node):
        if isinstance(c, ast.Call) and is_name(c.func, "any") and c.args and isinstance(c.args[0], (ast.GeneratorExp, ast.ListComp)):
            work, hops = [c.args[0].generators[0].iter], 0
            while work and hops < 8:
                hops += 1
                it0 = strip_pre(work.pop())
                if isinstance(it0, ast.Name) and it0.id in env:
                    work.append(env[it0.id])
                elif isinstance(it0, (ast.ListComp, ast.GeneratorExp, ast.SetComp)) and len(it0.generators) == 1 and not it0.generators[0].ifs:
                    work.append(it0.generators[0].iter)
                else:
                    sources.append(norm(it0))
    ctx.check(sources == [pdir], key(pd, "all directives"), f"the conditional-directive test ranges over {sources}, not over all of `{pdir}`: "
              "`name @other @include(if: $x)` would stay required although the server may omit it", pd.loc(), okmsg="every directive of the field is examined")
    def mk(cond, already):
        def atom(e):
            t = norm(strip_pre(e))
            if t.startswith("any("):
                return cond
            if t == "is_nullable(annotation)":
                return already
            return None
        return atom
    o = Interp(pd, mk(True, False)).run()
    good = len(o) == 1 and norm(strip_pre(o[0].value)) == "(generate_nullable_annotation(annotation), generate_constant(None))"
    ctx.check(good, key(pd, "conditional"), f"a conditional field must become Optional with default None; got {[x.text() for x in o]}", pd.loc(), okmsg="@skip/@include -> Optional[...] = None")
    o = Interp(pd, mk(True, True)).run()
    good = len(o) == 1 and norm(strip_pre(o[0].value)) == "(annotation, generate_constant(None))"
    ctx.check(good, key(pd, "conditional, already optional"), f"got {[x.text() for x in o]}", pd.loc(), okmsg="@skip/@include on a nullable field -> default None, no double Optional")
    o = Interp(pd, mk(False, False)).run()
    good = len(o) == 1 and norm(strip_pre(o[0].value)) == "(annotation, None)"
    ctx.check(good, key(pd, "unconditional"), f"an unconditional field must keep its annotation and get no default; got {[x.text() for x in o]}", pd.loc(), okmsg="no directive -> annotation unchanged, no default")
    td = repo.func("client_generators.result_types:ResultTypesGenerator._parse_type_definition")
    cs_ = calls_named(td.node, "parse_operation_field")
    dv = kw(cs_[0], "directives") if len(cs_) == 1 else None
    reads_self = dv is not None and any(isinstance(n, ast.Attribute) and is_name(n.value, "self") for n in ast.walk(dv))
    ctx.check(dv is not None and not reads_self and "directives" in norm(dv), key(td, "directives source"),
              f"the directives deciding a field's optionality are `{norm(dv) if dv is not None else None}`: they are looked up in state stored on the generator instead of flowing from the selection being processed "
              "(field nodes of a named fragment are shared between its spread sites, so one site's directives leak to another)", td.loc(), okmsg="directives come from the field being processed, not from instance state")
    pf = repo.func(RF + "parse_operation_field")
    c = calls_named(pf.node, "parse_directives")
    good = len(c) == 1 and "directives" in norm(kw(c[0], "directives") or ast.Constant(0)) and norm(kw(c[0], "annotation") or ast.Constant(0)) == "annotation"
    ctx.check(good, key(pf, "directives applied"), "parse_directives is not applied to the field's own directives", pf.loc(), okmsg="field directives applied to its annotation")


@rule("C05.R3", "__typename is typed as a Literal of exactly the given type names", min_instances=6, also=["C01", "C08"])
def c05_r3(ctx):
    repo = ctx.repo
    fi = repo.func(RF + "generate_typename_annotation")
    sh = Shaper(repo)
    v = sh.call_function(fi)
    good = False
    for n in alts(v):
        pass
    outs = alts(v)
    good = bool(outs) and all(isinstance(n, Node) and n.kind == "Subscript" and isinstance(n.get("value"), Node) and is_lit(n.get("value").get("id"), "Literal") for n in outs)
    ctx.check(good, key(fi, "Literal"), f"__typename annotation is {v!r}"[:200], fi.loc(), okmsg="__typename: Literal[...]")
    comps = [n for n in walk_no_nested(fi.node) if isinstance(n, ast.ListComp)]
    p = fi.node.args.args[0].arg
    good = len(comps) == 1 and norm(comps[0].generators[0].iter) == f"sorted({p})" and not comps[0].generators[0].ifs and "f'\"{" + norm(comps[0].generators[0].target) + "}\"'" == norm(allargs(comps[0].elt)[0]) if comps and isinstance(comps[0].elt, ast.Call) and allargs(comps[0].elt) else False
    ctx.check(bool(good), key(fi, "values"), "Literal members are not exactly the (quoted) given type names", fi.loc(), okmsg="Literal members = the given type names")
    # one value -> Literal["A"]; two or more -> Literal["A", "B", ...] (tuple of ALL members): decided for 1, 2 and 3 values
    import operator as _op
    OPS = {ast.Gt: _op.gt, ast.GtE: _op.ge, ast.Lt: _op.lt, ast.LtE: _op.le, ast.Eq: _op.eq, ast.NotEq: _op.ne}
    for n_vals in (1, 2, 3):
        def natom(e, n_vals=n_vals):
            e = strip_pre(e)
            if isinstance(e, ast.Compare) and len(e.ops) == 1 and type(e.ops[0]) in OPS:
                l, r = strip_pre(e.left), strip_pre(e.comparators[0])
                if isinstance(l, ast.Call) and is_name(l.func, "len") and isinstance(r, ast.Constant) and isinstance(r.value, int):
                    return OPS[type(e.ops[0])](n_vals, r.value)
                if isinstance(r, ast.Call) and is_name(r.func, "len") and isinstance(l, ast.Constant) and isinstance(l.value, int):
                    return OPS[type(e.ops[0])](l.value, n_vals)
            return None
        outs_n = [x for x in Interp(fi, natom).run() if x.kind == "return"]
        sl = []
        for x in outs_n:
            v_ = strip_pre(x.value)
            s_ = argv(v_, 1, "slice_") if isinstance(v_, ast.Call) else None
            s_ = strip_pre(x.deref(s_)) if isinstance(s_, ast.Name) else s_
            sl.append(norm(s_) if s_ is not None else "?")
        elts_txt = None
        for x in outs_n:
            for k_, vv in x.env.items():
                if not k_.startswith("<") and isinstance(vv, ast.AST) and isinstance(strip_pre(vv), ast.ListComp):
                    elts_txt = k_
        if n_vals == 1:
            good_n = bool(sl) and all(t_.endswith("[0]") or t_.startswith("generate_tuple(") for t_ in sl)
        else:
            good_n = bool(sl) and all(t_.startswith("generate_tuple(") and "[" not in t_.split("generate_tuple(")[1] for t_ in sl)
        ctx.check(good_n, key(fi, f"{n_vals} value(s)"), f"with {n_vals} possible type name(s) the Literal is built from {sl}: every given name must be a member "
                  "(a payload of one of the other types would be rejected by the discriminator)", fi.loc(), okmsg=f"{n_vals} value(s) -> {'single member' if n_vals == 1 else 'tuple of all members'}")
    pf = repo.func(RF + "parse_operation_field")

    def atom(e):
        t = norm(strip_pre(e))
        if t == "field.name" or t == "typename_values":
            return True
        if t == "field.name.value == TYPENAME_FIELD_NAME":
            return True
        return None
    o = Interp(pf, atom).run()
    good = len(o) == 1 and isinstance(o[0].value, ast.Tuple) and norm(o[0].value.elts[0]) == "generate_typename_annotation(typename_values)" and norm(strip_pre(o[0].value.elts[1])) == "None"
    ctx.check(good, key(pf, "typename field"), f"the __typename field with known values must be a Literal without default; got {[x.text()[:150] for x in o]}", pf.loc(), okmsg="__typename with known values -> Literal, required")


@rule("C05.R6", "unions nested in a wrapper always get their discriminator (each payload item is validated against one class only)", min_instances=2, also=["C01", "C07"])
def c05_r6(ctx):
    repo = ctx.repo
    pf = repo.func(RF + "parse_operation_field")
    ifs = [n for n in walk_no_nested(pf.node) if isinstance(n, ast.If) and any("annotate_nested_unions(" in norm(x) for x in n.body)]
    good = len(ifs) == 1 and norm(ifs[0].test) == "isinstance(annotation, ast.Subscript)" and len(ifs[0].body) == 1 \
        and norm(ifs[0].body[0]).startswith("annotation.slice = annotate_nested_unions(")
    ctx.check(good, key(pf, "nested unions"), f"annotate_nested_unions is applied under `{norm(ifs[0].test) if ifs else None}`: every wrapped annotation (List[...] as well as Optional[...]) must be walked, otherwise a "
              "`[Interface!]!` list loses Field(discriminator=...) and pydantic tries every member class for every item (custom-scalar parse then runs once per member)", pf.loc(),
              okmsg="every Subscript annotation is walked for nested unions")
    an = repo.func(RF + "annotate_nested_unions")
    probs = []
    src = norm(an.node)
    if "isinstance(annotation, ast.Tuple)" not in src or "annotate_nested_unions(cast(AnnotationSlice, elt)) for elt in annotation.elts" not in src:
        probs.append("tuple slices are not walked element-wise")
    if "annotation.value.id == UNION" not in src or "DISCRIMINATOR_KEYWORD: generate_constant(TYPENAME_ALIAS)" not in src:
        probs.append("a Union[...] is not wrapped in Annotated[..., Field(discriminator=typename)]")
    if "annotation.slice = annotate_nested_unions(cast(AnnotationSlice, annotation.slice))" not in src:
        probs.append("other subscripts are not walked recursively")
    ctx.check(not probs, key(an, "walk"), "; ".join(probs), an.loc(), okmsg="nested walk: tuples element-wise, unions annotated, other subscripts recursed")


@rule("C05.R4", "built-in scalars map to their Python types; Any only for unconfigured custom scalars", min_instances=5, also=["C07", "C06"])
def c05_r4(ctx):
    repo = ctx.repo
    m = repo.mod("client_generators.constants")
    stm = repo.resolve(m, "SIMPLE_TYPE_MAP")
    want = {"String": "str", "ID": "str", "Int": "int", "Boolean": "bool", "Float": "float"}
    ctx.check(stm == ("const", want), "client_generators.constants::SIMPLE_TYPE_MAP", f"SIMPLE_TYPE_MAP is {stm[1] if stm[0] == 'const' else stm}", m.relpath, okmsg="SIMPLE_TYPE_MAP = String/ID->str Int->int Boolean->bool Float->float")
    ism = repo.resolve(m, "INPUT_SCALARS_MAP")
    ctx.check(ism == ("const", {**want, "Upload": "Upload"}), "client_generators.constants::INPUT_SCALARS_MAP", f"INPUT_SCALARS_MAP is {ism}", m.relpath, okmsg="INPUT_SCALARS_MAP = SIMPLE_TYPE_MAP + Upload")
    path, src = site_packages_source("graphql", "type", "scalars.py")
    spec = {kw(n, "name").value for n in ast.walk(ast.parse(src)) if isinstance(n, ast.Call) and is_name(n.func, "GraphQLScalarType") and isinstance(kw(n, "name"), ast.Constant)}
    ctx.check(spec == set(want), "client_generators.constants::SIMPLE_TYPE_MAP::keys", f"map keys {sorted(want)} differ from graphql-core's specified scalars {sorted(spec)}", m.relpath, okmsg="map keys = specified scalars of graphql-core")
    fi = repo.func(RF + "parse_scalar_type")

    def mk(simple, custom, nullable=False):
        def atom(e):
            t = norm(e)
            if t == "type_.name in SIMPLE_TYPE_MAP":
                return simple
            if t == "type_.name in context.definitions.custom_scalars":
                return custom
            if t == "nullable":
                return nullable
            return None
        return atom
    o = Interp(fi, mk(True, False)).run()
    ctx.check(len(o) == 1 and norm(o[0].value) == "generate_annotation_name(SIMPLE_TYPE_MAP[type_.name], nullable)", key(fi, "built-in"), f"built-in scalar: {[x.text() for x in o]}", fi.loc(), okmsg="built-in scalar -> mapped Python type")
    o = Interp(fi, mk(False, False)).run()
    ctx.check(len(o) == 1 and norm(o[0].value) == "generate_annotation_name(ANY, nullable)", key(fi, "unconfigured"), f"unconfigured custom scalar: {[x.text() for x in o]}", fi.loc(), okmsg="unconfigured custom scalar -> Any")
    for nl in (True, False):
        o = Interp(fi, mk(False, True, nl)).run()
        a = "generate_result_scalar_annotation(context.definitions.custom_scalars[type_.name])"
        want_v = f"generate_nullable_annotation({a})" if nl else a
        ctx.check(len(o) == 1 and norm(strip_pre(o[0].value)) == want_v, key(fi, f"configured nullable={nl}"), f"configured custom scalar (nullable={nl}) must be {want_v}; got {[x.text() for x in o]}", fi.loc(),
                  okmsg=f"configured scalar, nullable={nl}: validator annotation {'inside Optional' if nl else 'bare'}")


@rule("C05.R5", "result models validate strictly (no silent coercion between JSON kinds)", min_instances=1)
def c05_r5(ctx):
    cfg = _model_config(ctx.repo)
    ci = ctx.repo.cls("client_generators.dependencies.base_model:BaseModel")
    ctx.check(cfg.get("strict") is True, "client_generators.dependencies.base_model::BaseModel::model_config strict",
              f"BaseModel.model_config is {cfg}: pydantic's lax mode coerces between JSON kinds (true -> 1 for Int!, 1 -> '1' is refused but 1 -> 1.0, 'yes' -> True are accepted), "
              "so a payload of the wrong kind yields a typed object instead of a validation error", ci.loc(), okmsg="model_config strict=True")


# ====================================================================== C06
def _const_value_kinds():
    path, src = site_packages_source("graphql", "language", "ast.py")
    tree = ast.parse(src)
    for n in tree.body:
        tgt = val = None
        if isinstance(n, ast.Assign) and len(n.targets) == 1:
            tgt, val = n.targets[0], n.value
        elif isinstance(n, ast.AnnAssign):
            tgt, val = n.target, n.value
        if isinstance(tgt, ast.Name) and tgt.id == "ConstValueNode" and isinstance(val, ast.Subscript):
            return [norm(e) for e in val.slice.elts], tree
    raise AnalysisError(f"oracle: ConstValueNode union not found in {path}")


@rule("C06.R1", "input list items are nullable unless marked non-null (same flag algebra as result types)", min_instances=4, also=["C03"])
def c06_r1(ctx):
    repo = ctx.repo
    fi = repo.func(IF + "parse_input_field_type")
    params = [a.arg for a in fi.node.args.args]
    o = Interp(fi, _kind_atom("type_", "GraphQLList")).run()
    good = len(o) == 1 and isinstance(o[0].value, ast.Tuple)
    why = f"{[x.text()[:160] for x in o]}"
    if good:
        ann = strip_pre(o[0].value.elts[0])
        good = isinstance(ann, ast.Call) and dotted(ann.func) == "generate_list_annotation"
        if good:
            sl = kw(ann, "slice_") or allargs(ann)[0]
            nv = kw(ann, "nullable") or (allargs(ann)[1] if len(allargs(ann)) > 1 else None)
            inner = [c for c in ast.walk(sl) if isinstance(c, ast.Call) and dotted(c.func) == "parse_input_field_type"]
            good = nv is not None and norm(nv) == "nullable" and len(inner) >= 1 and all(is_const(_call_kw(c, params, "nullable"), True) for c in inner) \
                and all("type_.of_type" in norm(_call_kw(c, params, "type_") or ast.Constant(0)) for c in inner)
            if not good:
                why = f"list branch emits {norm(ann)[:200]}: items must be parsed with nullable=True (a `[String]!` field accepts null items) and the list wrapped by the incoming flag"
    ctx.check(good, key(fi, "GraphQLList"), why, fi.loc(), okmsg="input List -> items nullable=True, wrapper gets the incoming flag")
    o = Interp(fi, _kind_atom("type_", "GraphQLNonNull")).run()
    good = len(o) == 1 and isinstance(o[0].value, ast.Call) and dotted(o[0].value.func) == "parse_input_field_type" and is_const(_call_kw(o[0].value, params, "nullable"), False) \
        and norm(_call_kw(o[0].value, params, "type_") or ast.Constant(0)) == "type_.of_type"
    ctx.check(good, key(fi, "GraphQLNonNull"), f"under NonNull the wrapped type must be parsed with nullable=False; got {[x.text()[:120] for x in o]}", fi.loc(), okmsg="input NonNull -> nullable=False")
    for kind in ("GraphQLInputObjectType", "GraphQLEnumType"):
        o = Interp(fi, _kind_atom("type_", kind)).run()
        good = len(o) == 1 and isinstance(o[0].value, ast.Tuple) and isinstance(o[0].value.elts[0], ast.Call) and norm(kw(o[0].value.elts[0], "nullable") or ast.Constant(0)) == "nullable" \
            and norm(o[0].value.elts[1]) == "type_.name"
        ctx.check(good, key(fi, kind), f"{kind}: {[x.text()[:120] for x in o]}", fi.loc(), okmsg=f"input {kind} -> wrapped by the flag, type name reported")
    d = [a for a in zip(fi.node.args.args[::-1], fi.node.args.defaults[::-1]) if a[0].arg == "nullable"]
    ctx.check(bool(d) and is_const(d[0][1], True), key(fi, "entry default"), "the entry default of `nullable` must be True", fi.loc(), okmsg="entry: nullable defaults to True")
    pd = repo.func("client_generators.input_types:InputTypesGenerator._parse_input_definition")
    cs = calls_named(pd.node, "parse_input_field_type")
    good = len(cs) == 1 and norm(argv(cs[0], 0, "type_") or ast.Constant(0)) == "field.type" and _call_kw(cs[0], params, "nullable") is None
    ctx.check(good, key(pd, "entry call"), "input field types are not parsed from field.type with the default flag", pd.loc(), okmsg="entry call: field.type, nullable=True")


@rule("C06.R2", "every kind of constant default value is translated, recursively", min_instances=15)
def c06_r2(ctx):
    repo = ctx.repo
    fi = repo.func(IF + "parse_input_const_value_node")
    kinds, tree = _const_value_kinds()
    supers = {"ConstListValueNode": "ListValueNode", "ConstObjectValueNode": "ObjectValueNode"}
    tested = {norm(allargs(n)[1]) for n in walk_no_nested(fi.node) if isinstance(n, ast.Call) and is_name(n.func, "isinstance") and len(allargs(n)) == 2 and is_name(allargs(n)[0], "node")}
    for k in kinds:
        ctx.check(k in tested or supers.get(k) in tested, key(fi, f"kind {k}"), f"default values of kind {k} are not translated (the field would silently lose its default)", fi.loc(), okmsg=f"{k} handled")
    want = {
        "IntValueNode": "generate_constant(int(node.value))", "FloatValueNode": "generate_constant(float(node.value))", "StringValueNode": "generate_constant(node.value)",
        "BooleanValueNode": "generate_constant(bool(node.value))", "NullValueNode": "generate_constant(None)",
    }
    for k, w in want.items():
        o = Interp(fi, lambda e, k=k: (norm(e) == f"isinstance(node, {k})") if norm(e).startswith("isinstance(node,") else None).run()
        ctx.check(len(o) == 1 and norm(o[0].value) == w, key(fi, f"value {k}"), f"{k}: {[x.text() for x in o]}, expected {w}", fi.loc(), okmsg=f"{k} -> {w}")
    # recursion over all elements / fields
    comps = [n for n in walk_no_nested(fi.node) if isinstance(n, ast.ListComp) and isinstance(n.elt, ast.Call) and is_name(n.elt.func, "parse_input_const_value_node")]
    its = sorted(norm(c.generators[0].iter) for c in comps)
    good = its == ["node.fields", "node.values"] and all(not c.generators[0].ifs for c in comps)
    ctx.check(good, key(fi, "recursion"), f"list/object defaults do not recurse over all values/fields ({its})", fi.loc(), okmsg="list values and object fields all recursed")
    for c in comps:
        it = norm(c.generators[0].iter)
        nl, no = kw(c.elt, "nested_list"), kw(c.elt, "nested_object")
        if it == "node.values":
            good = is_const(nl, True) and no is not None and norm(no) == "nested_object"
            ctx.check(good, key(fi, "list element flags"), f"list elements are translated with nested_list={norm(nl) if nl is not None else None}, nested_object={norm(no) if no is not None else None}: an element must be a plain literal (nested_list=True), never a Field(default_factory=...)", fi.loc(c),
                      okmsg="list elements translated as plain nested literals")
        else:
            good = is_const(nl, True) and is_const(no, True)
            ctx.check(good, key(fi, "object field flags"), f"object field values are translated with nested_list={norm(nl) if nl is not None else None}, nested_object={norm(no) if no is not None else None}: inside an object literal every value must be a plain literal (both True), never a Field(default_factory=...)", fi.loc(c),
                      okmsg="object field values translated as plain nested literals")
    # the Field(default_factory=...) wrapper is applied only at the top level
    for kind_, flag in (("ListValueNode", "nested_list"), ("ObjectValueNode", "nested_object")):
        for nested in (True, False):
            def at(e, kind_=kind_, flag=flag, nested=nested):
                t = norm(e)
                if t.startswith("isinstance(node,"):
                    return t == f"isinstance(node, {kind_})"
                if t == flag:
                    return nested
                return None
            o = Interp(fi, at).run()
            wrapped = [x for x in o if x.value is not None and "default_factory" in norm(x.value)]
            good = bool(o) and (not wrapped if nested else len(wrapped) == len(o))
            ctx.check(good, key(fi, f"{kind_} {flag}={nested}"), f"{kind_} with {flag}={nested}: {'must be a plain literal' if nested else 'must be wrapped in Field(default_factory=lambda: ...)'}; got {[x.text()[:80] for x in o]}", fi.loc(),
                      okmsg=f"{kind_} {flag}={nested}: {'plain literal' if nested else 'Field(default_factory=...)'}")
    from ..util import comp_struct as _cs3
    keys = [n for n in walk_no_nested(fi.node) if isinstance(n, ast.ListComp) and _cs3(n)[0] in ("generate_constant($0.name.value)", "generate_constant(value=$0.name.value)") and norm(n.generators[0].iter) == "node.fields"]
    ctx.check(len(keys) == 1, key(fi, "object keys"), "object default keys are not the GraphQL field names", fi.loc(), okmsg="object default keys = GraphQL field names")


@rule("C06.R3", "an enum literal inside a default is resolved in the enum of its own position", min_instances=1)
def c06_r3(ctx):
    repo = ctx.repo
    fi = repo.func(IF + "parse_input_const_value_node")
    # recursion into object fields: the type context handed down
    for c in walk_no_nested(fi.node):
        if isinstance(c, ast.ListComp) and norm(c.generators[0].iter) == "node.fields" and isinstance(c.elt, ast.Call) and is_name(c.elt.func, "parse_input_const_value_node"):
            ft = kw(c.elt, "field_type")
            same = ft is not None and norm(ft) == "field_type"
            ctx.check(not same, key(fi, "object field type context"),
                      "when recursing into the fields of an object default the parent's `field_type` is forwarded unchanged, and enum literals are emitted as f'{field_type}.{value}': "
                      "an enum inside a nested input default is looked up on the *input* class (Inner.GREEN) - the information needed (the field's own type) never reaches this function",
                      fi.loc(c), okmsg="object-field recursion re-derives the type context")


@rule("C06.R4", "required-ness: no default only for non-null fields without a default literal; alias keeps the default", min_instances=11, also=["C19"])
def c06_r4(ctx):
    repo = ctx.repo
    fi = repo.func(IF + "parse_input_field_default_value")

    def mk(has_default, type_nonnull, ann_optional, has_node=True, ann_subscript=None):
        sub = ann_optional if ann_subscript is None else ann_subscript

        def atom(e):
            t = norm(e)
            if t in ("node", "node is not None"):
                return has_node
            if t == "node is None":
                return not has_node
            if t == "node.default_value":
                return has_default
            if t == "isinstance(node.type, NonNullTypeNode)":
                return type_nonnull
            if t == "isinstance(annotation, ast.Subscript)":
                return sub
            if t in ("isinstance(annotation.value, ast.Name)",):
                return sub
            if t in ("annotation.value.id == OPTIONAL", "annotation.value.id == 'Optional'"):
                return ann_optional
            if t in ("annotation.value.id != OPTIONAL", "annotation.value.id != 'Optional'"):
                return not ann_optional
            return None
        return atom
    o = Interp(fi, mk(True, False, True)).run()
    ctx.check(len(o) == 1 and norm(o[0].value) == "parse_input_const_value_node(node=node.default_value, field_type=field_type)", key(fi, "default literal"), f"{[x.text() for x in o]}", fi.loc(), okmsg="default literal -> translated value")
    o = Interp(fi, mk(False, False, True)).run()
    ctx.check(len(o) == 1 and norm(o[0].value) == "generate_constant(None)", key(fi, "nullable no default"), f"nullable field without default must default to None: {[x.text() for x in o]}", fi.loc(), okmsg="nullable, no default -> None")
    o = Interp(fi, mk(False, True, False)).run()
    ctx.check(len(o) == 1 and (o[0].value is None or is_const(o[0].value, None)), key(fi, "required"), f"non-null field without default must stay required: {[x.text() for x in o]}", fi.loc(), okmsg="non-null, no default -> required")
    o = Interp(fi, mk(True, True, False)).run()
    ctx.check(len(o) == 1 and "parse_input_const_value_node" in norm(o[0].value), key(fi, "non-null with default"), f"{[x.text() for x in o]}", fi.loc(), okmsg="non-null with default -> translated value")
    # schemas without SDL nodes (introspection): the annotation alone decides
    o = Interp(fi, mk(False, False, True, has_node=False)).run()
    ctx.check(len(o) == 1 and norm(o[0].value) == "generate_constant(None)", key(fi, "no node: Optional"),
              f"a nullable input field of a schema without SDL nodes (introspection) must default to None: {[x.text() for x in o]}", fi.loc(), okmsg="no SDL node, Optional[...] annotation -> None")
    o = Interp(fi, mk(False, False, False, has_node=False)).run()
    ctx.check(len(o) == 1 and (o[0].value is None or is_const(o[0].value, None)), key(fi, "no node: required"),
              f"a non-null input field of a schema without SDL nodes must stay required: {[x.text() for x in o]}", fi.loc(), okmsg="no SDL node, bare annotation -> required")
    o = Interp(fi, mk(False, False, False, has_node=False, ann_subscript=True)).run()
    ctx.check(len(o) == 1 and (o[0].value is None or is_const(o[0].value, None)), key(fi, "no node: List"),
              f"a `[T]!` input field (List[...] annotation, not Optional) of a schema without SDL nodes must stay required: {[x.text() for x in o]}", fi.loc(), okmsg="no SDL node, List[...] annotation -> required")
    o = Interp(fi, mk(False, False, False, has_node=True, ann_subscript=False)).run()
    ctx.check(len(o) == 1 and norm(o[0].value) == "generate_constant(None)", key(fi, "nullable by node"),
              f"the SDL node alone (type without `!`) must suffice for the None default: {[x.text() for x in o]}", fi.loc(), okmsg="nullable by SDL node alone -> None")
    # alias never drops the default
    pv = repo.func("client_generators.input_types:InputTypesGenerator._process_field_value")

    def mk2(has_val, is_field):
        def atom(e):
            t = norm(e)
            if t == "field_implementation.value":
                return has_val
            if t in ("isinstance(field_implementation.value, ast.Call)", "isinstance(field_implementation.value.func, ast.Name)", "field_implementation.value.func.id == FIELD_CLASS"):
                return is_field
            return None
        return atom
    base = "generate_pydantic_field({ALIAS_KEYWORD: generate_constant(alias)})"
    o = Interp(pv, mk2(True, True)).run()
    good = len(o) == 1 and isinstance(o[0].value, ast.Name) and norm(o[0].env.get(o[0].value.id)) == base
    good = good and [norm(m) for m in o[0].muts(o[0].value.id)] == [f"{o[0].value.id}.keywords.extend(field_implementation.value.keywords)"] if good else False
    ctx.check(bool(good), key(pv, "Field(...) default"), "an existing Field(...) default is not merged into the aliased Field", pv.loc(), okmsg="alias + Field(default_factory=..) merged")
    o = Interp(pv, mk2(True, False)).run()
    good = len(o) == 1 and isinstance(o[0].value, ast.Name) and [norm(m) for m in o[0].muts(o[0].value.id)] == [f"{o[0].value.id}.keywords.append(generate_keyword(value=field_implementation.value, arg='default'))"]
    ctx.check(bool(good), key(pv, "plain default"), "a plain default value is dropped when the field gets an alias", pv.loc(), okmsg="alias + plain default -> Field(alias=, default=)")
    o = Interp(pv, mk2(False, False)).run()
    good = len(o) == 1 and isinstance(o[0].value, ast.Name) and not o[0].muts(o[0].value.id) and norm(o[0].env.get(o[0].value.id)) == base
    ctx.check(bool(good), key(pv, "no default"), "a required aliased field must stay required", pv.loc(), okmsg="alias without default -> Field(alias=) only")
    cfg = _model_config(repo)
    ctx.check(cfg.get("populate_by_name") is True, "client_generators.dependencies.base_model::BaseModel::populate_by_name", f"model_config {cfg} lacks populate_by_name=True: inputs could not be built by Python field name", "",
              okmsg="populate_by_name=True (by Python name or GraphQL name)")


# ====================================================================== C07
@rule("C07.R1", "parse / serialize wrappers are emitted only when configured and sit innermost", min_instances=6)
def c07_r1(ctx):
    repo = ctx.repo
    sh = Shaper(repo)
    for fn, attr, wrapper in (("generate_result_scalar_annotation", "parse_name", "BeforeValidator"), ("generate_input_scalar_annotation", "serialize_name", "PlainSerializer")):
        fi = repo.func("client_generators.scalars:" + fn)
        for configured in (True, False):
            o = Interp(fi, lambda e, c=configured: (c if norm(e) == f"data.{attr}" else None)).run()
            good = len(o) == 1
            if good:
                v = norm(strip_pre(o[0].value))
                if configured:
                    want = f"generate_subscript(value=generate_name(ANNOTATED), slice_=generate_tuple([generate_name(name=data.type_name), generate_call(func=generate_name({wrapper.upper() if False else ('BEFORE_VALIDATOR' if wrapper == 'BeforeValidator' else 'PLAIN_SERIALIZER')}), args=[generate_name(data.{attr})])]))"
                    good = v == want
                else:
                    good = v == "generate_name(name=data.type_name)"
            ctx.check(good, key(fi, f"configured={configured}"), f"{fn} with {attr} {'set' if configured else 'unset'} emits {[x.text()[:200] for x in o]}", fi.loc(),
                      okmsg=f"{fn}: {'Annotated[T, ' + wrapper + '(f)]' if configured else 'bare T'}")
        c = repo.resolve(fi.module, "BEFORE_VALIDATOR" if wrapper == "BeforeValidator" else "PLAIN_SERIALIZER")
        ctx.check(c == ("const", wrapper), key(fi, "wrapper name"), f"wrapper constant is {c}", fi.loc(), okmsg=f"wrapper is pydantic's {wrapper}")
    # input side: wrapper innermost
    fi = repo.func(IF + "parse_input_field_type")

    def mk(nullable):
        def atom(e):
            t = norm(strip_pre(e))
            if t == "isinstance(type_, GraphQLScalarType)":
                return True
            if t.startswith("isinstance(type_,"):
                return False
            if t == "type_.name in INPUT_SCALARS_MAP":
                return False
            if t == "custom_scalars and type_.name in custom_scalars" or t == "custom_scalars" or t == "type_.name in custom_scalars":
                return True
            if t == "nullable":
                return nullable
            return None
        return atom
    for nl in (True, False):
        o = Interp(fi, mk(nl)).run()
        a = "generate_input_scalar_annotation(custom_scalars[type_.name])"
        want = f"(generate_nullable_annotation({a}), type_.name)" if nl else f"({a}, type_.name)"
        ctx.check(len(o) == 1 and norm(strip_pre(o[0].value)) == want, key(fi, f"custom scalar nullable={nl}"), f"input custom scalar (nullable={nl}): {[x.text() for x in o]}", fi.loc(),
                  okmsg=f"input custom scalar nullable={nl}: serializer annotation {'inside Optional' if nl else 'bare'}")


@rule("C07.R3", "a top-level custom-scalar variable is serialised per occurrence: never for None/UNSET, item-wise for lists", min_instances=2, also=["C03"])
def c07_r3(ctx):
    repo = ctx.repo
    sh = Shaper(repo)
    sites = [("client_generators.arguments:ArgumentsGenerator._get_dict_value", "name"), ("client_generators.custom_arguments:ArgumentGenerator._generate_return_arg_value", "name")]
    for fk, pname in sites:
        fi = repo.func(fk)
        params = [a.arg for a in fi.node.args.args if a.arg != "self"]
        v = sh.call_function(fi)
        bare = []
        for n in nodes(v, "Call"):
            f = n.get("func")
            args = seq_items(n.get("args"))
            if isinstance(f, Node) and f.kind == "Name" and "serialize_name" in chain(f.get("id")) and len(args) == 1 and isinstance(args[0], Node) and args[0].kind == "Name" and chain(args[0].get("id")) == "$" + pname:
                bare.append(n)
        guarded = any(n.kind in ("IfExp", "ListComp") for n in nodes(v))
        has_wrapper_info = any(p in ("annotation", "type_node", "nullable", "is_list", "node", "type_") for p in params)
        ctx.check(not bare or guarded or has_wrapper_info, key(fi, "serialize(<arg>)"),
                  f"the variables dict entry of a custom-scalar argument is emitted as the bare call `serialize({pname})`; the function's inputs {params} carry no nullability/list information, "
                  "so the same call is emitted for `S!`, `S` and `[S!]`: serialize receives UNSET/None for omitted arguments and the whole list for list variables",
                  fi.loc(), okmsg=f"{fi.qualname}: serialize call depends on the variable's wrappers")


# ====================================================================== C03
@rule("C03.R1", "variables dict: keys are the GraphQL variable names, values the like-derived parameters", min_instances=4)
def c03_r1(ctx):
    repo = ctx.repo
    fi = repo.func("client_generators.arguments:ArgumentsGenerator.generate")
    loops = [n for n in fi.node.body if isinstance(n, ast.For)]
    if len(loops) != 1 or norm(loops[0].iter) != "variable_definitions":
        raise AnalysisError("ArgumentsGenerator.generate: loop over variable_definitions not found")
    vd = norm(loops[0].target)
    el = f"<elem>(variable_definitions)"
    eff = lambda c: isinstance(c.func, ast.Attribute) and c.func.attr == "append"

    def run(nullable):
        def atom(e):
            t = norm(strip_pre(e))
            if t.startswith("self._is_nullable("):
                return nullable
            if t == "self.plugin_manager":
                return False
            return None
        return [x for x in Interp(fi, atom, is_effect=eff).run() if any("loop body once" in t for t in x.trace)]
    org = f"{el}.variable.name.value"
    pname = f"process_name({org}, convert_to_snake_case=self.convert_to_snake_case, plugin_manager=self.plugin_manager, node={el})"
    for nullable in (True, False):
        o = run(nullable)
        probs = []
        if len(o) != 1:
            probs.append(f"{len(o)} paths")
        else:
            effs = [norm(strip_pre(e)) for e in o[0].effects]
            if f"dict_.keys.append(generate_constant({org}))" not in effs:
                probs.append(f"the variables dict key is not the GraphQL variable name ({[e for e in effs if 'keys' in e]})")
            vals = [e for e in effs if e.startswith("dict_.values.append(")]
            if len(vals) != 1 or not vals[0].startswith(f"dict_.values.append(self._get_dict_value(name={pname}, "):
                probs.append(f"the variables dict value is not the parameter derived from the same variable ({vals})")
            lst = "optional_args" if nullable else "required_args"
            apps = [e for e in effs if e.startswith(f"{lst}.append(")]
            other = [e for e in effs if e.startswith(("optional_args" if not nullable else "required_args") + ".append(")]
            if len(apps) != 1 or other:
                probs.append(f"a {'nullable' if nullable else 'non-null'} variable must become a{'n optional' if nullable else ' required'} parameter ({apps}, {other})")
            argv = o[0].env.get("arg")
            seen_ = 0
            while argv is not None and isinstance(strip_pre(argv), ast.Name) and o[0].env.get(strip_pre(argv).id) is not None and seen_ < 5:
                argv = o[0].env.get(strip_pre(argv).id)
                seen_ += 1
            if argv is None or not norm(strip_pre(argv)).startswith(f"generate_arg({pname}, "):
                probs.append("the parameter is not named by process_name of the variable name")
        ctx.check(not probs, key(fi, f"variable nullable={nullable}"), "; ".join(probs), fi.loc(), okmsg=f"variable (nullable={nullable}): key = GraphQL name, value = its parameter, {'optional' if nullable else 'required'}")
    # signature assembly
    o = run(True)
    ar = o[0].env.get("arguments") if o else None
    art = norm(strip_pre(ar)) if ar is not None else ""
    good = art == "generate_arguments(args=required_args + optional_args, defaults=[generate_name(UNSET_NAME) for _ in optional_args], kwarg=generate_arg(KWARGS_NAMES, annotation=generate_name(ANY)))"
    ctx.check(good, key(fi, "signature"), f"signature is {art[:200]}: optional parameters must default to UNSET (not None) and follow the required ones", fi.loc(), okmsg="signature: required + optional(=UNSET) + **kwargs")
    un = repo.resolve(fi.module, "UNSET_NAME")
    ctx.check(un == ("const", "UNSET"), key(fi, "UNSET_NAME"), f"UNSET_NAME is {un}", fi.loc(), okmsg="UNSET_NAME == 'UNSET'")
    req0 = o[0].env.get("required_args") if o else None
    ctx.check(req0 is not None and norm(req0) == "[generate_arg('self')]" , key(fi, "self"), "first parameter is not self", fi.loc(), okmsg="first parameter is self")
    rets = [n for n in fi.node.body if isinstance(n, ast.Return)]
    ctx.check(len(rets) == 1 and norm(rets[0].value) == "(arguments, dict_)", key(fi, "return"), "does not return (arguments, dict_)", fi.loc(), okmsg="returns (arguments, dict_)")
    # optional annotation gets the UnsetType alternative, nullability by Optional head
    isn = repo.func("client_generators.arguments:ArgumentsGenerator._is_nullable")
    ctx.check("annotation.value.id == OPTIONAL" in norm(isn.node), key(isn, "optional test"), "_is_nullable does not test for Optional[...]", isn.loc(), okmsg="_is_nullable tests the Optional head")


@rule("C03.R4", "input fields keep their GraphQL name as alias", min_instances=3, also=["C06", "C18"])
def c03_r4(ctx):
    repo = ctx.repo
    fi = repo.func("client_generators.input_types:InputTypesGenerator._parse_input_definition")
    loops = [n for n in fi.node.body if isinstance(n, ast.For)]
    if len(loops) != 1:
        raise AnalysisError("_parse_input_definition: field loop not found")
    eff = lambda c: is_name(c.func, "<setattr>") or (isinstance(c.func, ast.Attribute) and c.func.attr == "append")
    el = "<elem>(enumerate(definition.fields.items(), start=1))"
    for differs in (True, False):
        def atom(e, d=differs):
            t = norm(strip_pre(e))
            if " != " in t and t.startswith("process_name("):
                return d
            if t == "self.plugin_manager":
                return False
            return None
        o = [x for x in Interp(fi, atom, is_effect=eff).run() if any("loop body once" in t for t in x.trace)]
        effs = [norm(strip_pre(e)) for e in o[0].effects] if len(o) == 1 else []
        sets = [e for e in effs if e.startswith("<setattr>(") and "'value'" in e]
        if differs:
            good = len(sets) == 1 and "self._process_field_value(field_implementation=" in sets[0] and sets[0].rstrip(")").endswith(f"alias={el}[1][0]")
        else:
            good = len(o) == 1 and not sets
        ctx.check(good, key(fi, f"name differs={differs}"), f"python name {'differs from' if differs else 'equals'} the GraphQL name: value stores {sets}", fi.loc(),
                  okmsg=f"name differs={differs}: {'alias = GraphQL field name' if differs else 'no alias needed'}")
        if len(o) == 1:
            app = [e for e in effs if e.startswith("class_def.body.append(")]
            ctx.check(len(app) == 1, key(fi, f"member appended differs={differs}"), "input field is not appended to its class", fi.loc(), okmsg="input field appended to its class")
    pv = repo.func("client_generators.input_types:InputTypesGenerator._process_field_value")
    ctx.check("generate_pydantic_field({ALIAS_KEYWORD: generate_constant(alias)})" in norm(pv.node), key(pv, "alias keyword"), "Field(alias=<GraphQL name>) is not built", pv.loc(), okmsg="Field(alias=<GraphQL name>)")


@rule("C03.R5", "names fixed by the method template cannot be captured by operation variables", min_instances=5, also=["C18", "C04", "C12", "C13", "C02"])
def c03_r5(ctx):
    repo = ctx.repo
    sh = Shaper(repo)
    gv = repo.func("client_generators.client:ClientGenerator.get_variable_names")
    # locals obtained through variable_names[...] are renamed on clash
    o = [x for x in Interp(gv, lambda e: None).run() if x.kind == "return"]

    def dr(e):
        e = strip_pre(e)
        while isinstance(e, ast.Name) and o and o[0].env.get(e.id) is not None:
            e = strip_pre(o[0].env[e.id])
        return e
    ret = dr(o[0].value) if o and o[0].value is not None else None
    comp = ret if isinstance(ret, ast.DictComp) else None
    mapped = dr(comp.generators[0].iter) if comp is not None else None
    mapped_names = [norm(x) for x in mapped.elts] if isinstance(mapped, (ast.List, ast.Tuple)) else []
    ci = repo.cls("client_generators.client:ClientGenerator")
    init_consts = {}
    for st in ci.methods["__init__"].node.body:
        if isinstance(st, ast.Assign) and isinstance(st.value, ast.Constant) and isinstance(st.targets[0], ast.Attribute):
            init_consts["self." + st.targets[0].attr] = st.value.value
    mapped_vals = {init_consts.get(m) for m in mapped_names}
    # the mapping itself: the accumulation loop is brought into comprehension form by the loader; anything else is not the mapping
    good = bool(o) and comp is not None
    taken = None
    if good:
        c = comp
        t = norm(c.key)
        v = strip_pre(c.value)
        good = len(c.generators) == 1 and norm(c.generators[0].target) == t and not c.generators[0].ifs \
            and isinstance(v, ast.IfExp) and isinstance(v.test, ast.Compare) and len(v.test.ops) == 1 and isinstance(v.test.ops[0], ast.In) and norm(v.test.left) == t \
            and norm(v.body) == f"f'_{{{t}}}'" and norm(v.orelse) == t
        if good:
            taken = dr(v.test.comparators[0])
            # `x in (A & set(M))` for x drawn from M is `x in A`
            if isinstance(taken, ast.BinOp) and isinstance(taken.op, ast.BitAnd):
                itx = norm(dr(c.generators[0].iter))
                for side, other in ((taken.left, taken.right), (taken.right, taken.left)):
                    sd = dr(side)
                    inner = sd.args[0] if isinstance(sd, ast.Call) and isinstance(sd.func, ast.Name) and sd.func.id in ("set", "frozenset") and len(sd.args) == 1 else sd
                    if norm(dr(inner)) == itx:
                        taken = dr(other)
                        break
    ctx.check(good and len(mapped_vals) >= 4, key(gv, "rename"), "template locals are not renamed when an argument has the same name", gv.loc(), okmsg=f"template locals {sorted(v for v in mapped_vals if v)} renamed on clash")
    p0 = gv.node.args.args[1].arg if len(gv.node.args.args) > 1 else "?"
    from ..util import comp_struct as _cs
    good = taken is not None and _cs(taken) is not None and _cs(taken) == ("$0.arg", [(f"{p0}.args", [])])
    am = repo.func("client_generators.client:ClientGenerator.add_method")
    cs = calls_named(am.node, "self.get_variable_names")
    envm = {st.targets[0].id if isinstance(st.targets[0], ast.Name) else norm(st.targets[0]): st.value for st in am.node.body if isinstance(st, ast.Assign)}
    tup = [st for st in am.node.body if isinstance(st, ast.Assign) and isinstance(st.targets[0], ast.Tuple) and "self.arguments_generator.generate(" in norm(st.value)]
    good = good and len(cs) == 1 and len(allargs(cs[0])) == 1 and tup and norm(allargs(cs[0])[0]) == norm(tup[0].targets[0].elts[0])
    ctx.check(bool(good), key(gv, "clash test"), "the clash test does not compare the template locals with the *emitted Python parameter names* of the method (GraphQL spellings such as $Query differ from the parameter `query`)", gv.loc(),
              okmsg="clash test uses the emitted parameter names of this method")
    # every name the templates bind or read
    fixed: Dict[str, str] = {}
    via_map = set()
    for fn in ("_generate_method", "_generate_async_method", "_generate_subscription_method_def"):
        fi = repo.func("client_generators.client:ClientGenerator." + fn)
        v = sh.call_function(fi)
        body = v.get("body") if isinstance(v, Node) else None
        if body is None:
            raise AnalysisError(f"{fn}: emitted body not found")
        for n in nodes(body, "Name"):
            idv = n.get("id")
            if isinstance(idv, Lit) and isinstance(idv.value, str):
                fixed.setdefault(idv.value, fn)
            else:
                via_map.add(chain(idv))
    # a template local that is renamed on clash must be read through the renaming map at EVERY use
    for name in sorted(set(fixed) & {v for v in mapped_vals if v}):
        ctx.fail(key(gv, f"template bypasses the renaming of {name}"), f"the method template `{fixed[name]}` emits the fixed name `{name}` although that local is renamed to `_{name}` when an operation variable has the same name: "
                 f"with a variable `${name}` the emitted code reads the caller's argument instead of the template's local", repo.func("client_generators.client:ClientGenerator." + fixed[name]).loc())
    reserved_for_template = {k for k in fixed if k not in ("str", "object", "Dict", "self")} | {"self"}
    # which fixed names can an operation variable produce?  process_name never changes
    # `self`, `kwargs`, `gql` (not keywords) - a protection must exist
    pn = repo.func("utils:process_name")
    txt = norm(gv.node) + norm(repo.func("client_generators.arguments:ArgumentsGenerator.generate").node)
    for name in sorted(reserved_for_template):
        if name in mapped_vals:
            ctx.ok(f"template local {name!r}: renamed on clash (variable_names)", gv.loc())
            continue
        protected = f"'{name}'" in txt and ("in argument_names" in txt)
        kind = {"self": "the receiver parameter", "kwargs": "the **kwargs parameter", "gql": "the module-level gql() helper called in the method body"}.get(name, "a template name")
        ctx.check(protected and name in (), key(gv, f"fixed name {name}"),
                  f"the method template uses the fixed name `{name}` ({kind}) but an operation variable `${name}` yields a parameter of the same name: "
                  + ("duplicate parameter -> SyntaxError in client.py" if name in ("self", "kwargs") else "the parameter shadows the helper and `gql(...)` calls the argument"),
                  gv.loc(), okmsg=f"fixed template name {name} protected")


# ====================================================================== Optional / Annotated nesting (shape)
def _walk_anc(v, anc=()):
    yield v, anc
    for c in v.children():
        yield from _walk_anc(c, anc + (v,))


def _is_sub_of(n, head: str) -> bool:
    return isinstance(n, Node) and n.kind == "Subscript" and isinstance(n.get("value"), Node) and is_lit(n.get("value").get("id"), head)


def _first_of_tuple(v):
    from ..shape import Seq
    if isinstance(v, Seq) and v.items:
        return v.items[0]
    if isinstance(v, Node) and v.kind == "Tuple":
        its = seq_items(v.get("elts"))
        return its[0] if its else v
    return v


_SCALAR_HELPERS = {"client_generators.scalars:generate_result_scalar_annotation", "client_generators.scalars:generate_input_scalar_annotation"}


def _optional_nesting(ctx, fi, side: str, wrapper: str):
    sh = Shaper(ctx.repo, inline=set(_SCALAR_HELPERS))
    seen_annotated = 0
    for nl in (True, False):
        v = sh.call_function(fi, {"nullable": Lit(nl)})
        tops = [_first_of_tuple(a) for a in alts(v)]
        tops = [t for a in tops for t in alts(a)]
        tops = [t for t in tops if isinstance(t, Node)]
        if len(tops) < 3:
            raise AnalysisError(f"{fi.qualname}: emitted annotation shapes not found")
        wrong = [repr(t)[:160] for t in tops if _is_sub_of(t, "Optional") != nl]
        ctx.check(not wrong, key(fi, f"top-level Optional, nullable={nl}"),
                  f"with nullable={nl} the {side} annotation is {'not ' if nl else ''}Optional[...] at top level: {wrong[:2]}; the default / required-ness logic and pydantic's None handling look at the outermost subscript",
                  fi.loc(), okmsg=f"{fi.qualname}(nullable={nl}): {len(tops)} shapes, {'all' if nl else 'none'} Optional[...] at top level")
        bad = []
        for t in tops:
            for n, anc in _walk_anc(t):
                if not _is_sub_of(n, "Annotated"):
                    continue
                calls = [c for c in nodes(n, "Call") if isinstance(c.get("func"), Node) and is_lit(c.get("func").get("id"), wrapper)]
                if not calls:
                    continue  # e.g. Annotated[Union[...], Field(discriminator=...)]
                seen_annotated += 1
                inner_opt = [x for x in nodes(n.get("slice"), "Name") if is_lit(x.get("id"), "Optional")]
                if inner_opt:
                    bad.append(f"Annotated[Optional[...], {wrapper}(...)]: None is handed to the user's function")
                if nl and not any(_is_sub_of(a, "Optional") for a in anc):
                    bad.append(f"nullable position is not Optional[Annotated[T, {wrapper}(f)]]")
        ctx.check(not bad, key(fi, f"Optional outside Annotated, nullable={nl}"),
                  f"{side} custom scalar, nullable={nl}: {sorted(set(bad))}. With the Optional inside the Annotated the {wrapper} runs for null as well (parse / serialize called with None), "
                  "and code that looks for a top-level Optional[...] (default = None on the introspection path) no longer sees one", fi.loc(),
                  okmsg=f"{fi.qualname}(nullable={nl}): {wrapper} wrapper innermost, Optional outside it")
    if seen_annotated < 2:
        raise AnalysisError(f"{fi.qualname}: no Annotated[T, {wrapper}(...)] shape found (rule would be vacuous)")


@rule("C07.R4", "result side: a nullable custom scalar is Optional[Annotated[T, BeforeValidator(parse)]] - parse never sees null (emitted shapes)", min_instances=4, also=["C01", "C05"])
def c07_r4(ctx):
    _optional_nesting(ctx, ctx.repo.func(RF + "parse_scalar_type"), "result", "BeforeValidator")


@rule("C07.R5", "input side: a nullable custom scalar is Optional[Annotated[T, PlainSerializer(serialize)]] - serialize never sees None (emitted shapes)", min_instances=4,
      also=["C03", "C06", "C19"])
def c07_r5(ctx):
    _optional_nesting(ctx, ctx.repo.func(IF + "parse_input_field_type"), "input", "PlainSerializer")


# ====================================================================== operation variables: wrappers of the declared type
@rule("C03.R6", "method parameters follow the wrappers of the variable's declared type: List[...] per list, Optional iff nullable, custom scalar reported through lists",
      min_instances=7, also=["C07", "C04"])
def c03_r6(ctx):
    repo = ctx.repo
    fi = repo.func("client_generators.arguments:ArgumentsGenerator._parse_type_node")
    kinds = ("NamedTypeNode", "ListTypeNode", "NonNullTypeNode")

    def mk(kind):
        def atom(e):
            ee = strip_pre(e)
            if isinstance(ee, ast.Call) and is_name(ee.func, "isinstance") and len(ee.args) == 2 and norm(ee.args[0]) == "node" and norm(ee.args[1]) in kinds:
                return norm(ee.args[1]) == kind
            return None
        return atom
    rec = "self._parse_type_node("
    # list
    o = [x for x in Interp(fi, mk("ListTypeNode")).run() if x.kind == "return"]
    good = len(o) == 1 and isinstance(o[0].value, ast.Tuple) and len(o[0].value.elts) == 2
    if good:
        ann, sc = strip_pre(o[0].value.elts[0]), strip_pre(o[0].value.elts[1])
        good = isinstance(ann, ast.Call) and dotted(ann.func) == "generate_list_annotation"
        if good:
            sl, fl = argv(ann, 0, "slice_"), argv(ann, 1, "nullable")
            good = sl is not None and norm(sl).startswith(rec) and norm(sl).endswith("[0]") and "node.type" in norm(sl) and fl is not None and norm(fl) == "nullable"
            ctx.check(norm(sc).startswith(rec) and norm(sc).endswith("[1]"), key(fi, "list: custom scalar"),
                      f"the custom scalar used by the items of a list variable is reported as `{norm(sc)}`: the client module then lacks the scalar's imports (NameError on import) and the variable is not serialised",
                      fi.loc(), okmsg="list variable: the items' custom scalar is passed on")
    ctx.check(good, key(fi, "list"), f"a list variable must become generate_list_annotation(<item annotation>, nullable): with the flag dropped a required `[ID!]!` variable turns into an optional "
              f"parameter (default UNSET) that can be omitted; got {[x.text()[:160] for x in o]}", fi.loc(), okmsg="list variable -> List[item] wrapped by the incoming flag")
    # non-null
    o = [x for x in Interp(fi, mk("NonNullTypeNode")).run() if x.kind == "return"]
    good = len(o) == 1 and isinstance(strip_pre(o[0].value), ast.Call) and norm(strip_pre(o[0].value).func) == "self._parse_type_node" \
        and norm(argv(strip_pre(o[0].value), 0, "node") or ast.Constant(0)) == "node.type" and is_const(argv(strip_pre(o[0].value), 1, "nullable"), False)
    ctx.check(good, key(fi, "non-null"), f"a non-null wrapper must recurse with nullable=False; got {[x.text()[:120] for x in o]}", fi.loc(), okmsg="non-null variable -> recursion with nullable=False")
    # named
    o = [x for x in Interp(fi, mk("NamedTypeNode")).run() if x.kind == "return"]
    good = len(o) == 1 and isinstance(strip_pre(o[0].value), ast.Call) and norm(strip_pre(o[0].value).func) == "self._parse_named_type_node" \
        and norm(argv(strip_pre(o[0].value), 0, "node") or ast.Constant(0)) == "node" and norm(argv(strip_pre(o[0].value), 1, "nullable") or ast.Constant(0)) == "nullable"
    ctx.check(good, key(fi, "named"), f"a named type must be parsed with the incoming flag; got {[x.text()[:120] for x in o]}", fi.loc(), okmsg="named variable type -> parsed with the incoming flag")
    d = [a for a in zip(fi.node.args.args[::-1], fi.node.args.defaults[::-1]) if a[0].arg == "nullable"]
    ctx.check(bool(d) and is_const(d[0][1], True), key(fi, "entry default"), "the entry default of `nullable` must be True (a variable type without `!` is optional)", fi.loc(), okmsg="entry: nullable defaults to True")
    # named types: flag applied, custom scalar reported
    nf = repo.func("client_generators.arguments:ArgumentsGenerator._parse_named_type_node")
    outs = [x for x in Interp(nf, lambda e: (True if norm(strip_pre(e)) in ("self.schema.type_map.get(node.name.value)", "type_") else None)).run() if x.kind == "return"]
    good = bool(outs) and all(isinstance(strip_pre(x.value), ast.Tuple) and isinstance(strip_pre(x.value).elts[0], ast.Call) and dotted(strip_pre(x.value).elts[0].func) == "generate_annotation_name"
                              and norm(argv(strip_pre(x.value).elts[0], 1, "nullable") or ast.Constant(0)) == "nullable" for x in outs)
    ctx.check(good, key(nf, "flag"), f"named variable types are not wrapped by the incoming flag: {[x.text()[:120] for x in outs][:2]}", nf.loc(), okmsg="named type: Optional iff the incoming flag")
    def sc_atom(custom):
        def atom(e):
            t = norm(strip_pre(e))
            if t.startswith("isinstance(") and t.endswith(", GraphQLScalarType)"):
                return True
            if t.startswith("isinstance(") and (t.endswith(", GraphQLInputObjectType)") or t.endswith(", GraphQLEnumType)")):
                return False
            if t.endswith(" not in self.custom_scalars"):
                return not custom
            if t.endswith(" in self.custom_scalars"):
                return custom
            if t in ("self.schema.type_map.get(node.name.value)", "type_") or t.startswith("self.schema.type_map.get("):
                return True
            return None
        return atom
    for custom in (True, False):
        outs = [x for x in Interp(nf, sc_atom(custom)).run() if x.kind == "return"]
        vals = []
        for x in outs:
            v = strip_pre(x.value)
            second = v.elts[1] if isinstance(v, ast.Tuple) and len(v.elts) == 2 else None
            seen_ = 0
            while isinstance(second, ast.Name) and x.env.get(second.id) is not None and seen_ < 6:
                second = strip_pre(x.env[second.id])
                seen_ += 1
            vals.append(norm(second) if second is not None else "?")
        want = "node.name.value" if custom else "None"
        ctx.check(bool(vals) and all(v == want for v in vals), key(nf, f"custom scalar reported={custom}"),
                  f"a {'configured custom' if custom else 'built-in / unconfigured'} scalar used as variable type reports {vals} to the caller, expected {want}"
                  + (" (its imports / serialize call are then missing)" if custom else ""), nf.loc(),
                  okmsg=f"{'configured custom scalar -> its name reported' if custom else 'other scalars -> nothing reported'}")


# ====================================================================== the definition of a selected field
@rule("C05.R7", "a selected field is typed from its own schema definition; the meta field __typename is String!; unknown fields are rejected", min_instances=3, also=["C01", "C08"])
def c05_r7(ctx):
    repo = ctx.repo
    fi = repo.func("client_generators.result_types:ResultTypesGenerator._get_field_from_schema")

    def first(c, name):
        v = argv(c, 0, name)
        return strip_pre(v) if v is not None else None
    res = {}
    for tn in (True, False):
        def atom(e, tn=tn):
            t = norm(strip_pre(e))
            if t in ("field_name == TYPENAME_FIELD_NAME", "field_name == '__typename'"):
                return tn
            if t in ("field_name != TYPENAME_FIELD_NAME", "field_name != '__typename'"):
                return not tn
            if " in " in t and t.startswith("field_name"):
                return False      # written with a membership test instead of try/except: the missing-field scenario
            return None
        res[tn] = Interp(fi, atom, implicit_raises={"KeyError"}).run()
    found = [o for o in res[False] if o.kind == "return" and not any("implicit" in t for t in o.trace)]
    ctx.check(any("self.schema.type_map[type_name]" in norm(strip_pre(o.value)) and norm(strip_pre(o.value)).endswith("[field_name]") for o in found) or
              any("fields[field_name]" in norm(strip_pre(o.value)) or "fields.get(field_name" in norm(strip_pre(o.value)) for o in found), key(fi, "schema field"),
              f"a field present in the schema is not looked up as schema.type_map[type_name].fields[field_name]: {[o.text()[:100] for o in found]}", fi.loc(), okmsg="present field -> its own schema definition")
    miss_tn = [o for o in res[True] if any("implicit" in t for t in o.trace) or o.kind == "raise"]
    good = bool(miss_tn) and all(o.kind == "return" for o in miss_tn)
    for o in miss_tn:
        v = strip_pre(o.value) if o.kind == "return" and o.value is not None else None
        inner = first(v, "type_") if isinstance(v, ast.Call) and dotted(v.func) == "GraphQLField" else None
        base = first(inner, "type_") if isinstance(inner, ast.Call) and dotted(inner.func) == "GraphQLNonNull" else None
        good = good and base is not None and norm(base) == "GraphQLString"
    ctx.check(good, key(fi, "__typename"), f"`__typename` selected on a type that does not list it must be typed String! (non-null): {[o.text()[:100] for o in miss_tn]}; "
              "a nullable type makes every generated `typename__` field Optional[...] and breaks discriminated unions (Literal discriminators must not be Optional)", fi.loc(),
              okmsg="__typename fallback -> GraphQLField(GraphQLNonNull(GraphQLString))")
    miss = [o for o in res[False] if any("implicit" in t for t in o.trace) or o.kind == "raise"]
    ctx.check(bool(miss) and all(o.kind == "raise" and o.exc == "ParsingError" for o in miss), key(fi, "unknown field"),
              f"a field that the type does not define must be rejected with ParsingError: {[o.text()[:100] for o in miss]}", fi.loc(), okmsg="unknown field -> ParsingError")


@rule("C07.R7", "argument values are wrapped in the scalar's serialize function iff one is configured (parse plays no role); used scalars are recorded", min_instances=10, also=["C03", "C14"])
def c07_r7(ctx):
    repo = ctx.repo
    sites = ["client_generators.arguments:ArgumentsGenerator._get_dict_value", "client_generators.custom_arguments:ArgumentGenerator._generate_return_arg_value"]
    for fk in sites:
        fi = repo.func(fk)
        for used in (True, False):
            for ser in (True, False):
                for par in (True, False):
                    if not used and (ser or par):
                        continue

                    def atom(e, used=used, ser=ser, par=par):
                        t = norm(strip_pre(e))
                        if t in ("used_custom_scalar", "used_custom_scalar is not None"):
                            return used
                        if t.endswith(".serialize_name") or t.endswith(".serialize_name is not None"):
                            return ser
                        if t.endswith(".parse_name") or t.endswith(".parse_name is not None"):
                            return par
                        return None
                    outs = [o for o in Interp(fi, atom, is_effect=lambda c: norm(c.func) == "self._used_custom_scalars.append").run() if o.kind == "return"]
                    vals = sorted({norm(strip_pre(o.deref(o.value) if isinstance(o.value, ast.Name) else o.value)) for o in outs})
                    sc = f"scalar={'yes' if used else 'no'} serialize={'yes' if ser else 'no'} parse={'yes' if par else 'no'}"
                    if used and ser:
                        good = len(vals) == 1 and "generate_call(" in vals[0] and ".serialize_name)" in vals[0] and ".parse_name" not in vals[0] and "generate_name(name" in vals[0].split(".serialize_name)")[-1]
                        want = "generate_call(func=generate_name(<scalar>.serialize_name), args=[generate_name(name)])"
                    else:
                        good = vals in (["generate_name(name)"], ["generate_name(name=name)"])
                        want = "generate_name(name)"
                    ctx.check(good, key(fi, sc), f"{fi.qualname} [{sc}] emits {vals}, expected {want}"
                              + ("" if used and ser else ": a call of `None` (no serialize function configured) or of the parse function is emitted into the client"), fi.loc(), okmsg=f"{fi.qualname} [{sc}] -> {want[:40]}")
                    if used:
                        rec = all(any(norm(strip_pre(e)) == "self._used_custom_scalars.append(used_custom_scalar)" for e in o.effects) for o in outs)
                        ctx.check(bool(outs) and rec, key(fi, sc + " recorded"), "a custom scalar used by an argument is not recorded: its imports are missing from the client module", fi.loc(),
                                  okmsg=f"{fi.qualname} [{sc}] scalar recorded")


def _pred_truth(fi, atom):
    """set of truth values a predicate function can return under the scenario (None = undecided)"""
    it = Interp(fi, atom)
    out = set()
    for o in it.run():
        if o.kind != "return":
            out.add("raise")
        elif o.value is None:
            out.add(None)
        else:
            out.add(it.tv(o.value, o.env))
    return out


@rule("C05.R8", "is_nullable / is_union recognise exactly Optional[...] / Union[...] subscripts (they decide double wrapping and discriminators)", min_instances=14,
      also=["C01", "C08", "C03"])
def c05_r8(ctx):
    repo = ctx.repo
    for fn, head, const in (("is_nullable", "OPTIONAL", "Optional"), ("is_union", "UNION", "Union")):
        fi = repo.func(RF + fn)
        p = fi.node.args.args[0].arg
        val = repo.resolve(repo.mod("client_generators.constants"), head)
        ctx.check(val == ("const", const), key(fi, head), f"{head} is {val}", fi.loc(), okmsg=f"{head} == {const!r}")
        for sub in (True, False):
            for isname in (True, False):
                for idok in (True, False):
                    if not sub and (isname or idok):
                        continue
                    if not isname and idok:
                        continue

                    def atom(e, sub=sub, isname=isname, idok=idok):
                        t = norm(strip_pre(e))
                        if t == f"isinstance({p}, ast.Subscript)":
                            return sub
                        if t == f"isinstance({p}.value, ast.Name)":
                            return isname
                        if t in (f"{p}.value.id == {head}", f"{p}.value.id == '{const}'"):
                            return idok
                        if t in (f"{p}.value.id != {head}", f"{p}.value.id != '{const}'"):
                            return not idok
                        return None
                    got = _pred_truth(fi, atom)
                    want = sub and isname and idok
                    ctx.check(got == {want}, key(fi, f"subscript={sub} name={isname} head={idok}"),
                              f"{fn}(subscript={sub}, value is a Name={isname}, head is {const}={idok}) gives {sorted(map(str, got))}, expected {want}: "
                              + ("a conditional field that is already Optional would be wrapped twice / a non-Optional one left required" if fn == "is_nullable"
                                 else "union fields would lose (or plain fields gain) the `discriminator` keyword"), fi.loc(),
                              okmsg=f"{fn}: subscript={sub} name={isname} head={idok} -> {want}")
    # the arguments generator has its own copy of the Optional test
    fi = repo.func("client_generators.arguments:ArgumentsGenerator._is_nullable")
    from ..util import real_params
    p = real_params(fi)[0]
    for sub, isname, idok in ((True, True, True), (True, True, False), (True, False, False), (False, False, False)):
        def atom2(e, sub=sub, isname=isname, idok=idok):
            t = norm(strip_pre(e))
            if t == f"isinstance({p}, ast.Subscript)":
                return sub
            if t == f"isinstance({p}.value, ast.Name)":
                return isname
            if t in (f"{p}.value.id == OPTIONAL", f"{p}.value.id == 'Optional'"):
                return idok
            return None
        got = _pred_truth(fi, atom2)
        want = sub and isname and idok
        ctx.check(got == {want}, key(fi, f"subscript={sub} name={isname} head={idok}"), f"_is_nullable gives {sorted(map(str, got))}, expected {want}: "
                  "an optional operation variable would become a required parameter (or a required one default to UNSET)", fi.loc(), okmsg=f"_is_nullable: subscript={sub} name={isname} head={idok} -> {want}")
