"""Rules over the result-type generator: C01, C08 and the result_types part of C02."""
from __future__ import annotations

import ast
from typing import Dict, List, Optional

from ..absint import Interp, Outcome
from ..model import AnalysisError, FuncInfo, dotted, norm, walk_no_nested
from ..report import rule
from ..util import allargs, argv, calls_named, cfg_of, is_const, is_name, key, kw, names_in, site_packages_source, strip_pre

RT = "client_generators.result_types:ResultTypesGenerator."
RF = "client_generators.result_fields:"


def selection_node_kinds() -> List[str]:
    """oracle: subclasses of SelectionNode in the installed graphql-core"""
    path, src = site_packages_source("graphql", "language", "ast.py")
    out = []
    for n in ast.parse(src).body:
        if isinstance(n, ast.ClassDef) and any(isinstance(b, ast.Name) and b.id == "SelectionNode" for b in n.bases):
            out.append(n.name)
    if len(out) < 3:
        raise AnalysisError(f"oracle: SelectionNode subclasses not found in {path}")
    return sorted(out)


def _const(ctx, module_short: str, name: str):
    m = ctx.repo.mod(module_short)
    k, v = ctx.repo.resolve(m, name)
    if k != "const":
        raise AnalysisError(f"constant {name} not resolvable in {module_short}")
    return v


# ---------------------------------------------------------------------- C01.R1
def _resolve_scenarios():
    return [
        ("field", {"kind": "FieldNode"}),
        ("spread used as mixin", {"kind": "FragmentSpreadNode", "unpack": False}),
        ("spread unpacked, condition matches", {"kind": "FragmentSpreadNode", "unpack": True, "applies": True}),
        ("spread unpacked, fragment on an abstract type of which the selection's type is a sub type", {"kind": "FragmentSpreadNode", "unpack": True, "applies": "subtype"}),
        ("spread unpacked, condition does not match", {"kind": "FragmentSpreadNode", "unpack": True, "applies": False}),
        ("inline fragment that applies", {"kind": "InlineFragmentNode", "inline_root": True}),
        ("inline fragment that does not apply", {"kind": "InlineFragmentNode", "inline_root": False}),
    ]


def _resolve_atom(scn, sel: str):
    def atom(e):
        t = norm(strip_pre(e))
        for k in ("FieldNode", "FragmentSpreadNode", "InlineFragmentNode"):
            if t == f"isinstance({sel}, {k})":
                return scn["kind"] == k
        if t.startswith("self._unpack_fragment("):
            return scn.get("unpack")
        ap = scn.get("applies")
        if t.endswith(".type_condition.name.value == root_type") and "fragments_definitions" in t:
            return False if ap == "subtype" else ap
        if t.startswith("is_abstract_type("):
            return True if ap == "subtype" else ap
        if t.startswith("self.schema.is_sub_type(") and t.endswith(", self.schema.type_map[root_type])") and ".type_condition.name.value]" in t:
            # graphql-core's notion: possible object types AND interfaces implementing the interface
            return True if ap == "subtype" else ap
        if t.startswith("self._get_inline_fragment_root_type("):
            return scn.get("inline_root")
        return None
    return atom


@rule("C01.R1", "every selection is accounted for: fields appended, spreads recorded (mixin or unpacked+merged), inline fragments merged",
      min_instances=8, also=["C02", "C08", "C05"])
def c01_r1(ctx):
    fi = ctx.repo.func(RT + "_resolve_selection_set")
    loops = [n for n in fi.node.body if isinstance(n, ast.For)]
    if len(loops) != 1 or norm(loops[0].iter) != "selection_set.selections" or not isinstance(loops[0].target, ast.Name):
        raise AnalysisError("_resolve_selection_set: cannot identify the loop over selection_set.selections")
    sel = f"<elem>({norm(loops[0].iter)})"
    # exhaustiveness of the isinstance chain over SelectionNode kinds
    tested = {allargs(n)[1].id for n in ast.walk(loops[0]) if isinstance(n, ast.Call) and is_name(n.func, "isinstance") and len(allargs(n)) == 2
              and is_name(allargs(n)[0], loops[0].target.id) and isinstance(allargs(n)[1], ast.Name)}
    kinds = selection_node_kinds()
    ctx.check(set(kinds) <= tested, key(fi, "selection kinds"), f"selection kinds {sorted(set(kinds) - tested)} of graphql-core are not handled", fi.loc(),
              okmsg=f"isinstance chain covers {kinds}")
    eff = lambda c: (isinstance(c.func, ast.Attribute) and c.func.attr in ("append", "extend", "add", "update") and dotted(c.func.value) in ("fields", "fragments", "self._unpacked_fragments", "self._fragments_used_as_mixins")) \
        or (is_name(c.func, "<setattr>"))
    for name, scn in _resolve_scenarios():
        outs = [o for o in Interp(fi, _resolve_atom(scn, sel), is_effect=eff).run() if any("loop body once" in t for t in o.trace)]
        probs = []
        if not outs:
            probs.append("no path")
        for o in outs:
            effs = [norm(strip_pre(e)) for e in o.effects]
            rv = o.value
            frag_expr = norm(strip_pre(o.deref(rv.elts[1]))) if isinstance(rv, ast.Tuple) and len(rv.elts) == 2 else ""
            frag_final = norm(strip_pre(o.env.get("fragments"))) if o.env.get("fragments") is not None else ""
            from ..util import union_terms
            frag_terms = union_terms(o.env.get("fragments")) if o.env.get("fragments") is not None else []
            nm = f"{sel}.name.value"
            rec_spread = f"self._resolve_selection_set(self.fragments_definitions[{nm}].selection_set, root_type)"
            if scn["kind"] == "FieldNode":
                if f"fields.append({sel})" not in effs:
                    probs.append(f"a selected field is not appended to the resolved fields (effects {effs})")
            elif scn["kind"] == "FragmentSpreadNode" and scn["unpack"] is False:
                if f"fragments.add({nm})" not in effs and "{" + nm + "}" not in frag_terms:
                    probs.append(f"a spread used as mixin is not recorded in `fragments` (effects {effs}; fragments = {frag_terms})")
            elif scn["kind"] == "FragmentSpreadNode":
                recorded = f"self._unpacked_fragments.add({nm})" in effs or f"fragments.add({nm})" in effs or "{" + nm + "}" in frag_terms
                merged = f"fields.extend({rec_spread}[0])" in effs and f"{rec_spread}[1]" in frag_terms
                if not recorded:
                    probs.append("the spread is neither recorded as unpacked nor as mixin: its fields are absent from the model and its definition is not sent")
                elif f"self._unpacked_fragments.add({nm})" in effs and not merged:
                    probs.append(f"the unpacked fragment's fields/fragments are not merged (effects {effs}; fragments={frag_final[:80]})")
            elif scn["kind"] == "InlineFragmentNode" and scn["inline_root"]:
                rec = f"self._resolve_selection_set({sel}.selection_set, self._get_inline_fragment_root_type({sel}.type_condition.name.value, root_type))"
                if f"fields.extend({rec}[0])" not in effs or f"{rec}[1]" not in frag_terms:
                    probs.append(f"an applicable inline fragment is not merged (effects {effs})")
            else:
                if any(e.startswith("fields.") or e.startswith("fragments.") for e in effs):
                    probs.append(f"a non-applicable inline fragment contributes fields: {effs}")
            # the accumulated mixin set is updated and both results returned
            if not any(e.startswith("<setattr>(self, '_fragments_used_as_mixins', self._fragments_used_as_mixins | ") for e in effs):
                probs.append("self._fragments_used_as_mixins is not updated with the fragments of this selection set")
            if not (isinstance(rv, ast.Tuple) and len(rv.elts) == 2 and is_name(rv.elts[0], "fields")):
                probs.append(f"does not return (fields, fragments): {norm(rv) if rv is not None else None}")
        ctx.check(not probs, key(fi, f"path: {name}"), "; ".join(sorted(set(probs))), fi.loc(), okmsg=f"_resolve_selection_set [{name}] accounted for")


@rule("C01.R8", "an inline fragment contributes to a class exactly when its type condition is that class's type or one of its interfaces", min_instances=4, also=["C05"])
def c01_r8(ctx):
    fi = ctx.repo.func(RT + "_get_inline_fragment_root_type")
    T = "self.schema.type_map.get(root_type)"

    def mk(known, is_object, in_interfaces, same):
        def atom(e):
            t = norm(strip_pre(e))
            if t == T:
                return known
            if t == f"isinstance({T}, GraphQLObjectType)":
                return is_object
            if t.startswith("selection_value in {") and "interfaces" in t:
                return in_interfaces
            if t == "selection_value == root_type":
                return same
            return None
        return atom
    cases = [("unknown root type", mk(False, False, False, False), {"None"}),
             ("object type implementing the fragment's interface", mk(True, True, True, False), {"selection_value"}),
             ("type condition equals the class's type", mk(True, True, False, True), {"root_type", "selection_value"}),
             ("abstract class, condition is another type", mk(True, False, False, False), {"None"}),
             ("object type, unrelated condition", mk(True, True, False, False), {"None"})]
    for name, atom, want in cases:
        o = Interp(fi, atom).run()
        got = {norm(x.value) if x.value is not None else "None" for x in o}
        ctx.check(bool(o) and got <= want and bool(got), key(fi, name), f"{name}: the inline fragment is evaluated for {sorted(got)}, expected one of {sorted(want)}", fi.loc(), okmsg=f"inline fragment root [{name}] -> {sorted(got)}")


@rule("C01.R9", "@skip/@include on a fragment spread or inline fragment makes the fields it contributes optional", min_instances=2, also=["C05"])
def c01_r9(ctx):
    fi = ctx.repo.func(RT + "_resolve_selection_set")
    loops = [n for n in fi.node.body if isinstance(n, ast.For)]
    if len(loops) != 1:
        raise AnalysisError("_resolve_selection_set: selection loop not found")
    sel = norm(loops[0].target)
    for kind in ("FragmentSpreadNode", "InlineFragmentNode"):
        branch = None
        for n in ast.walk(loops[0]):
            if isinstance(n, ast.If) and norm(n.test) == f"isinstance({sel}, {kind})":
                branch = n
        if branch is None:
            raise AnalysisError(f"_resolve_selection_set: {kind} branch not found")
        reads = any(isinstance(x, ast.Attribute) and x.attr == "directives" and norm(x.value) == sel for s_ in branch.body for x in ast.walk(s_))
        ctx.check(reads, key(fi, f"{kind} directives"),
                  f"the {kind} branch never reads `{sel}.directives`: fields merged from `... @include(if: $x) {{ name }}` or `...Frag @skip(if: $x)` stay required although the server omits them "
                  "when the condition says so; the information cannot reach parse_directives", fi.loc(branch), okmsg=f"{kind}: its conditional directives are taken into account")


# ---------------------------------------------------------------------- C01.R2
@rule("C01.R2", "__typename is injected at abstract positions: flag set, forwarded, field + selection rebound, field node built", min_instances=7,
      also=["C02", "C05"])
def c01_r2(ctx):
    repo = ctx.repo
    # (a) abstract_type flag set on every path of the interface/union builders
    for fn in ("parse_interface_type", "parse_union_type"):
        fi = repo.func(RF + fn)
        g = cfg_of(fi)
        sets = [n for n in g.stmts() if n.kind == "stmt" and isinstance(n.ast, ast.Assign) and norm(n.ast.targets[0]) == "context.abstract_type" and is_const(n.ast.value, True)]
        rets = [n for n in g.nodes if n.kind == "return"]
        bad = []
        for r in rets:
            if not any(g.dominates(s, r) for s in sets):
                bad.append(f"return at L{r.lineno}")
        ctx.check(bool(sets) and not bad and bool(rets), key(fi, "abstract flag"), f"context.abstract_type = True does not dominate {bad or 'any return'}", fi.loc(),
                  okmsg=f"{fn}: abstract_type set before every return")
    # (b) forwarded
    fi = repo.func(RT + "_parse_field_selection_set_types")
    calls = calls_named(fi.node, "self._parse_type_definition")
    good = len(calls) == 1 and kw(calls[0], "add_typename") is not None and norm(kw(calls[0], "add_typename")) == "field_context.abstract_type"
    ctx.check(good, key(fi, "add_typename"), "add_typename of the nested class is not field_context.abstract_type", fi.loc(), okmsg="add_typename forwarded from the field context")
    # (c) rebinding under add_typename
    fi = repo.func(RT + "_parse_type_definition")
    eff = lambda c: is_name(c.func, "<setattr>")
    def atom(e):
        t = norm(e)
        if t == "add_typename":
            return True
        if t.endswith("in self._public_names"):
            return False
        return None
    outs = Interp(fi, atom, is_effect=eff).run()
    call = "self._add_typename_field_to_selections(self._resolve_selection_set(selection_set, type_name)[0], selection_set)"
    good = bool(outs)
    why = ""
    for o in outs:
        effs = [norm(strip_pre(e)) for e in o.effects]
        if f"<setattr>(selection_set, 'selections', {call}[1])" not in effs:
            good, why = False, f"selection_set.selections is not rebound to the selections with __typename (effects {effs[:3]})"
        # the loop iterates the rebound field list
        lp = [n for n in fi.node.body if isinstance(n, ast.For)]
        rs = o.env.get("resolved_selection_set")
        if rs is None or norm(strip_pre(rs)) != f"{call}[0]":
            good, why = False, f"the resolved field list is not rebound (is {norm(rs)[:80] if rs is not None else None})"
    ctx.check(good, key(fi, "typename rebind"), why or "no path", fi.loc(), okmsg="with add_typename both the field list and the sent selections get __typename")
    def atom2(e):
        t = norm(e)
        if t == "add_typename":
            return False
        if t.endswith("in self._public_names"):
            return False
        return None
    outs = Interp(fi, atom2, is_effect=eff).run()
    good = bool(outs) and all(not any(norm(e).startswith("<setattr>(selection_set") for e in o.effects) for o in outs)
    ctx.check(good, key(fi, "no rewrite without add_typename"), "the authored selection set is rewritten although no __typename is needed", fi.loc(),
              okmsg="without add_typename the authored selection set is left untouched")
    # (d) the helper
    fi = repo.func(RT + "_add_typename_field_to_selections")
    tn = _const(ctx, "client_generators.constants", "TYPENAME_FIELD_NAME")
    ctx.check(tn == "__typename", key(fi, "constant"), f"TYPENAME_FIELD_NAME is {tn!r}", fi.loc(), okmsg="TYPENAME_FIELD_NAME == '__typename'")
    def mk(absent):
        return lambda e: (absent if norm(strip_pre(e)) in ("TYPENAME_FIELD_NAME in {f.name.value for f in resolved_fields}",) else None)
    o = Interp(fi, mk(False)).run()
    good = len(o) == 1 and isinstance(o[0].value, ast.Tuple) and len(o[0].value.elts) == 2
    if good:
        a, b = o[0].value.elts
        node = "FieldNode(name=NameNode(value=TYPENAME_FIELD_NAME))"
        good = norm(a) == f"[{node}, *resolved_fields]" and norm(b) == f"({node}, *selection_set.selections)"
    ctx.check(good, key(fi, "absent"), f"when __typename is absent it must be prepended to both the field list and the sent selections; got {[x.text() for x in o]}", fi.loc(),
              okmsg="absent __typename is prepended to fields and selections")
    o = Interp(fi, mk(True)).run()
    good = len(o) == 1 and norm(o[0].value) == "(resolved_fields, selection_set.selections)"
    ctx.check(good, key(fi, "present"), f"when __typename is already selected nothing may change; got {[x.text() for x in o]}", fi.loc(), okmsg="present __typename left alone")


# ---------------------------------------------------------------------- C01.R3
@rule("C01.R3", "field alias equals the response key; python name derives from it", min_instances=6, also=["C18"])
def c01_r3(ctx):
    repo = ctx.repo
    fi = repo.func(RT + "_get_field_name")
    p = fi.node.args.args[1].arg
    o = Interp(fi, lambda e: True if norm(e) == f"{p}.alias" else None).run()
    ctx.check(len(o) == 1 and norm(o[0].value) == f"{p}.alias.value", key(fi, "aliased"), f"response key of an aliased field must be the alias; got {[x.text() for x in o]}", fi.loc(), okmsg="aliased field: response key = alias")
    o = Interp(fi, lambda e: False if norm(e) == f"{p}.alias" else None).run()
    ctx.check(len(o) == 1 and norm(o[0].value) == f"{p}.name.value", key(fi, "plain"), f"response key of a plain field must be its name; got {[x.text() for x in o]}", fi.loc(), okmsg="plain field: response key = name")
    # call site: schema name for lookup is field.name.value, response key for alias
    td = repo.func(RT + "_parse_type_definition")
    loops = [n for n in td.node.body if isinstance(n, ast.For)]
    if len(loops) != 1:
        raise AnalysisError("_parse_type_definition: field loop not found")
    body = ast.Module(body=loops[0].body, type_ignores=[])
    env: Dict[str, ast.expr] = {}
    for st in loops[0].body:
        if isinstance(st, ast.Assign) and len(st.targets) == 1 and isinstance(st.targets[0], ast.Name):
            env.setdefault(st.targets[0].id, st.value)
    fvar = None
    t = loops[0].target
    if isinstance(t, ast.Tuple) and len(t.elts) == 2 and isinstance(t.elts[1], ast.Name):
        fvar = t.elts[1].id
    elif isinstance(t, ast.Name):
        fvar = t.id
    pfi = calls_named(body, "self._process_field_implementation")
    good = len(pfi) == 1 and kw(pfi[0], "field_schema_name") is not None
    if good:
        v = kw(pfi[0], "field_schema_name")
        v = env.get(v.id, v) if isinstance(v, ast.Name) else v
        good = norm(v) == f"self._get_field_name({fvar})"
    ctx.check(good, key(td, "alias source"), "the alias handed to _process_field_implementation is not the field's response key", td.loc(), okmsg="alias source = response key")
    # nested classes are named after the RESPONSE KEY of the field (two aliases of one field select different sub-fields and
    # need two classes), i.e. after the same python name that becomes the attribute
    pof = calls_named(body, "parse_operation_field")
    good = len(pof) == 1 and kw(pof[0], "class_name") is not None
    if good:
        cn = kw(pof[0], "class_name")
        seen_n = set()

        def expand(e, depth=0):
            out_ = []
            for n in ast.walk(e):
                if isinstance(n, ast.Name) and n.id in env and n.id not in seen_n and depth < 6 and n.id != "class_name":
                    seen_n.add(n.id)
                    out_ += expand(env[n.id], depth + 1)
            return [norm(e)] + out_
        chain_ = expand(cn)
        good = "str_to_pascal_case" in norm(cn) and any(f"self._get_field_name({fvar})" in t or f"self._get_field_name(field={fvar})" in t for t in chain_) \
            and not any(isinstance(n, ast.Attribute) and norm(n) == f"{fvar}.name.value" for n in ast.walk(cn))
    ctx.check(good, key(td, "nested class name"), "the class generated for a field's sub-selection is not named after the field's response key (alias or name) as processed for the attribute: "
              "`a: friend { id }` and `b: friend { name }` would share one class name and one of the two selections is lost", td.loc(), okmsg="nested class name derives from the response key")
    gfs = calls_named(body, "self._get_field_from_schema")
    good = len(gfs) == 1 and len(allargs(gfs[0])) == 2 and norm(allargs(gfs[0])[0]) == "type_name" and norm(allargs(gfs[0])[1]) == f"{fvar}.name.value"
    ctx.check(good, key(td, "schema lookup"), "the schema field is not looked up by the field's own name (aliases must not be used for lookup)", td.loc(), okmsg="schema lookup by field.name.value")
    # _process_field_implementation: alias keyword whenever target id differs
    pf = repo.func(RT + "_process_field_implementation")
    eff = lambda c: is_name(c.func, "<setitem>") or is_name(c.func, "<setattr>")
    def atom(e):
        t = norm(e)
        if t == "isinstance(field_implementation.target, ast.Name)":
            return True
        if t == "field_implementation.target.id != field_schema_name":
            return True
        if t.startswith("is_union("):
            return False
        if t == "self.plugin_manager":
            return False
        if t.startswith("isinstance(field_implementation.value"):
            return False
        return None
    o = Interp(pf, atom, is_effect=eff).run()
    effs = [norm(strip_pre(e)) for x in o for e in x.effects]
    good = bool(o) and all("<setitem>(keywords, ALIAS_KEYWORD, generate_constant(field_schema_name))" in [norm(strip_pre(e)) for e in x.effects]
                           and "<setattr>(field_implementation, 'value', generate_pydantic_field(keywords))" in [norm(strip_pre(e)) for e in x.effects] for x in o)
    ctx.check(good, key(pf, "alias emitted"), f"when the Python name differs from the response key a Field(alias=<response key>) must be emitted; effects {effs}", pf.loc(),
              okmsg="alias emitted when names differ")
    ak = _const(ctx, "client_generators.constants", "ALIAS_KEYWORD")
    ctx.check(ak == "alias", key(pf, "ALIAS_KEYWORD"), f"ALIAS_KEYWORD is {ak!r}", pf.loc(), okmsg="ALIAS_KEYWORD == 'alias'")


def _flatten_add(e):
    if isinstance(e, ast.BinOp) and isinstance(e.op, ast.Add):
        return _flatten_add(e.left) + _flatten_add(e.right)
    return [e]


# ---------------------------------------------------------------------- C01.R4
@rule("C01.R4", "every class named in an annotation is registered for generation under the same name", min_instances=4)
def c01_r4(ctx):
    for fn in ("parse_interface_type", "parse_object_type"):
        fi = ctx.repo.func(RF + fn)
        env = {}
        for st in ast.walk(fi.node):
            if isinstance(st, ast.Assign) and len(st.targets) == 1 and isinstance(st.targets[0], ast.Name):
                env[st.targets[0].id] = st.value

        def res(e):
            return norm(env[e.id]) if isinstance(e, ast.Name) and e.id in env and e.id not in ("class_name",) else norm(e)
        registered, annotated = [], []
        for c in walk_no_nested(fi.node):
            if isinstance(c, ast.Call) and is_name(c.func, "RelatedClassData"):
                cn = kw(c, "class_name") or (allargs(c)[0] if allargs(c) else None)
                registered.append(res(cn))
            if isinstance(c, ast.Call) and is_name(c.func, "generate_annotation_name") and allargs(c):
                a = allargs(c)[0]
                a = env.get(a.id, a) if isinstance(a, ast.Name) and a.id not in ("class_name",) else a
                from ..util import concat_parts
                parts = concat_parts(a)
                # '"' + X (+ Y) + '"'   (a quoted forward reference)
                if len(parts) >= 3 and parts[0] == repr('"') and parts[-1] == repr('"'):
                    mid = [norm(env[m]) if m in env and m != "class_name" else m for m in parts[1:-1]]
                    annotated.append(" + ".join(mid))
        ok = sorted(registered) == sorted(annotated) and registered
        ctx.check(bool(ok), key(fi, "pairing"), f"classes registered for generation {sorted(registered)} differ from classes named in annotations {sorted(annotated)}", fi.loc(),
                  okmsg=f"{fn}: {len(registered)} annotation/class pairs agree")
        # every append of RelatedClassData goes to context.related_classes
        apps = [c for c in walk_no_nested(fi.node) if isinstance(c, ast.Call) and isinstance(c.func, ast.Attribute) and allargs(c) and (
            (c.func.attr == "append" and isinstance(allargs(c)[0], ast.Call) and is_name(allargs(c)[0].func, "RelatedClassData")) or
            (c.func.attr == "extend" and isinstance(allargs(c)[0], (ast.GeneratorExp, ast.ListComp)) and isinstance(allargs(c)[0].elt, ast.Call) and is_name(allargs(c)[0].elt.func, "RelatedClassData")))]
        ctx.check(len(apps) == len(registered) and all(norm(a.func.value) == "context.related_classes" for a in apps), key(fi, "registration sink"),
                  "RelatedClassData is built but not appended to context.related_classes", fi.loc(), okmsg=f"{fn}: related classes appended to the context")


# ---------------------------------------------------------------------- C01.R5/R6
@rule("C01.R5", "every related class of a field is generated from the field's own selection set; every resolved field becomes a member", min_instances=4)
def c01_r5(ctx):
    repo = ctx.repo
    fi = repo.func(RT + "_parse_field_selection_set_types")
    from ..util import comp_struct
    o = [x for x in Interp(fi, lambda e: True if norm(e) == "selection_set" else None).run() if x.kind == "return"]
    probs = []
    cs_ = comp_struct(strip_pre(o[0].deref(o[0].value))) if len(o) == 1 and o[0].value is not None else None
    if cs_ is None:
        probs.append(f"{len(o)} paths / the generated classes are not the concatenation over the related classes")
    else:
        elt, gens = cs_
        if elt != "$1" or len(gens) != 2 or gens[0] != ("field_context.related_classes", []) or gens[1][1]:
            probs.append(f"generated classes are {cs_}: expected every class of every related class (a filter would skip classes)")
        else:
            try:
                c = ast.parse(gens[1][0].replace("$0", "_REL_"), mode="eval").body
            except SyntaxError:
                c = None
            if not (isinstance(c, ast.Call) and dotted(c.func) == "self._parse_type_definition"):
                probs.append("no single _parse_type_definition call per related class")
            else:
                el = "_REL_"
                want = {"class_name": f"{el}.class_name", "type_name": f"{el}.type_name", "selection_set": "selection_set"}
                for k_, v_ in want.items():
                    got = kw(c, k_)
                    if got is None or norm(got) != v_:
                        probs.append(f"{k_} is {norm(got) if got is not None else None}, expected {v_}")
                tv = kw(c, "typename_values")
                if tv is None or f"[{el}.type_name]" not in norm(tv):
                    probs.append("typename_values is not selected by the related class's type name")
    ctx.check(not probs, key(fi, "related classes"), "; ".join(probs), fi.loc(), okmsg="every related class generated from the field's selection set")
    o = Interp(fi, lambda e: False if norm(e) == "selection_set" else None).run()
    ctx.check(len(o) == 1 and norm(o[0].value) == "[]", key(fi, "leaf"), "a field without selection set must produce no classes", fi.loc(), okmsg="leaf field: no nested classes")
    # R6: member append is unconditional in the field loop
    td = repo.func(RT + "_parse_type_definition")
    loops = [n for n in td.node.body if isinstance(n, ast.For)]
    lp = loops[0] if loops else None
    probs = []
    if lp is None or "resolved_selection_set" not in norm(lp.iter):
        probs.append("field loop over the resolved selection set not found")
    else:
        direct = [st for st in lp.body if isinstance(st, ast.Expr) and isinstance(st.value, ast.Call) and norm(st.value.func) == "class_def.body.append"]
        if len(direct) != 1:
            probs.append("class_def.body.append(...) is not an unconditional statement of the field loop")
        else:
            idx = lp.body.index(direct[0])
            for st in lp.body[:idx]:
                for sub in ast.walk(st):
                    if isinstance(sub, (ast.Continue, ast.Break)):
                        probs.append("a continue/break before the member append can skip fields")
            if not is_name(allargs(direct[0].value)[0], "field_implementation"):
                probs.append("appended member is not the field implementation")
        ex = [st for st in lp.body if isinstance(st, ast.Expr) and isinstance(st.value, ast.Call) and norm(st.value.func) == "extra_classes.extend"]
        if len(ex) != 1:
            probs.append("nested classes of the field are not collected unconditionally")
    rets = [n for n in walk_no_nested(td.node) if isinstance(n, ast.Return) and n.value is not None and norm(n.value) != "[]"]
    if len(rets) != 1 or norm(rets[0].value) != "[class_def] + extra_classes":
        probs.append(f"does not return [class_def] + extra_classes: {[norm(r.value) for r in rets]}")
    ctx.check(not probs, key(td, "member append"), "; ".join(probs), td.loc(), okmsg="every resolved field becomes a class member; nested classes returned")
    # ann-assign is built from the processed name and the parsed annotation
    ga = calls_named(td.node, "generate_ann_assign")
    good = len(ga) == 1 and norm(kw(ga[0], "target") or ast.Constant(0)) == "generate_name(name)" and norm(kw(ga[0], "annotation") or ast.Constant(0)) == "annotation" \
        and norm(kw(ga[0], "value") or ast.Constant(0)) == "default_value"
    ctx.check(good, key(td, "ann assign"), "member is not `name: annotation = default_value`", td.loc(), okmsg="member = name: annotation = default")


# ---------------------------------------------------------------------- C01.R7/R8
@rule("C01.R7", "typename constants agree: python name, discriminator and Literal values", min_instances=5, also=["C05"])
def c01_r7(ctx):
    repo = ctx.repo
    alias = _const(ctx, "client_generators.constants", "TYPENAME_ALIAS")
    ctx.check(isinstance(alias, str) and alias.isidentifier() and not alias.startswith("_"), "client_generators.constants::TYPENAME_ALIAS",
              f"TYPENAME_ALIAS {alias!r} is not a public identifier (pydantic ignores underscore-prefixed fields)", "", okmsg=f"TYPENAME_ALIAS = {alias!r}")
    disc = _const(ctx, "client_generators.constants", "DISCRIMINATOR_KEYWORD")
    ctx.check(disc == "discriminator", "client_generators.constants::DISCRIMINATOR_KEYWORD", f"DISCRIMINATOR_KEYWORD is {disc!r}", "", okmsg="DISCRIMINATOR_KEYWORD == 'discriminator'")
    fi = repo.func(RT + "_process_field_name")
    o = Interp(fi, lambda e: True if norm(e) == "name == TYPENAME_FIELD_NAME" else None).run()
    ctx.check(len(o) == 1 and norm(o[0].value) == "TYPENAME_ALIAS", key(fi, "typename name"), "__typename is not mapped to TYPENAME_ALIAS", fi.loc(), okmsg="__typename -> TYPENAME_ALIAS")
    for fk, fn in ((RT + "_process_field_implementation", "result_types"), (RF + "annotate_nested_unions", "result_fields")):
        f2 = repo.func(fk)
        hits = []
        for n in ast.walk(f2.node):
            if isinstance(n, ast.Subscript) and norm(n.slice) == "DISCRIMINATOR_KEYWORD" and isinstance(n.ctx, ast.Store):
                pass
            if isinstance(n, ast.Assign) and isinstance(n.targets[0], ast.Subscript) and norm(n.targets[0].slice) == "DISCRIMINATOR_KEYWORD":
                hits.append(n.value)
            if isinstance(n, ast.Dict):
                for k_, v_ in zip(n.keys, n.values):
                    if k_ is not None and norm(k_) == "DISCRIMINATOR_KEYWORD":
                        hits.append(v_)
        good = bool(hits) and all(norm(h) == "generate_constant(TYPENAME_ALIAS)" for h in hits)
        ctx.check(good, key(f2, "discriminator"), f"discriminator value is {[norm(h) for h in hits]}, expected the typename field's Python name", f2.loc(), okmsg=f"{fn}: discriminator = TYPENAME_ALIAS")
    # union detection guards the discriminator
    pf = repo.func(RT + "_process_field_implementation")
    tests = [n.test for n in walk_no_nested(pf.node) if isinstance(n, ast.If) and any(norm(x) == "DISCRIMINATOR_KEYWORD" for s in n.body for x in ast.walk(s))]
    ctx.check(len(tests) == 1 and norm(tests[0]) == "is_union(field_implementation.annotation)", key(pf, "discriminator guard"), "discriminator is not emitted exactly for Union annotations", pf.loc(),
              okmsg="discriminator emitted iff annotation is a Union")
    # R8 remaining possible types
    tv = repo.func(RT + "_get_typename_values")
    ext = [c for c in walk_no_nested(tv.node) if isinstance(c, ast.Call) and isinstance(c.func, ast.Attribute) and c.func.attr == "extend"]
    env = {st.targets[0].id: st.value for st in ast.walk(tv.node) if isinstance(st, ast.Assign) and len(st.targets) == 1 and isinstance(st.targets[0], ast.Name)}
    def deep(e, d=0):
        t = norm(e)
        if d < 4:
            for n in list(env):
                if n in names_in(e):
                    t = t.replace(n, "(" + deep(env[n], d + 1) + ")") if n in t.split("(")[0:1] else t
        return t
    good = len(ext) == 1 and norm(ext[0].func.value) == "result[abstract_type.name]"
    if good:
        a = allargs(ext[0])[0]
        a = env.get(a.id, a) if isinstance(a, ast.Name) else a
        txt = norm(a)
        good = "set(possible_types_names) - set(types_names)" in txt
        pt = env.get("possible_types_names")
        p0 = env.get("possible_types")
        good = good and pt is not None and "possible_types" in norm(pt) and p0 is not None and norm(p0) == "self.schema.get_possible_types(abstract_type)"
    ctx.check(good, key(tv, "possible types"), "the abstract class's __typename values are not extended with the remaining possible types", tv.loc(),
              okmsg="abstract class accepts every possible type without its own class")
    base = env.get("result")
    ctx.check(base is not None and norm(base) == "{name: [name] for name in types_names}", key(tv, "own typename"), "each related class does not accept its own type name", tv.loc(), okmsg="each class accepts its own type name")


# ====================================================================== C08
@rule("C08.R1", "mixin-vs-unpack decision and class bases", min_instances=6, also=["C01", "C04"])
def c08_r1(ctx):
    repo = ctx.repo
    fi = repo.func(RT + "_unpack_fragment")

    def mk(union, root_given, differs, inline):
        def atom(e):
            t = norm(strip_pre(e))
            if t.startswith("isinstance(self.schema.type_map.get(") and t.endswith("GraphQLUnionType)"):
                return union
            if t == "fragment_def.name":
                return True
            if t == "root_type_def":
                return root_given
            if t == "fragment_def.type_condition.name.value != root_type_def.name":
                return differs
            if t.startswith("isinstance(<elem>(fragment_def.selection_set.selections)") and t.endswith("InlineFragmentNode)"):
                return inline
            return None
        return atom

    def vals(outs, atom):
        from ..absint import quantifier_values
        got = set()
        for o in outs:
            if o.kind != "return":
                continue
            q = quantifier_values(strip_pre(o.value), atom) if o.value is not None else None
            if q is not None:
                got |= {str(x) for x in q}
            else:
                got.add(norm(o.value) if o.value is not None else "None")
        return got
    cases = [
        ("fragment on a union", mk(True, True, False, False), {"True"}, "all"),
        ("fragment on another type than the selection's", mk(False, True, True, False), {"True"}, "all"),
        ("fragment containing an inline fragment", mk(False, True, False, True), {"True"}, "some"),
        ("plain fragment on the selection's own type", mk(False, True, False, False), {"False"}, "all"),
        ("fragment definition itself (no root given), plain", mk(False, False, None, False), {"False"}, "all"),
    ]
    for name, atom, want, mode in cases:
        outs = Interp(fi, atom).run()
        got = vals(outs, atom)
        good = (got == want) if mode == "all" else bool(want & got)
        ctx.check(good, key(fi, name), f"{name}: unpack decision can be {sorted(got)}, expected {sorted(want)}", fi.loc(), okmsg=f"_unpack_fragment [{name}] -> {sorted(want)}")
    # class bases
    td = repo.func(RT + "_parse_type_definition")

    def atom(e, fr=True, eb=True):
        t = norm(strip_pre(e))
        if t.endswith("in self._public_names"):
            return False
        if t == "add_typename":
            return False
        if t == "self._resolve_selection_set(selection_set, type_name)[1]":
            return fr
        if t == "extra_bases":
            return eb
        return None
    outs = Interp(td, atom).run()
    probs = []
    for o in outs:
        cb = o.env.get("class_bases")
        if not isinstance(cb, ast.ListComp):
            probs.append("class bases with mixin fragments are not a comprehension over the fragment names")
            continue
        g = cb.generators[0]
        if norm(cb.elt) != f"str_to_pascal_case({norm(g.target)})" or norm(strip_pre(g.iter)) != "sorted(self._resolve_selection_set(selection_set, type_name)[1])" or g.ifs:
            probs.append(f"bases are {norm(cb)[:100]}; expected the PascalCase class of every mixin fragment, sorted")
        muts = [norm(m) for m in o.muts("class_bases")]
        if muts != ["class_bases.extend(extra_bases)"]:
            probs.append(f"@mixin bases are not appended to the bases ({muts})")
        cd = o.env.get("class_def")
        if cd is None or not norm(strip_pre(cd)).startswith("generate_class_def(class_name, class_bases)"):
            if not (cd is not None and "class_bases" in norm(cd)):
                probs.append("class is not created with these bases")
    ctx.check(not probs and bool(outs), key(td, "bases"), "; ".join(sorted(set(probs))) or "no path", td.loc(), okmsg="class bases = sorted mixin fragment classes + @mixin classes")
    outs = Interp(td, lambda e: atom(e, fr=False, eb=False)).run()
    good = bool(outs) and all(norm(o.env.get("class_bases") or ast.Constant(0)) == "[BASE_MODEL_CLASS_NAME]" and not o.muts("class_bases") for o in outs)
    ctx.check(good, key(td, "default base"), "a class without mixins must derive from BaseModel only", td.loc(), okmsg="no mixins: base is BaseModel")


@rule("C08.R2", "a fragment used as a base class somewhere is never excluded from the fragments module", min_instances=1, also=["C04"])
def c08_r2(ctx):
    repo = ctx.repo
    fi = repo.func("client_generators.package:PackageGenerator._generate_fragments")
    calls = calls_named(fi.node, "self.fragments_generator.generate")
    if len(calls) != 1:
        raise AnalysisError("_generate_fragments: fragments_generator.generate call not found")
    ex = kw(calls[0], "exclude_names") or (allargs(calls[0])[0] if allargs(calls[0]) else None)
    # which data flows into the excluded set?  It must subtract every fragment used as mixin by any operation or fragment.
    pg = repo.cls("client_generators.package:PackageGenerator")
    mixin_tracked = False
    for m in pg.methods.values():
        for c in walk_no_nested(m.node):
            if isinstance(c, ast.Call) and isinstance(c.func, ast.Attribute) and c.func.attr == "get_fragments_used_as_mixins":
                mixin_tracked = True
    txt = norm(ex) if ex is not None else "None"
    subtracts = ex is not None and (isinstance(ex, ast.BinOp) and isinstance(ex.op, ast.Sub) or (isinstance(ex, ast.Call) and isinstance(ex.func, ast.Attribute) and ex.func.attr == "difference"))
    good = ex is None or (mixin_tracked and subtracts)
    ctx.check(good, key(fi, f"exclude_names={txt}"),
              f"fragments excluded from fragments.py are `{txt}`: a fragment unpacked by one operation is excluded even when another operation "
              "(or fragment) uses it as a base class and imports it from the fragments module; no mixin usage flows into the exclusion",
              fi.loc(calls[0]), okmsg="exclusion set subtracts fragments used as mixins")
    # the early-return test uses the same set
    tests = [n.test for n in walk_no_nested(fi.node) if isinstance(n, ast.If)]
    ctx.note(f"_generate_fragments guard: {[norm(t)[:90] for t in tests]}")


@rule("C08.R3", "fragment classes are emitted in dependency post-order from sorted roots", min_instances=4, also=["C04", "C01"])
def c08_r3(ctx):
    repo = ctx.repo
    outer = repo.func("client_generators.fragments:FragmentsGenerator._get_sorted_fragments_names")
    if not repo.has_func("client_generators.fragments:FragmentsGenerator._get_sorted_fragments_names.visit"):
        _iterative_toposort(ctx, outer)
        return
    visit = repo.func("client_generators.fragments:FragmentsGenerator._get_sorted_fragments_names.visit")
    p = visit.node.args.args[0].arg
    vname = visit.node.name
    rets = [n for n in outer.node.body if isinstance(n, ast.Return)]
    res_name = rets[0].value.id if len(rets) == 1 and isinstance(rets[0].value, ast.Name) else None
    vis_name = None
    for n in walk_no_nested(visit.node):
        if isinstance(n, ast.Compare) and len(n.ops) == 1 and isinstance(n.ops[0], (ast.In, ast.NotIn)) and is_name(n.left, p) and isinstance(n.comparators[0], ast.Name):
            vis_name = n.comparators[0].id
    if res_name is None or vis_name is None:
        raise AnalysisError("fragment DFS: result list / visited set not identified")
    in_visited = lambda e: (norm(e) == f"{p} in {vis_name}")
    eff = lambda c: (isinstance(c.func, ast.Attribute) and c.func.attr in ("add", "append", "insert", "extend")) or is_name(c.func, vname)
    o = Interp(visit, lambda e: True if in_visited(e) else None, is_effect=eff).run()
    ctx.check(bool(o) and all(not x.effects for x in o), key(visit, "visited"), "an already visited fragment must not be emitted again", visit.loc(), okmsg="visited fragments are skipped")
    o = Interp(visit, lambda e: False if in_visited(e) else None, is_effect=eff).run()
    probs = []
    app = f"{res_name}.append({p})"
    mark = f"{vis_name}.add({p})"
    for x in o:
        effs = [norm(strip_pre(e)) for e in x.effects]
        looped = any("loop body once" in t for t in x.trace)
        if mark not in effs:
            probs.append("the visited set is not updated (cycles would recurse forever)")
        if not effs or effs[-1] != app:
            probs.append(f"the fragment is not appended last (post-order): {effs}")
        elif looped:
            rec = [e for e in effs if e.startswith(vname + "(")]
            if len(rec) != 1 or "dependencies_dict" not in rec[0]:
                probs.append(f"dependencies are not visited: {effs}")
            elif mark in effs and not (effs.index(mark) < effs.index(rec[0]) < effs.index(app)):
                probs.append(f"order must be mark-visited < visit(dep) < append: {effs}")
    if not any(any("loop body once" in t for t in x.trace) for x in o):
        probs.append("no loop over the dependencies")
    ctx.check(not probs, key(visit, "post-order"), "; ".join(sorted(set(probs))), visit.loc(), okmsg="mark visited < visit(dep) < append(name)")
    loops = [n for n in outer.node.body if isinstance(n, ast.For)]
    good = len(loops) == 1 and norm(loops[0].iter) == f"sorted({outer.node.args.args[1].arg})" and len(loops[0].body) == 1 and norm(loops[0].body[0]) == f"{vname}({norm(loops[0].target)})"
    ctx.check(good, key(outer, "roots"), "roots must be visited in sorted order and the post-order list returned", outer.loc(), okmsg="roots sorted, post-order returned")
    cd = repo.func("client_generators.fragments:FragmentsGenerator._get_sorted_class_defs")
    from ..util import comp_struct
    o = [x for x in Interp(cd, lambda e: None).run() if x.kind == "return"]
    cs_ = comp_struct(strip_pre(o[0].deref(o[0].value))) if len(o) == 1 and o[0].value is not None else None
    good = cs_ is not None and cs_[0] == "$1" and len(cs_[1]) == 2 and cs_[1][0][0].startswith("self._get_sorted_fragments_names(") and not cs_[1][0][1] \
        and cs_[1][1] == ("class_defs_dict[$0]", [])
    ctx.check(good, key(cd, "concatenation"), "class definitions are not concatenated in the post-order of their fragments", cd.loc(), okmsg="classes concatenated in fragment post-order")
    gen = repo.func("client_generators.fragments:FragmentsGenerator.generate")
    deps = [st for st in ast.walk(gen.node) if isinstance(st, ast.Assign) and norm(st.targets[0]).startswith("dependencies_dict[")]
    good = len(deps) == 1 and norm(deps[0].value) == "generator.get_fragments_used_as_mixins()"
    ctx.check(good, key(gen, "dependencies"), "the dependency graph is not built from the fragments each fragment uses as base classes", gen.loc(), okmsg="dependency edges = fragments used as mixins")


def _iterative_toposort(ctx, outer: FuncInfo):
    """the recursive post-order DFS was replaced by a loop: recognise the two classic wrong
    iterative forms; anything else cannot be decided statically"""
    rets = [n for n in outer.node.body if isinstance(n, ast.Return)]
    R = rets[0].value.id if len(rets) == 1 and isinstance(rets[0].value, ast.Name) else None
    if R is None:
        raise AnalysisError("_get_sorted_fragments_names: returned list not identified")
    # (1) result built from a reversed pre-order list
    for c in walk_no_nested(outer.node):
        if isinstance(c, ast.Call) and isinstance(c.func, ast.Attribute) and c.func.attr in ("extend", "append") and is_name(c.func.value, R) and c.args:
            a = allargs(c)[0]
            rev = (isinstance(a, ast.Call) and is_name(a.func, "reversed")) or (isinstance(a, ast.Subscript) and isinstance(a.slice, ast.Slice) and isinstance(a.slice.step, ast.UnaryOp))
            if rev:
                src = a.args[0] if isinstance(a, ast.Call) else a.value
                # is the reversed list filled at visit time (right after marking visited)?
                if isinstance(src, ast.Name):
                    for w in walk_no_nested(outer.node):
                        if isinstance(w, ast.While):
                            body = " ; ".join(norm(x) for x in w.body)
                            from ..util import set_marks
                            if f"{src.id}.append(" in body and any(set_marks(x) for x in w.body) and ".pop()" in body:
                                ctx.fail(key(outer, "reverse pre-order"), f"`{R}` is built by reversing a pre-order (visit-time) list: with a shared dependency (A -> B, C ; B -> C) a fragment is emitted before its base class "
                                         "(reverse pre-order is a topological order only for trees)", outer.loc(c))
                                return
    # (2) dependencies are marked visited when pushed, and filtered by that same set, while emission happens later
    for w in walk_no_nested(outer.node):
        if isinstance(w, ast.While):
            for br in ast.walk(w):
                if isinstance(br, ast.If):
                    bt = " ; ".join(norm(x) for x in br.body)
                    from ..util import set_marks
                    marks_ = [(nm_, x) for b_ in br.body for nm_, x in set_marks(b_)]
                    marks = [x for _, x in marks_]
                    pushes = [x for x in ast.walk(br) if isinstance(x, ast.Call) and isinstance(x.func, ast.Attribute) and x.func.attr in ("extend", "append") and any(x is y for b_ in br.body for y in ast.walk(b_))]
                    emits_else = any(isinstance(x, ast.Call) and isinstance(x.func, ast.Attribute) and x.func.attr == "append" and is_name(x.func.value, R) for b_ in br.orelse for x in ast.walk(b_))
                    if marks and pushes and emits_else and f"not in {marks_[0][0]}" in norm(w):
                        ctx.fail(key(outer, "marked when pushed"), f"dependencies are added to `{marks_[0][0]}` when they are pushed and later filtered by the same set, while a node is emitted only when popped: "
                                 "a dependency that is already on the stack below is skipped, so its dependant is emitted first", outer.loc(marks[0]))
                        return
    raise AnalysisError("_get_sorted_fragments_names no longer uses the recursive post-order visit(); the iterative form present is not one the analyser can decide")


@rule("C08.R4", "every @mixin base class is imported and appended to the bases of its own class", min_instances=4, also=["C04"])
def c08_r4(ctx):
    repo = ctx.repo
    fi = repo.func(RT + "_get_extra_bases_from_mixin_directives")
    eff = lambda c: isinstance(c.func, ast.Attribute) and c.func.attr in ("append", "extend")
    allo = Interp(fi, lambda e: True if norm(e) == "node.directives" else None, is_effect=eff).run()
    o = [x for x in allo if any("loop body once" in t for t in x.trace)]
    probs = []
    for x in allo:
        if x not in o and not (x.kind == "return" and not x.effects and isinstance(x.value, ast.Name) and norm(x.env.get(x.value.id) or ast.Constant(0)) == "[]"):
            probs.append(f"a path returns `{x.text()[:80]}` without looking at the node's own @mixin directives (bases remembered from another node?)")
    if len(o) != 1:
        probs.append(f"{len(o)} paths through the directive loop")
    else:
        effs = [norm(strip_pre(e)) for e in o[0].effects]
        # the iterated collection: whatever `<elem>(...)` of the loop ranges over (a local or the expression itself)
        d0 = None
        for e in o[0].effects:
            for n in ast.walk(strip_pre(e)):
                if d0 is None and isinstance(n, ast.Call) and is_name(n.func, "<elem>") and n.args:
                    d0 = n.args[0]
        A = f"self._parse_mixin_arguments(<elem>({norm(d0) if d0 is not None else 'directives'}))"
        dv = strip_pre(o[0].deref(d0)) if isinstance(d0, ast.Name) else (strip_pre(d0) if d0 is not None else None)
        if dv is None or norm(dv) != "[d for d in node.directives if d.name and d.name.value == MIXIN_NAME]":
            probs.append(f"the directives considered are {norm(dv) if dv is not None else None}, expected exactly the @mixin directives of the node")
        imp = f"self._imports.append(generate_import_from(names=[{A}[MIXIN_IMPORT_NAME]], from_={A}[MIXIN_FROM_NAME]))"
        base = f"extra_base_classes.append({A}[MIXIN_IMPORT_NAME])"
        if imp not in effs:
            probs.append(f"the mixin class is not imported from its module: {effs}")
        if base not in effs:
            probs.append(f"the mixin class is not added to the bases: {effs}")
        if not is_name(o[0].value, "extra_base_classes"):
            probs.append("bases are not returned")
    ctx.check(not probs, key(fi, "import+base"), "; ".join(probs), fi.loc(), okmsg="each @mixin: import emitted and class appended to bases")
    mn = _const(ctx, "client_generators.constants", "MIXIN_NAME"), _const(ctx, "client_generators.constants", "MIXIN_FROM_NAME"), _const(ctx, "client_generators.constants", "MIXIN_IMPORT_NAME")
    ctx.check(mn == ("mixin", "from", "import"), key(fi, "constants"), f"mixin directive/argument names are {mn}", fi.loc(), okmsg="@mixin(from:, import:) names")
    init = repo.func(RT + "__init__")
    c = calls_named(init.node, "self._parse_type_definition")
    good = len(c) == 1 and norm(kw(c[0], "extra_bases") or ast.Constant(0)) == "self._get_extra_bases_from_mixin_directives(self.operation_definition)"
    ctx.check(good, key(init, "definition mixins"), "@mixin on the operation/fragment definition does not reach its top-level class", init.loc(), okmsg="definition-level @mixin -> top-level class")
    td = repo.func(RT + "_parse_type_definition")
    c = calls_named(td.node, "self._parse_field_selection_set_types")
    fvar = None
    for lp in td.node.body:
        if isinstance(lp, ast.For):
            t = lp.target
            fvar = t.elts[1].id if isinstance(t, ast.Tuple) else getattr(t, "id", None)
    good = len(c) == 1 and norm(kw(c[0], "extra_bases") or ast.Constant(0)) == f"self._get_extra_bases_from_mixin_directives({fvar})" \
        and norm(kw(c[0], "selection_set") or ast.Constant(0)) == f"{fvar}.selection_set"
    ctx.check(good, key(td, "field mixins"), "@mixin on a field does not reach the class generated for that field", td.loc(), okmsg="field-level @mixin -> that field's class")
    fs = repo.func(RT + "_parse_field_selection_set_types")
    c = calls_named(fs.node, "self._parse_type_definition")
    good = len(c) == 1 and norm(kw(c[0], "extra_bases") or ast.Constant(0)) == "extra_bases"
    ctx.check(good, key(fs, "forward"), "extra bases are not forwarded to the generated class", fs.loc(), okmsg="extra bases forwarded")


# ====================================================================== C02 (result_types part)
GQL_ONLY_ATTRS = {"selections", "directives", "selection_set", "variable_definitions", "type_condition", "definitions", "arguments",
                  "default_value", "operation"}
GQL_AMBIG_ATTRS = {"name", "value", "alias", "type", "fields", "values"}


@rule("C02.R2", "@mixin removal covers every location the directive is declared for, on a deep copy", min_instances=4, also=["C08"])
def c02_r2(ctx):
    repo = ctx.repo
    sch = repo.func("schema:add_mixin_directive_to_schema")
    locs = []
    for c in walk_no_nested(sch.node):
        if isinstance(c, ast.Call) and is_name(c.func, "GraphQLDirective"):
            lv = kw(c, "locations")
            if isinstance(lv, (ast.List, ast.Tuple)):
                for e in lv.elts:
                    if isinstance(e, ast.Attribute):
                        locs.append(e.attr)
    if not locs:
        raise AnalysisError("locations of the @mixin directive not found")
    fi = repo.func(RT + "_get_node_without_mixin_directive")
    handlers = {q.rsplit(".", 1)[1]: f for q, f in fi.module.functions.items() if q.startswith(fi.qualname + ".") and q.count(".") == fi.qualname.count(".") + 2}
    for loc in locs:
        h = "enter_" + loc.lower()
        hf = handlers.get(h)
        if hf is None:
            ctx.fail(key(fi, f"location {loc}"), f"@mixin may appear on {loc} but the removal visitor has no {h} handler: the directive is sent to the server", fi.loc())
            continue
        p = hf.node.args.args[0].arg
        assigns = [st for st in hf.node.body if isinstance(st, ast.Assign) and norm(st.targets[0]) == f"{p}.directives"]
        good = len(assigns) == 1
        if good:
            v = assigns[0].value
            comp = allargs(v)[0] if isinstance(v, ast.Call) and is_name(v.func, "tuple") and allargs(v) else v
            good = isinstance(comp, (ast.GeneratorExp, ast.ListComp)) and norm(comp.elt) == norm(comp.generators[0].target) \
                and [norm(i) for i in comp.generators[0].ifs] == [f"{norm(comp.generators[0].target)}.name.value != MIXIN_NAME"] \
                and norm(comp.generators[0].iter) in (f"{p}.directives or []", f"{p}.directives")
        rets = [n for n in hf.node.body if isinstance(n, ast.Return)]
        good = good and len(rets) == 1 and is_name(rets[0].value, p)
        ctx.check(good, key(hf, "filter"), f"{h} must keep every directive except @mixin and return the node", hf.loc(), okmsg=f"{h}: removes @mixin only")
    o = Interp(fi, lambda e: None).run()
    good = len(o) == 1 and norm(o[0].value) == "deepcopy(node)" and any(norm(c).startswith("visit(copied_node") or norm(c).startswith("visit(") for c in ast.walk(fi.node) if isinstance(c, ast.Call) and is_name(c.func, "visit"))
    vis = [c for c in walk_no_nested(fi.node) if isinstance(c, ast.Call) and is_name(c.func, "visit")]
    good = good and len(vis) == 1 and allargs(vis[0]) and isinstance(allargs(vis[0])[0], ast.Name) and norm(o[0].env.get(allargs(vis[0])[0].id) or ast.Constant(0)) == "deepcopy(node)"
    ctx.check(good, key(fi, "deepcopy"), "the directive must be removed from a deep copy, not from the authored node", fi.loc(), okmsg="removal works on a deep copy")
    # both printed documents go through the removal
    gs = repo.func(RT + "get_operation_as_str")
    vals = _opstr_values(repo, plugin=False, fragments=True)
    pa = [c for v in vals for c in ast.walk(v) if isinstance(c, ast.Call) and dotted(c.func) == "print_ast"]
    good = len(vals) == 1 and len(pa) == 2 and all(allargs(c) and norm(allargs(c)[0]).startswith("self._get_node_without_mixin_directive(") for c in pa)
    ctx.check(good, key(gs, "printed nodes"), f"a printed definition bypasses the @mixin removal: {[norm(v)[:200] for v in vals]}", gs.loc(), okmsg="operation and fragments printed after @mixin removal")



def _join_to_concat(o, v):
    """`SEP.join(parts)` where parts is a local list (display + append / extend) -> the concatenation it denotes, with one
    generic element standing for what a loop / generator contributes"""
    import copy as _copy
    if not (isinstance(v, ast.Call) and isinstance(v.func, ast.Attribute) and v.func.attr == "join" and isinstance(v.func.value, ast.Constant) and isinstance(v.func.value.value, str)
            and len(v.args) == 1 and not v.keywords):
        return v
    sep = v.func.value
    src = v.args[0]
    parts = []

    def from_iterable(e):
        e = strip_pre(e)
        if isinstance(e, (ast.List, ast.Tuple)):
            return list(e.elts)
        if isinstance(e, (ast.GeneratorExp, ast.ListComp)) and len(e.generators) == 1 and not e.generators[0].ifs and isinstance(e.generators[0].target, ast.Name):
            from ..absint import _Subst
            elem = ast.Call(func=ast.Name(id="<elem>", ctx=ast.Load()), args=[e.generators[0].iter], keywords=[])
            return [_Subst({e.generators[0].target.id: elem}, deep=True, force=True).visit(_copy.deepcopy(e.elt))]
        return None
    if isinstance(src, ast.Name):
        base = from_iterable(o.deref(src))
        if base is None:
            return v
        parts += base
        for m in o.muts(src.id):
            m = strip_pre(m)
            if isinstance(m, ast.Call) and isinstance(m.func, ast.Attribute) and m.func.attr == "append" and len(m.args) == 1:
                parts.append(m.args[0])
            elif isinstance(m, ast.Call) and isinstance(m.func, ast.Attribute) and m.func.attr == "extend" and len(m.args) == 1:
                more = from_iterable(m.args[0])
                if more is None:
                    return v
                parts += more
            else:
                return v
    else:
        base = from_iterable(src)
        if base is None:
            return v
        parts = base
    if not parts:
        return v
    out = parts[0]
    for p_ in parts[1:]:
        out = ast.BinOp(left=out, op=ast.Add(), right=ast.BinOp(left=_copy.deepcopy(sep), op=ast.Add(), right=p_))
    return ast.fix_missing_locations(out)


def _opstr_values(repo, plugin: bool, fragments: bool) -> List[ast.expr]:
    """symbolic value(s) of the document returned by get_operation_as_str in one scenario, helpers inlined"""
    from ..absint import inline_helpers
    gs = repo.func(RT + "get_operation_as_str")

    def atom(e):
        t = norm(strip_pre(e))
        if t in ("self.plugin_manager", "self.plugin_manager is not None"):
            return plugin
        if t in ("self._fragments_used_as_mixins or self._unpacked_fragments", "self._fragments_used_as_mixins", "self._unpacked_fragments"):
            return fragments
        return None
    outs = [o for o in Interp(gs, atom).run() if o.kind == "return"]
    if fragments:
        outs = [o for o in outs if not any("loop skipped" in t for t in o.trace)]
    else:
        outs = [o for o in outs if not any("loop body once" in t for t in o.trace)]
    seen = {}
    for o in outs:
        class _J(ast.NodeTransformer):
            def visit_Call(self, node, o=o):
                self.generic_visit(node)
                return _join_to_concat(o, node)
        v = inline_helpers(_J().visit(strip_pre(o.value)), repo, gs, atom)
        seen.setdefault(norm(v), v)
    if not seen:
        raise AnalysisError("get_operation_as_str: no symbolic outcome")
    return list(seen.values())


@rule("C02.R7", "the generate_operation_str hook receives, and replaces, the whole document (operation + fragment definitions) of its own operation", min_instances=3, also=["C15"])
def c02_r7(ctx):
    repo = ctx.repo
    gs = repo.func(RT + "get_operation_as_str")
    plain = [norm(v) for v in _opstr_values(repo, plugin=False, fragments=True)]
    for frs in (True, False):
        vals = _opstr_values(repo, plugin=True, fragments=frs)
        want_doc = [norm(v) for v in _opstr_values(repo, plugin=False, fragments=frs)]
        good = len(vals) == 1 and isinstance(vals[0], ast.Call) and norm(vals[0].func) == "self.plugin_manager.generate_operation_str" and len(allargs(vals[0])) == 2 \
            and [norm(allargs(vals[0])[0])] == want_doc and norm(kw(vals[0], "operation_definition") or ast.Constant(0)) == "self.operation_definition"
        ctx.check(good, key(gs, f"hook over the whole document, fragments={frs}"),
                  f"with plugins the returned document is {[norm(v)[:260] for v in vals]}; it must be hook(<document without plugins>, operation_definition=self.operation_definition): "
                  "a plugin that stores the string it is shown (ExtractOperations) otherwise keeps an operation without its fragment definitions, and the client sends a document with unknown fragments",
                  gs.loc(), okmsg=f"fragments={frs}: returned = hook(whole document, operation_definition=own definition)")
    ctx.check(len(plain) == 1, key(gs, "single document"), f"several document shapes: {plain}", gs.loc(), okmsg="one document shape without plugins")


@rule("C02.R3", "authored GraphQL nodes are only rewritten by the two documented rewrites", min_instances=3)
def c02_r3(ctx):
    repo = ctx.repo
    allowed = {
        ("client_generators.result_types", "ResultTypesGenerator._parse_type_definition", "selection_set.selections"): "__typename insertion",
        ("client_generators.result_types", "ResultTypesGenerator._get_node_without_mixin_directive.RemoveMixinVisitor.enter_field", "node.directives"): "@mixin removal on a deep copy",
        ("client_generators.result_types", "ResultTypesGenerator._get_node_without_mixin_directive.RemoveMixinVisitor.enter_fragment_definition", "node.directives"): "@mixin removal on a deep copy",
        ("schema", "add_mixin_directive_to_schema", "schema.directives"): "declares @mixin on the schema object (not an authored operation node)",
    }
    for fi in repo.all_functions():
        ms = fi.module.short
        if not (ms.startswith("client_generators") or ms.startswith("contrib") or ms in ("schema", "utils", "main")) or ms.startswith("client_generators.dependencies"):
            continue
        gql_params = set()
        for a in fi.node.args.args + fi.node.args.kwonlyargs:
            if a.annotation is not None:
                an = norm(a.annotation)
                if any(tok.endswith("Node") and repo.resolve(fi.module, tok)[0] == "ext" for tok in an.replace("[", " ").replace("]", " ").replace(",", " ").replace('"', " ").split()):
                    gql_params.add(a.arg)
        for n in walk_no_nested(fi.node):
            tgt = None
            if isinstance(n, (ast.Assign,)):
                tgts = []
                for t in n.targets:
                    tgts += list(t.elts) if isinstance(t, (ast.Tuple, ast.List)) else [t]
            elif isinstance(n, (ast.AugAssign, ast.AnnAssign)):
                tgts = [n.target]
            else:
                continue
            for t in tgts:
                if not isinstance(t, ast.Attribute):
                    continue
                root = t.value
                while isinstance(root, (ast.Attribute, ast.Subscript)):
                    root = root.value
                is_gql = t.attr in GQL_ONLY_ATTRS and not (isinstance(root, ast.Name) and root.id == "self") or \
                    (t.attr in GQL_AMBIG_ATTRS and isinstance(root, ast.Name) and root.id in gql_params)
                # python-ast stores: base built by ast.X / generate_* are not graphql nodes
                if not is_gql:
                    continue
                tk = (ms, fi.qualname, norm(t))
                if tk in allowed:
                    ctx.ok(f"{fi.key}: store to {norm(t)} ({allowed[tk]})", fi.loc(n))
                else:
                    ctx.fail(key(fi, f"store {norm(t)}"), f"an authored GraphQL node is modified ({norm(t)} = ...): the sent document would differ from the written one", fi.loc(n))


@rule("C02.R4", "the fragment definitions sent are the recursive closure of the spreads", min_instances=5)
def c02_r4(ctx):
    repo = ctx.repo
    fi = repo.func(RT + "_get_fragments_names")
    lp = [n for n in fi.node.body if isinstance(n, ast.For)]
    if len(lp) != 1 or norm(lp[0].iter) != "selection_set.selections":
        raise AnalysisError("_get_fragments_names: loop over selections not found")
    el = "<elem>(selection_set.selections)"

    def mk(kind, has_sel=True):
        def atom(e):
            t = norm(strip_pre(e))
            if t == f"isinstance({el}, FragmentSpreadNode)":
                return kind == "spread"
            if t == f"isinstance({el}, (FieldNode, InlineFragmentNode))":
                return kind in ("field", "inline")
            if t == f"isinstance({el}, FieldNode)":
                return kind == "field"
            if t == f"isinstance({el}, InlineFragmentNode)":
                return kind == "inline"
            if t == f"{el}.selection_set":
                return has_sel
            return None
        return atom
    from ..util import union_terms

    def terms(fn, atom):
        o = [x for x in Interp(fn, atom).run() if x.kind == "return" and any("loop body once" in t for t in x.trace)]
        if len(o) != 1 or o[0].value is None:
            return None
        return union_terms(o[0].deref(o[0].value))
    nm = f"{el}.name.value"
    t = terms(fi, mk("spread"))
    ctx.check(t == sorted(["{" + nm + "}", f"self._get_fragments_names(self.fragments_definitions[{nm}].selection_set)"]), key(fi, "spread"),
              f"a spread must contribute its own name and, recursively, the spreads of its definition; it contributes {t}", fi.loc(), okmsg="spread: name + recursive closure of its definition")
    for kind in ("field", "inline"):
        t = terms(fi, mk(kind))
        ctx.check(t == [f"self._get_fragments_names({el}.selection_set)"], key(fi, kind), f"the selection set of a nested {kind} is not searched for spreads (contributes {t})", fi.loc(), okmsg=f"{kind}: nested selection set searched")
    ar = repo.func(RT + "_get_all_related_fragments")
    t = terms(ar, lambda e: None)
    want = sorted(["self._fragments_used_as_mixins.copy()", "self._unpacked_fragments", "self._get_fragments_names(self.fragments_definitions[<elem>(self._fragments_used_as_mixins)].selection_set)"])
    ctx.check(t == want, key(ar, "closure"), f"related fragments must be mixins + their recursive spreads + unpacked fragments; got {t}", ar.loc(), okmsg="closure = mixins U closure(mixins) U unpacked")
    gs = repo.func(RT + "get_operation_as_str")
    op_txt = "print_ast(self._get_node_without_mixin_directive(self.operation_definition))"
    frag_txt = "print_ast(self._get_node_without_mixin_directive(self.fragments_definitions[<elem>(sorted(self._get_all_related_fragments()))]))"
    from ..util import concat_parts
    docs = _opstr_values(repo, plugin=False, fragments=True)
    vals = [norm(v) for v in docs]
    ctx.check(len(docs) == 1 and concat_parts(docs[0]) == [op_txt, "'\\n\\n'", frag_txt], key(gs, "definitions appended"),
              f"one printed definition per related fragment (sorted closure) must follow the operation, separated by a blank line; the document is {vals}", gs.loc(), okmsg="each related fragment definition appended once, in sorted order")
    vals0 = [norm(v) for v in _opstr_values(repo, plugin=False, fragments=False)]
    ctx.check(vals0 == [op_txt], key(gs, "operation printed"), f"without fragments the document must be print_ast of the operation definition; it is {vals0}", gs.loc(), okmsg="operation text = print_ast(definition)")
    cond = [n for n in walk_no_nested(gs.node) if isinstance(n, ast.If) and any(isinstance(x, ast.For) for x in n.body)]
    ctx.check(all(norm(n.test) == "self._fragments_used_as_mixins or self._unpacked_fragments" for n in cond), key(gs, "fragment condition"),
              f"fragment definitions are appended under `{[norm(n.test) for n in cond]}`", gs.loc(), okmsg="definitions appended whenever a fragment is used as mixin or unpacked")


@rule("C01.R11", "inline fragments of an abstract field are collected through fragment spreads at every depth", min_instances=3, also=["C05", "C08"])
def c01_r11(ctx):
    repo = ctx.repo
    fi = repo.func("client_generators.result_fields:get_inline_fragments_from_selection_set")
    el = None

    def mk(kind):
        def atom(e):
            ee = strip_pre(e)
            t = norm(ee)
            if t in ("selection_set", "selection_set is not None"):
                return True
            if isinstance(ee, ast.Call) and is_name(ee.func, "isinstance") and len(ee.args) == 2 and norm(ee.args[0]).startswith("<elem>("):
                k = norm(ee.args[1])
                if k in ("InlineFragmentNode", "FragmentSpreadNode", "FieldNode"):
                    return k == kind
            return None
        return atom

    def contributions(kind):
        outs = [o for o in Interp(fi, mk(kind)).run() if o.kind == "return" and any("loop body once" in t for t in o.trace)]
        if len(outs) != 1 or o_name(outs[0]) is None:
            return None
        o = outs[0]
        return [norm(strip_pre(m)) for m in o.muts(o_name(o))], o

    def o_name(o):
        return o.value.id if isinstance(o.value, ast.Name) else None
    r = contributions("InlineFragmentNode")
    if r is None:
        raise AnalysisError("get_inline_fragments_from_selection_set: the accumulating loop over the selections was not recognised")
    muts, o = r
    name = o_name(o)
    elem = next((m[len(name) + len(".append("):-1] for m in muts if m.startswith(f"{name}.append(")), None)
    ctx.check(len(muts) == 1 and elem is not None and elem.startswith("<elem>(selection_set.selections"), key(fi, "inline"), f"an inline fragment of the selection set must be collected itself; contributions: {muts}", fi.loc(),
              okmsg="inline fragment -> collected")
    r = contributions("FragmentSpreadNode")
    muts = r[0] if r else []
    rec = [m for m in muts if f"{fi.node.name}(" in m]
    good = len(muts) == 1 and len(rec) == 1 and ".name.value].selection_set" in rec[0] and "fragments_definitions" in rec[0]
    ctx.check(good, key(fi, "spread"), f"a fragment spread must contribute the inline fragments of its definition's selection set *recursively* (a spread inside that fragment can carry inline fragments too); "
              f"contributions: {muts}", fi.loc(), okmsg="spread -> recursive collection from the fragment definition")
    r = contributions("FieldNode")
    ctx.check(r is not None and r[0] == [], key(fi, "field"), f"a plain field must not contribute: {r[0] if r else None}", fi.loc(), okmsg="field -> nothing")
    # the caller uses it for the field's own selection set
    pi = repo.func("client_generators.result_fields:parse_interface_type")
    cs = calls_named(pi.node, "get_inline_fragments_from_selection_set")
    good = len(cs) == 1 and norm(argv(cs[0], 0, "selection_set") or ast.Constant(0)).endswith("field_node.selection_set") and "fragments_definitions" in norm(argv(cs[0], 1, "fragments_definitions") or ast.Constant(0))
    ctx.check(good, key(pi, "caller"), "parse_interface_type does not collect the inline fragments of the field's own selection set", pi.loc(), okmsg="interface fields: inline fragments of the field's selection set")


# ---------------------------------------------------------------------- C01.R12
@rule("C01.R12", "an interface field gets one class per type condition found among its inline fragments AND its spreads of fragments on subtypes", min_instances=6,
      also=["C08", "C05"])
def c01_r12(ctx):
    from ..util import seq_terms
    repo = ctx.repo
    fi = repo.func(RF + "parse_interface_type")
    srcs = {"get_inline_fragments_from_selection_set": "inline", "get_fragments_on_subtype": "spread"}

    def which(e):
        e = strip_pre(e)
        if isinstance(e, ast.Name) and e.id in ("inline_fragments", "fragments_on_subtypes"):
            return "inline" if e.id == "inline_fragments" else "spread"
        if isinstance(e, ast.Call) and dotted(e.func) in srcs:
            return srcs[dotted(e.func)]
        return None

    def mk(inline, spread):
        def atom(e):
            w = which(e)
            if w is not None:
                return inline if w == "inline" else spread
            return None
        return atom
    eff = lambda c: norm(c.func) in ("context.related_classes.append", "context.related_classes.extend")
    for inline, spread in ((True, False), (False, True), (True, True)):
        outs = [o for o in Interp(fi, mk(inline, spread), is_effect=eff).run() if o.kind == "return" and not any("loop skipped" in t for t in o.trace)]
        sc = f"inline={'yes' if inline else 'no'} spreads-on-subtypes={'yes' if spread else 'no'}"
        good = bool(outs) and all(isinstance(strip_pre(o.value), ast.Call) and dotted(strip_pre(o.value).func) == "generate_union_annotation" for o in outs)
        ctx.check(good, key(fi, sc), f"[{sc}] the field is not typed as the union of per-type classes: {[o.text()[:100] for o in outs]}", fi.loc(), okmsg=f"[{sc}] -> union of per-type classes")
        if not good or not (inline and spread):
            continue
        o = outs[0]
        # the type conditions: the comprehension(s) that read `.type_condition.name.value`, wherever they are bound
        comps = [n for n in ast.walk(fi.node) if isinstance(n, (ast.SetComp, ast.ListComp, ast.GeneratorExp)) and "type_condition.name.value" in norm(n.elt)]
        if not comps:
            raise AnalysisError("parse_interface_type: no collection of the fragments' type conditions found")
        envn = {st.targets[0].id: st.value for st in ast.walk(fi.node) if isinstance(st, ast.Assign) and len(st.targets) == 1 and isinstance(st.targets[0], ast.Name)}
        used = set()
        for c in comps:
            for g in c.generators:
                work, seen_ = [g.iter], 0
                while work and seen_ < 20:
                    seen_ += 1
                    n0 = work.pop()
                    for n in ast.walk(n0):
                        w = which(n) if isinstance(n, (ast.Name, ast.Call)) else None
                        if w:
                            used.add(w)
                        elif isinstance(n, ast.Name) and n.id in envn and n.id not in ("inline_fragments", "fragments_on_subtypes"):
                            work.append(envn[n.id])
                if isinstance(strip_pre(g.iter), ast.BoolOp):
                    used.add("<or>")
        ctx.check(used == {"inline", "spread"}, key(fi, "type conditions"), f"the per-type classes are derived from {sorted(used)} only: with `... on A {{..}}` next to `...FragmentOnB` one of the member types gets no class, "
                  "so its payloads are validated against the interface's base class and the fragment's fields are lost", fi.loc(), okmsg="type conditions = inline fragments + fragments on subtypes")
        from .determinism import parents_of as _parents_of
        par = _parents_of(fi)
        srt = all(isinstance(par.get(id(c)), ast.Call) and is_name(par.get(id(c)).func, "sorted") for c in comps)
        ctx.check(srt, key(fi, "sorted"), "the type-condition names are not sorted (class order would follow set iteration order)", fi.loc(), okmsg="type-condition names sorted")
        # one RelatedClassData(class_name + T, type_name=T) per type condition T reaches context.related_classes
        from ..util import comp_struct as _cs
        per = False
        for e in o.effects:
            e = strip_pre(e)
            a0 = allargs(e)[0] if isinstance(e, ast.Call) and allargs(e) else None
            if isinstance(e, ast.Call) and isinstance(e.func, ast.Attribute) and e.func.attr == "append" and isinstance(a0, ast.Call) and is_name(a0.func, "RelatedClassData"):
                cn, tn = kw(a0, "class_name"), kw(a0, "type_name")
                from ..absint import subst as _sb3
                cn = strip_pre(_sb3(cn, o.env, deep=True)) if cn is not None else None
                tn = strip_pre(_sb3(tn, o.env, deep=True)) if tn is not None else None
                if cn is not None and tn is not None and "<elem>" in norm(tn) and norm(cn) in (f"class_name + {norm(tn)}", f"f'{{class_name}}{{{norm(tn)}}}'"):
                    per = True
            if isinstance(e, ast.Call) and isinstance(e.func, ast.Attribute) and e.func.attr == "extend" and isinstance(a0, (ast.GeneratorExp, ast.ListComp)):
                cs = _cs(a0)
                if cs is not None and cs[0] in ("RelatedClassData(class_name=class_name + $0, type_name=$0)", "RelatedClassData(class_name=f'{class_name}{$0}', type_name=$0)") and "type_condition.name.value" in str(cs[1][0][0]):
                    per = True
        ctx.check(per, key(fi, "related class"), f"no RelatedClassData(class_name + <type>, type_name=<type>) is recorded per type condition: {[norm(strip_pre(e))[:90] for e in o.effects]}", fi.loc(),
                  okmsg="per type condition: RelatedClassData(class_name + type, type)")
    outs = [o for o in Interp(fi, mk(False, False), is_effect=eff).run() if o.kind == "return"]
    good = bool(outs) and all(isinstance(strip_pre(o.value), ast.Call) and dotted(strip_pre(o.value).func) == "generate_annotation_name" for o in outs)
    ctx.check(good, key(fi, "no fragments"), f"without fragments the field must be typed by the single class: {[o.text()[:100] for o in outs]}", fi.loc(), okmsg="no fragments -> single class")


# ---------------------------------------------------------------------- C08.R5
@rule("C08.R5", "the @mixin directive is declared repeatable, on fields and fragment definitions, with the two string arguments the generator reads", min_instances=6,
      also=["C02", "C04", "C17"])
def c08_r5(ctx):
    repo = ctx.repo
    fi = repo.func("schema:add_mixin_directive_to_schema")
    ds = [c for c in walk_no_nested(fi.node) if isinstance(c, ast.Call) and is_name(c.func, "GraphQLDirective")]
    if len(ds) != 1:
        raise AnalysisError(f"add_mixin_directive_to_schema: {len(ds)} GraphQLDirective constructions")
    d = ds[0]
    ctx.check(norm(kw(d, "name") or ast.Constant(0)) in ("MIXIN_NAME", "'mixin'"), key(fi, "name"), f"the directive is named {norm(kw(d, 'name') or ast.Constant(0))}", fi.loc(d), okmsg="directive name = mixin")
    rep = kw(d, "is_repeatable")
    ctx.check(is_const(rep, True), key(fi, "repeatable"), "the @mixin directive is not declared repeatable: an operation that puts two @mixin directives on one field or fragment definition "
              "(documented, and used by the project's own example queries) is rejected as invalid for the schema", fi.loc(d), okmsg="is_repeatable=True")
    lv = kw(d, "locations")
    locs = sorted(e.attr for e in getattr(lv, "elts", []) if isinstance(e, ast.Attribute))
    ctx.check(locs == ["FIELD", "FRAGMENT_DEFINITION"], key(fi, "locations"), f"@mixin is declared for {locs}; the generator reads it on fields and on fragment definitions "
              "(a missing location makes documented operations invalid, an extra one is never removed before sending)", fi.loc(d), okmsg="locations = FIELD, FRAGMENT_DEFINITION")
    av = kw(d, "args")
    keys = sorted(norm(k) for k in getattr(av, "keys", []) if k is not None)
    types_ok = isinstance(av, ast.Dict) and all(isinstance(v, ast.Call) and is_name(v.func, "GraphQLArgument") and norm(argv(v, 0, "type_") or ast.Constant(0)) == "GraphQLString" for v in av.values)
    ctx.check(keys in (["'from'", "'import'"], ["MIXIN_FROM_NAME", "MIXIN_IMPORT_NAME"]) and types_ok, key(fi, "arguments"),
              f"@mixin arguments are {keys} (String: {types_ok}); _parse_mixin_arguments reads `from` and `import` string values", fi.loc(d), okmsg="arguments: from / import, both String")
    # declared once: an existing declaration is kept
    def declared(v):
        def atom(e):
            t = str(norm(strip_pre(e)))
            if t.startswith(("MIXIN_NAME not in ", "'mixin' not in ")):
                return not v
            if t.startswith(("MIXIN_NAME in ", "'mixin' in ")):
                return v
            return None
        return atom
    sp = fi.node.args.args[0].arg
    effd = lambda c: is_name(c.func, "<setattr>")
    outs = Interp(fi, declared(True), is_effect=effd).run()
    ctx.check(bool(outs) and all(o.kind == "return" and is_name(strip_pre(o.value), sp) and not o.effects for o in outs), key(fi, "idempotent"),
              f"a schema that already declares @mixin is not returned unchanged: {[o.text()[:80] for o in outs]}", fi.loc(), okmsg="already declared -> schema returned unchanged")
    outs = Interp(fi, declared(False), is_effect=effd).run()
    good = bool(outs) and all(o.kind == "return" and is_name(strip_pre(o.value), sp) for o in outs)
    for o in outs:
        good = good and any("'directives'" in norm(strip_pre(e)) and "GraphQLDirective(" in norm(strip_pre(e)) and f"{sp}.directives" in norm(strip_pre(e)) for e in o.effects)
    adds = [st for st in fi.node.body if (isinstance(st, ast.AugAssign) and isinstance(st.op, ast.Add) and norm(st.target) == f"{sp}.directives" and "GraphQLDirective(" in norm(st.value)) or
            (isinstance(st, ast.Assign) and norm(st.targets[0]) == f"{sp}.directives" and "GraphQLDirective(" in norm(st.value) and f"{sp}.directives" in norm(st.value))]
    good = good and len(adds) == 1      # a top-level statement of the function: on every path that gets past the guard
    ctx.check(good, key(fi, "declares"), f"a schema without @mixin must get the directive ADDED to its own directives and be returned: {[o.text()[:120] for o in outs]}", fi.loc(),
              okmsg="not declared -> directive appended to schema.directives, schema returned")


# ---------------------------------------------------------------------- C01.R13
@rule("C01.R13", "fragments spread on an abstract field are attributed to it exactly when their type is a possible type of the field's type", min_instances=6,
      also=["C08", "C05"])
def c01_r13(ctx):
    repo = ctx.repo
    fi = repo.func(RF + "get_fragments_on_subtype")
    eff = lambda c: isinstance(c.func, ast.Attribute) and c.func.attr in ("append", "extend", "add")

    def mk(has_sel=True, root_known=True, abstract=True, is_spread=True, frag_type_known=True, is_sub=True):
        def atom(e):
            t = norm(strip_pre(e))
            if t == "selection_set":
                return has_sel
            if t == "not selection_set":
                return not has_sel
            if t in ("schema.get_type(root_type) is None", "root_type_def is None"):
                return not root_known
            if t in ("schema.get_type(root_type) is not None", "root_type_def is not None", "schema.get_type(root_type)", "root_type_def"):
                return root_known
            if t.startswith("is_abstract_type("):
                return abstract
            if t.startswith("isinstance(") and t.endswith(", FragmentSpreadNode)"):
                return is_spread
            if t.startswith("schema.is_sub_type(") or ".is_sub_type(" in t and t.endswith(")") and not t.startswith("not "):
                return is_sub
            if t.startswith("schema.get_type(") and "type_condition" in t or t == "fragment_root_type_def":
                return frag_type_known
            if t.endswith(".selections"):
                return True
            return None
        return atom

    def fragments_added(outs):
        res = set()
        for o in outs:
            if o.kind != "return":
                res.add("raise")
                continue
            if any("loop skipped" in t for t in o.trace):
                continue
            v = strip_pre(o.deref(o.value)) if isinstance(o.value, ast.Name) else strip_pre(o.value)
            muts = o.muts(o.value.id) if isinstance(o.value, ast.Name) else []
            if o.value is None or is_const(o.value, None):
                res.add("returns None")
                continue
            added = bool(muts) or (isinstance(v, (ast.ListComp,))) or (isinstance(v, ast.List) and bool(v.elts))
            res.add(added)
        return res
    rows = [("spread of a fragment on a possible type", dict(), {True}),
            ("spread of a fragment on an unrelated type", dict(is_sub=False), {False}),
            ("fragment type unknown to the schema", dict(frag_type_known=False, is_sub=False), {False}),
            ("selection that is no fragment spread", dict(is_spread=False), {False}),
            ("field type is not abstract", dict(abstract=False), {False, None}),
            ("no selection set", dict(has_sel=False), {False, None})]
    for label, kwargs, want in rows:
        outs = Interp(fi, mk(**kwargs), is_effect=eff).run()
        got = fragments_added(outs)
        if label in ("field type is not abstract", "no selection set"):
            good = bool(outs) and all(o.kind == "return" and not o.effects and norm(strip_pre(o.value)) in ("[]", "list()") for o in outs)
        else:
            good = bool(got) and got <= want and "raise" not in got
        ctx.check(good, key(fi, label), f"[{label}] fragment attributed: {sorted(map(str, got))}, outcomes {[o.text()[:80] for o in outs][:3]}; expected {sorted(map(str, want))}: "
                  "a fragment on a member type must give that member its own class; anything else must not", fi.loc(), okmsg=f"[{label}] -> {'attributed' if want == {True} else 'not attributed'}")
