"""C16: the graphqlschema strategy reproduces the schema (shape of the emitted constructors)."""
from __future__ import annotations

import ast
from typing import Dict, List, Optional, Set, Tuple

from ..absint import Interp
from ..model import AnalysisError, FuncInfo, dotted, norm, walk_no_nested
from ..report import rule
from ..shape import (Alt, Attr, CallV, Index, ListOf, Lit, LoopVar, Node, Param, Rep, Seq, Shaper, Star, V, alts, chain, is_lit, nodes, seq_items)
from ..util import allargs, argv, calls_named, cfg_of, is_const, is_name, key, kw, site_packages_source, strip_pre

GS = "graphql_schema_generators."
NON_SDL = {"resolve", "subscribe", "is_type_of", "resolve_type", "serialize", "parse_value", "parse_literal", "out_name", "out_type",
           "extensions", "ast_node", "extension_ast_nodes", "assume_valid"}

GENERATORS = [
    # emitted constructor, generator function, parameter holding the translated object
    ("GraphQLScalarType", GS + "named_types:generate_scalar_type", "type_"),
    ("GraphQLObjectType", GS + "named_types:generate_object_type", "type_"),
    ("GraphQLInterfaceType", GS + "named_types:generate_interface_type", "type_"),
    ("GraphQLUnionType", GS + "named_types:generate_union_type", "type_"),
    ("GraphQLEnumType", GS + "named_types:generate_enum_type", "type_"),
    ("GraphQLInputObjectType", GS + "named_types:generate_input_object_type", "type_"),
    ("GraphQLField", GS + "fields:generate_field", "field"),
    ("GraphQLArgument", GS + "fields:generate_arg", "arg"),
    ("GraphQLEnumValue", GS + "fields:generate_enum_value", "value"),
    ("GraphQLInputField", GS + "fields:generate_input_field", "input_field"),
    ("GraphQLDirective", GS + "directives:generate_directive", "directive"),
    ("GraphQLSchema", GS + "schema:generate_schema", "schema"),
]
NON_SDL_PER_CTOR = {
    ("GraphQLDirective", "deprecation_reason"): "the installed parser rejects @deprecated on a directive definition: not expressible in SDL",
}
RENAMED = {  # constructor keyword -> attribute of the source object
    ("GraphQLSchema", "query"): "query_type", ("GraphQLSchema", "mutation"): "mutation_type", ("GraphQLSchema", "subscription"): "subscription_type",
    ("GraphQLSchema", "types"): None,  # all entries of the generated type map
}


def _to_kwargs_oracle() -> Dict[str, Set[str]]:
    """constructor keyword names per graphql-core class, read from each class's to_kwargs()"""
    out: Dict[str, Set[str]] = {}
    for rel in (("type", "definition.py"), ("type", "directives.py"), ("type", "schema.py")):
        path, src = site_packages_source("graphql", *rel)
        tree = ast.parse(src)
        classes = {n.name: n for n in tree.body if isinstance(n, ast.ClassDef)}

        def keys(cname, seen=()):
            c = classes.get(cname)
            if c is None or cname in seen:
                return set()
            for m in c.body:
                if isinstance(m, ast.FunctionDef) and m.name == "to_kwargs":
                    ks: Set[str] = set()
                    for call in ast.walk(m):
                        if isinstance(call, ast.Call) and isinstance(call.func, ast.Name) and call.func.id.endswith("Kwargs"):
                            for k in call.keywords:
                                if k.arg:
                                    ks.add(k.arg)
                                elif isinstance(k.value, ast.Call) and "super().to_kwargs" in norm(k.value):
                                    for b in c.bases:
                                        if isinstance(b, ast.Name):
                                            ks |= keys(b.id, seen + (cname,))
                            for a_ in call.args:
                                if isinstance(a_, ast.Call) and "super().to_kwargs" in norm(a_):
                                    for b in c.bases:
                                        if isinstance(b, ast.Name):
                                            ks |= keys(b.id, seen + (cname,))
                    return ks
            ks = set()
            for b in c.bases:
                if isinstance(b, ast.Name):
                    ks |= keys(b.id, seen + (cname,))
            return ks
        for cname in classes:
            if cname.startswith("GraphQL") and not cname.endswith("Kwargs"):
                k = keys(cname)
                if k:
                    out[cname] = k
    if len(out) < 10:
        raise AnalysisError("oracle: to_kwargs of graphql-core type classes not found")
    return out


def _emitted_call(ctx, ctor: str, fk: str):
    fi = ctx.repo.func(fk)
    sh = Shaper(ctx.repo, inline_all=True, max_depth=6)
    v = sh.call_function(fi)
    outs = [n for x in alts(v) for n in [x] if isinstance(n, Node) and n.kind == "Call" and isinstance(n.get("func"), Node) and is_lit(n.get("func").get("id"), ctor)]
    if len(outs) != 1:
        raise AnalysisError(f"{fk}: emitted {ctor}(...) call not identified ({v!r})"[:300])
    return fi, outs[0]


def _kwmap(call: Node) -> Dict[str, V]:
    out = {}
    for k in seq_items(call.get("keywords")):
        if isinstance(k, Node) and k.kind == "keyword" and isinstance(k.get("arg"), Lit):
            out[k.get("arg").value] = k.get("value")
    return out


@rule("C16.R1", "every emitted constructor passes all SDL-relevant keywords of its graphql-core class", min_instances=12)
def c16_r1(ctx):
    oracle = _to_kwargs_oracle()
    for ctor, fk, param in GENERATORS:
        fi, call = _emitted_call(ctx, ctor, fk)
        need = oracle.get(ctor)
        if need is None:
            raise AnalysisError(f"oracle: no to_kwargs for {ctor}")
        emitted = set(_kwmap(call))
        if seq_items(call.get("args")):
            emitted.add("type_")
        missing = sorted(k for k in need - NON_SDL - emitted if (ctor, k) not in NON_SDL_PER_CTOR)
        extra = sorted(emitted - need)
        for m in missing:
            ctx.fail(key(fi, f"{ctor} keyword {m}"), f"the emitted {ctor}(...) call omits `{m}` (a constructor keyword of the installed graphql-core that is visible in SDL): "
                     f"a schema using it is not reproduced", fi.loc())
        if extra:
            ctx.fail(key(fi, f"{ctor} unknown keywords"), f"the emitted {ctor}(...) passes {extra}, which the installed graphql-core does not accept", fi.loc())
        if not missing and not extra:
            ctx.ok(f"{ctor}: emitted keywords {sorted(emitted)} cover graphql-core's {sorted(need - NON_SDL)}", fi.loc())


def _mentions(v: V, text: str) -> bool:
    return any(chain(x).startswith(text) for x in v.walk() if isinstance(x, (Attr, Param, LoopVar, Index)))


@rule("C16.R2", "every emitted keyword takes its value from the like-named attribute of the translated object", min_instances=40)
def c16_r2(ctx):
    for ctor, fk, param in GENERATORS:
        fi, call = _emitted_call(ctx, ctor, fk)
        km = dict(_kwmap(call))
        args = seq_items(call.get("args"))
        if args:
            km["type_"] = args[0]
        for k, v in sorted(km.items()):
            attr = RENAMED.get((ctor, k), "type" if k == "type_" else k)
            if attr is None:
                good = _mentions(v, "$type_map_name")
                ctx.check(good, key(fi, f"{ctor}.{k}"), f"{ctor}({k}=...) is not built from the generated type map", fi.loc(), okmsg=f"{ctor}.{k} <- all generated types")
                continue
            want = f"${param}.{attr}"
            good = _mentions(v, want)
            # plain values must pass through generate_constant unchanged: Constant(value=$obj.attr)
            if good and isinstance(v, Node) and v.kind == "Constant":
                good = chain(v.get("value")) == want
            ctx.check(good, key(fi, f"{ctor}.{k}"), f"{ctor}({k}=...) is emitted as {v!r}"[:260] + f"; expected the value of {want}", fi.loc(), okmsg=f"{ctor}.{k} <- {want}")
    # names: map keys are the GraphQL names
    for fk, what in ((GS + "fields:generate_field_map", "fields"), (GS + "fields:generate_args", "args"), (GS + "fields:generate_enum_values", "values"),
                     (GS + "fields:generate_input_field_map", "input_fields"), (GS + "schema:generate_type_map", "type_map")):
        fi = ctx.repo.func(fk)
        src = fi.node.args.args[0].arg
        loops = [n for n in walk_no_nested(fi.node) if isinstance(n, ast.For)]
        good = False
        if len(loops) == 1 and norm(loops[0].iter) == f"{src}.items()" and isinstance(loops[0].target, ast.Tuple):
            # loop form: for name, item in src.items(): d.keys.append(generate_constant(name)); d.values.append(f(item, ...))
            kn, vn = norm(loops[0].target.elts[0]), norm(loops[0].target.elts[1])
            apps = [c for c in ast.walk(loops[0]) if isinstance(c, ast.Call) and isinstance(c.func, ast.Attribute) and c.func.attr == "append" and allargs(c)]
            ks = [c for c in apps if norm(c.func.value).endswith(".keys")]
            vs = [c for c in apps if norm(c.func.value).endswith(".values")]
            good = len(ks) == 1 and len(vs) == 1 and isinstance(allargs(ks[0])[0], ast.Call) and dotted(allargs(ks[0])[0].func) == "generate_constant" \
                and norm(allargs(allargs(ks[0])[0])[0]) == kn and any(isinstance(x, ast.Name) and x.id == vn for x in ast.walk(allargs(vs[0])[0]))
        else:
            # comprehension form: generate_dict(keys=[generate_constant(n) for n in src], values=[f(v, ...) for v in src.values()])
            gd = [c for c in walk_no_nested(fi.node) if isinstance(c, ast.Call) and dotted(c.func) == "generate_dict" and isinstance(kw(c, "keys"), ast.ListComp) and isinstance(kw(c, "values"), ast.ListComp)]
            if len(gd) == 1:
                kc, vc = kw(gd[0], "keys"), kw(gd[0], "values")
                env = {st.targets[0].id: st.value for st in walk_no_nested(fi.node) if isinstance(st, ast.Assign) and len(st.targets) == 1 and isinstance(st.targets[0], ast.Name)}
                def same_source(a, b):
                    ta, tb = norm(a), norm(b)
                    base = ta[:-len(".values()")] if ta.endswith(".values()") else ta[:-len(".items()")] if ta.endswith(".items()") else ta
                    return base == tb or base == tb[:-len(".items()")] if tb.endswith(".items()") else base == tb
                ksrc = kc.generators[0].iter
                vsrc = vc.generators[0].iter
                root = norm(ksrc)
                filt = env.get(root)
                ok_src = root == src or (isinstance(filt, ast.DictComp) and norm(filt.generators[0].iter) == f"{src}.items()" and norm(filt.key) == norm(filt.generators[0].target.elts[0])
                                         and norm(filt.value) == norm(filt.generators[0].target.elts[1]))
                good = ok_src and len(kc.generators) == 1 and len(vc.generators) == 1 and not kc.generators[0].ifs and not vc.generators[0].ifs \
                    and isinstance(kc.elt, ast.Call) and dotted(kc.elt.func) == "generate_constant" and norm(allargs(kc.elt)[0]) == norm(kc.generators[0].target) \
                    and norm(vsrc) == f"{root}.values()" and any(isinstance(x, ast.Name) and x.id == norm(vc.generators[0].target) for x in ast.walk(vc.elt))
        ctx.check(good, key(fi, "entries"), f"{fi.qualname} does not emit one entry per item keyed by its GraphQL name", fi.loc(), okmsg=f"{fi.qualname}: one entry per item, keyed by name")


@rule("C16.R3", "all kinds of named types and type references are translated", min_instances=3)
def c16_r3(ctx):
    repo = ctx.repo
    path, src = site_packages_source("graphql", "type", "definition.py")
    tree = ast.parse(src)
    named = sorted(n.name for n in tree.body if isinstance(n, ast.ClassDef) and any(isinstance(b, ast.Name) and b.id == "GraphQLNamedType" for b in n.bases))
    if len(named) < 6:
        raise AnalysisError("oracle: subclasses of GraphQLNamedType not found")
    fi = repo.func(GS + "named_types:generate_named_type")
    d = [n for n in walk_no_nested(fi.node) if isinstance(n, ast.Dict) and len(n.keys) >= 4]
    keys = sorted(norm(k) for k in d[0].keys) if d else []
    ctx.check(keys == named, key(fi, "dispatch"), f"named-type dispatch covers {keys}, graphql-core defines {named}", fi.loc(), okmsg=f"dispatch covers the {len(named)} named type classes")
    pairs = {norm(k): norm(v) for k, v in zip(d[0].keys, d[0].values)} if d else {}
    want = {"GraphQLScalarType": "generate_scalar_type", "GraphQLObjectType": "generate_object_type", "GraphQLInterfaceType": "generate_interface_type",
            "GraphQLUnionType": "generate_union_type", "GraphQLEnumType": "generate_enum_type", "GraphQLInputObjectType": "generate_input_object_type"}
    ctx.check(pairs == want, key(fi, "dispatch targets"), f"dispatch table is {pairs}", fi.loc(), okmsg="each class dispatches to its own generator")
    ft = repo.func(GS + "fields:generate_field_type")
    tests = [norm(allargs(n)[1]) for n in walk_no_nested(ft.node) if isinstance(n, ast.Call) and is_name(n.func, "isinstance") and len(allargs(n)) == 2]
    flat = " ".join(tests)
    good = all(k in flat for k in named + ["GraphQLList", "GraphQLNonNull"])
    ctx.check(good, key(ft, "kinds"), f"type references handle {tests}", ft.loc(), okmsg="type references: all named kinds, List and NonNull")
    from .typemap import _kind_atom
    tup = lambda t: False if t.startswith("isinstance(type_, (") else None
    o = Interp(ft, _kind_atom("type_", "GraphQLList", tup)).run()
    ctx.check(len(o) == 1 and norm(o[0].value) == "generate_call(func=generate_name('GraphQLList'), args=[generate_field_type(type_.of_type, type_map_name)])", key(ft, "list"), f"List reference: {[x.text() for x in o]}", ft.loc(), okmsg="List -> GraphQLList(<inner>)")
    o = Interp(ft, _kind_atom("type_", "GraphQLNonNull", tup)).run()
    ctx.check(len(o) == 1 and norm(o[0].value) == "generate_call(func=generate_name('GraphQLNonNull'), args=[generate_field_type(type_.of_type, type_map_name)])", key(ft, "nonnull"), f"NonNull reference: {[x.text() for x in o]}", ft.loc(), okmsg="NonNull -> GraphQLNonNull(<inner>)")
    o = Interp(ft, _kind_atom("type_", None, lambda t: False if t.startswith("isinstance(type_, (") else None)).run()
    ctx.check(bool(o) and all(x.kind == "raise" and x.exc == "NotSupported" for x in o), key(ft, "unknown"), "an unknown type reference must raise NotSupported", ft.loc(), okmsg="unknown reference -> NotSupported")
    sc = repo.resolve(repo.mod(GS + "constants"), "STANDARD_SCALARS")
    ctx.check(sc == ("const", {"Int": "GraphQLInt", "Float": "GraphQLFloat", "String": "GraphQLString", "Boolean": "GraphQLBoolean", "ID": "GraphQLID"}),
              GS + "constants::STANDARD_SCALARS", f"STANDARD_SCALARS is {sc}", "", okmsg="standard scalars refer to graphql-core's own objects")


@rule("C16.R4", "references between types inside the type map are lazy (under a lambda)", min_instances=10)
def c16_r4(ctx):
    repo = ctx.repo
    sh = Shaper(repo, inline_all=True, max_depth=6)
    for ctor, fk, param in GENERATORS[:6]:
        fi = repo.func(fk)
        v = sh.call_function(fi)

        def walk(x: V, under_lambda: bool, bad: List[str]):
            if isinstance(x, Node):
                if x.kind == "Subscript" and isinstance(x.get("value"), Node) and x.get("value").kind == "Name" and chain(x.get("value").get("id")) == "$type_map_name":
                    if not under_lambda:
                        bad.append(repr(x)[:80])
                elif x.kind == "Subscript" and isinstance(x.get("value"), Node) and x.get("value").kind == "Name" and isinstance(x.get("value").get("id"), Lit) \
                        and x.get("value").get("id").value not in ("List",) and isinstance(x.get("slice"), Node) and x.get("slice").kind == "Constant":
                    fixed.append(x.get("value").get("id").value)
                ul = under_lambda or x.kind == "Lambda"
                for c in x.children():
                    walk(c, ul, bad)
            else:
                for c in x.children():
                    walk(c, under_lambda, bad)
        bad: List[str] = []
        fixed: List[str] = []
        walk(v, False, bad)
        ctx.check(not fixed, key(fi, "type map name"), f"{ctor}: the type map is referenced through the fixed name(s) {sorted(set(fixed))} instead of the configured type-map variable name: NameError when type_map_variable_name is not the default", fi.loc(),
                  okmsg=f"{ctor}: type map referenced by its configured name only")
        refs = sum(1 for n in nodes(v, "Subscript") if isinstance(n.get("value"), Node) and n.get("value").kind == "Name" and chain(n.get("value").get("id")) == "$type_map_name")
        ctx.check(not bad, key(fi, "lazy references"), f"{ctor}: the type map is indexed eagerly while it is being built ({bad[:2]}): NameError/KeyError when the module is imported", fi.loc(),
                  okmsg=f"{ctor}: {refs} type-map reference(s), all under a lambda")


@rule("C16.R5", "the configured variable names are used; the SDL target prints the validated schema", min_instances=7)
def c16_r5(ctx):
    repo = ctx.repo
    sm = repo.func(GS + "schema:generate_schema_module")
    sh = Shaper(repo, inline_all=False)
    v = sh.call_function(sm)
    body = v.get("body") if isinstance(v, Node) else None
    anns = [x for x in seq_items(body) if isinstance(x, Node) and x.kind == "AnnAssign"]
    tg = [chain(a.get("target").get("id")) for a in anns if isinstance(a.get("target"), Node)]
    ctx.check(tg == ["$type_map_name", "$schema_variable_name"], key(sm, "targets"), f"module assigns {tg}, expected the configured type-map and schema variable names", sm.loc(), okmsg="type map and schema assigned to the configured names, in that order")
    calls = [norm(c) for c in sorted((c for c in walk_no_nested(sm.node) if isinstance(c, ast.Call) and dotted(c.func) in ("generate_type_map", "generate_schema")), key=lambda c: (c.lineno, c.col_offset))]
    ctx.check(calls == ["generate_type_map(schema.type_map, type_map_name)", "generate_schema(schema, type_map_name)"], key(sm, "values"), f"values are {calls}", sm.loc(), okmsg="values = generate_type_map(schema.type_map) / generate_schema(schema)")
    for fk in (GS + "utils:get_named_type", GS + "utils:get_list_of_named_types", GS + "schema:generate_schema"):
        f2 = repo.func(fk)
        v2 = Shaper(repo, inline_all=True, max_depth=5).call_function(f2)
        ids = []
        for n in nodes(v2, "Subscript") + [c.get("func") for c in nodes(v2, "Call") if isinstance(c.get("func"), Node) and c.get("func").kind == "Attribute"]:
            val = n.get("value")
            if isinstance(val, Node) and val.kind == "Name" and not is_lit(val.get("id"), "List"):
                ids.append(chain(val.get("id")))
        ctx.check(bool(ids) and all(i == "$type_map_name" for i in ids), key(f2, "type map references"), f"references to the type map use {sorted(set(ids))} instead of the configured type-map variable name", f2.loc(),
                  okmsg=f"{f2.qualname}: {len(ids)} reference(s) to the configured type-map variable")
    tm = repo.func(GS + "schema:generate_type_map")
    lp = [n for n in tm.node.body if isinstance(n, ast.For)]
    good = len(lp) == 1 and len(lp[0].body) == 1 and isinstance(lp[0].body[0], ast.If) and isinstance(lp[0].target, ast.Tuple) and norm(lp[0].body[0].test) == f"{norm(lp[0].target.elts[0])} not in STANDARD_TYPES"
    if not lp:
        # comprehension form: the filter is a dict comprehension over type_map.items() that the key / value comprehensions read
        from ..util import comp_struct
        src = tm.node.args.args[0].arg
        filters = [comp_struct(n) for n in walk_no_nested(tm.node) if isinstance(n, ast.DictComp)]
        good = filters == [("$0_0: $0_1", [(f"{src}.items()", ["$0_0 not in STANDARD_TYPES"])])]
    ctx.check(good, key(tm, "filter"), "type map entries are filtered by something other than the standard type names", tm.loc(), okmsg="every non-standard type is emitted")
    st = repo.resolve(repo.mod(GS + "constants"), "STANDARD_TYPES")
    want = {"ID", "Boolean", "Float", "Int", "String", "__Schema", "__Type", "__TypeKind", "__Field", "__InputValue", "__EnumValue", "__Directive", "__DirectiveLocation"}
    ctx.check(st[0] == "const" and set(st[1]) == want, GS + "constants::STANDARD_TYPES", f"STANDARD_TYPES is {st}", "", okmsg="STANDARD_TYPES = built-in scalars + introspection types")
    gf = repo.func(GS + "schema:generate_graphql_schema_graphql_file")
    w = [c for c in walk_no_nested(gf.node) if isinstance(c, ast.Call) and isinstance(c.func, ast.Attribute) and c.func.attr == "write_text"]
    good = len(w) == 1 and norm(allargs(w[0])[0]) == "print_schema(schema)" and norm(w[0].func.value) == "Path(target_file_path)"
    ctx.check(good, key(gf, "sdl"), "the .graphql target is not print_schema(schema) written to the target path", gf.loc(), okmsg="SDL target = print_schema(schema)")
    pf = repo.func(GS + "schema:generate_graphql_schema_python_file")
    good = "ast_to_str(module)" in norm(pf.node) and "generate_schema_module(schema, type_map_name=type_map_name, schema_variable_name=schema_variable_name)" in norm(pf.node)
    ctx.check(good, key(pf, "py"), "the .py target is not the schema module rendered by ast_to_str", pf.loc(), okmsg="py target = ast_to_str(generate_schema_module(...))")
    m = repo.func("main:graphql_schema")
    for fmt, fn in ((True, "generate_graphql_schema_python_file"), (False, "generate_graphql_schema_graphql_file")):
        eff = lambda c: dotted(c.func) in ("generate_graphql_schema_python_file", "generate_graphql_schema_graphql_file")
        o = Interp(m, lambda e, fmt=fmt: (fmt if norm(e).endswith(".target_file_format == 'py'") else None), is_effect=eff).run()
        effs = [[norm(strip_pre(e)) for e in x.effects] for x in o]
        good = bool(o) and all(len(e) == 1 and e[0].startswith(fn + "(") and "schema=" in e[0] and ".target_file_path" in e[0].split("target_file_path=")[1][:80] for e in effs)
        if fmt:
            good = good and all(".type_map_variable_name" in e[0].split("type_map_name=")[1][:90] and ".schema_variable_name" in e[0].split("schema_variable_name=")[1][:90] for e in effs)
        ctx.check(good, key(m, f"format py={fmt}"), f"main.graphql_schema with py={fmt} calls {effs}", m.loc(), okmsg=f"target format py={fmt} -> {fn} with the configured names")


@rule("C16.R7", "the schema target and everything read back as GraphQL text use UTF-8, stated explicitly", min_instances=4, also=["C19", "C10", "C02", "C17"])
def c16_r7(ctx):
    repo = ctx.repo

    def utf8(v):
        return isinstance(v, ast.Constant) and isinstance(v.value, str) and v.value.lower().replace("-", "").replace("_", "") == "utf8"
    sites = [(GS + "schema:generate_graphql_schema_graphql_file", "write_text", "the SDL target does not parse back (or parses to other text) for non-ASCII descriptions / default values"),
             (GS + "schema:generate_graphql_schema_python_file", "write_text", "the schema module is not valid UTF-8 source for non-ASCII descriptions (PEP 3120: source files are UTF-8)"),
             ("schema:read_graphql_file", "open", "schema / query files are decoded with the locale's encoding"),
             ("contrib.extract_operations:ExtractOperationsPlugin._generate_operations_module", "write_text", "the operations module is not valid UTF-8 source")]
    for fk, meth, why in sites:
        fi = repo.func(fk)
        cs = [c for c in walk_no_nested(fi.node) if isinstance(c, ast.Call) and ((isinstance(c.func, ast.Attribute) and c.func.attr in (meth, "open", "write_text", "read_text")) or (isinstance(c.func, ast.Name) and c.func.id == "open"))]
        if not cs:
            raise AnalysisError(f"{fk}: no {meth} call found")
        for c in cs:
            enc = next((k.value for k in c.keywords if k.arg == "encoding"), None)
            if enc is None and isinstance(c.func, ast.Name) and len(c.args) >= 4:
                enc = c.args[3]
            if enc is None and isinstance(c.func, ast.Attribute) and c.func.attr in ("write_text", "read_text") and len(c.args) >= (2 if c.func.attr == "write_text" else 1):
                enc = c.args[1 if c.func.attr == "write_text" else 0]
            mode = next((k.value for k in c.keywords if k.arg == "mode"), c.args[1] if isinstance(c.func, ast.Name) and len(c.args) > 1 else None)
            if isinstance(mode, ast.Constant) and isinstance(mode.value, str) and "b" in mode.value:
                ctx.ok(f"{fi.qualname}: binary I/O", fi.loc(c))
                continue
            ctx.check(utf8(enc), key(fi, f"{meth} encoding"), f"{norm(c)[:90]}: encoding is {norm(enc) if enc is not None else 'the platform default'}, not UTF-8: {why}", fi.loc(c),
                      okmsg=f"{fi.qualname}: {meth}(encoding=utf-8)")


@rule("C16.R8", "the text-level multiline-string rewriter is off by default and switched on for the client module only", min_instances=8, also=["C02", "C04", "C10"])
def c16_r8(ctx):
    repo = ctx.repo
    a2s = repo.func("utils:ast_to_str")
    params = a2s.node.args.args
    defaults = dict(zip([p.arg for p in params[len(params) - len(a2s.node.args.defaults):]], a2s.node.args.defaults))
    d = defaults.get("multiline_strings")
    ctx.check(d is not None and is_const(d, False), key(a2s, "default"), f"ast_to_str(multiline_strings={norm(d) if d is not None else '<required>'}) by default: every generated module - the schema module of the "
              "graphqlschema strategy included - would be passed through format_multiline_strings, which rewrites string literals by text (an empty-string default makes the formatter fail)",
              a2s.loc(), okmsg="ast_to_str: multiline_strings defaults to False")
    outs = Interp(a2s, lambda e: (False if norm(strip_pre(e)) == "multiline_strings" else True if norm(strip_pre(e)) == "remove_unused_imports" else None),
                  is_effect=lambda c: dotted(c.func) == "format_multiline_strings").run()
    ctx.check(bool(outs) and not any(o.effects for o in outs) and not any("format_multiline_strings" in norm(o.value) for o in outs if o.value is not None), key(a2s, "off means off"),
              "format_multiline_strings runs although multiline_strings is False", a2s.loc(), okmsg="multiline_strings=False: the rewriter is not applied")
    n = 0
    for fi in repo.all_functions():
        for c in walk_no_nested(fi.node):
            if isinstance(c, ast.Call) and isinstance(c.func, ast.Name) and repo.resolve(fi.module, c.func.id) == ("func", a2s):
                n += 1
                v = argv(c, 2, "multiline_strings")
                on = v is not None and not is_const(v, False)
                allowed = fi.key == "client_generators.package:PackageGenerator._generate_client"
                ctx.check((not on) or allowed, key(fi, "ast_to_str(multiline_strings=)"), f"{fi.qualname} renders its module with multiline_strings={norm(v) if v is not None else None}: only the client module "
                          "(which embeds the operation strings) is meant to be rewritten", fi.loc(c), okmsg=f"{fi.qualname}: multiline rewriter {'on (client module)' if on else 'off'}")
    if n < 8:
        raise AnalysisError(f"only {n} ast_to_str call sites found")
