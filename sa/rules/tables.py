"""decision tables for small functions that every property leans on but none names: root type of an operation, @mixin
arguments, scalar configuration (ScalarData), scalar imports, enum classes.  Each table lists scenarios (truth values of
the function's own atomic tests) and the outcome the properties need; found by the mutation-coverage map (DESIGN 6.2)."""
from __future__ import annotations

import ast
from typing import Dict, List, Optional, Set

from ..absint import Interp, subst
from ..model import AnalysisError, dotted, norm, walk_no_nested
from ..report import rule
from ..util import allargs, argv, comp_struct, is_const, is_name, key, kw, strip_pre

RT = "client_generators.result_types:ResultTypesGenerator."


@rule("C01.R14", "the root type of an operation is the schema's type for exactly that operation kind; a fragment's is its type condition", min_instances=8,
      also=["C02", "C05", "C08", "C14"])
def c01_r14(ctx):
    repo = ctx.repo
    fi = repo.func(RT + "_get_operation_type_name")
    p = fi.node.args.args[1].arg
    kinds = ("QUERY", "MUTATION", "SUBSCRIPTION")

    def mk(fragment: bool, kind: Optional[str], declared: Set[str]):
        def atom(e):
            t = norm(strip_pre(e))
            if t == f"isinstance({p}, FragmentDefinitionNode)":
                return fragment
            if t == f"isinstance({p}, OperationDefinitionNode)":
                return not fragment
            for k in kinds:
                if t in (f"{p}.operation == OperationType.{k}", f"{p}.operation is OperationType.{k}"):
                    return kind == k
                if t == f"self.schema.{k.lower()}_type":
                    return k in declared
            return None
        return atom
    o = Interp(fi, mk(True, None, set(kinds))).run()
    ctx.check(bool(o) and all(x.kind == "return" and norm(strip_pre(x.value)) == f"{p}.type_condition.name.value" for x in o), key(fi, "fragment"),
              f"a fragment definition must be generated against its type condition: {[x.text()[:80] for x in o]}", fi.loc(), okmsg="fragment -> its type condition")
    for k in kinds:
        o = Interp(fi, mk(False, k, set(kinds))).run()
        want = f"self.schema.{k.lower()}_type.name"
        ctx.check(bool(o) and all(x.kind == "return" and norm(strip_pre(x.value)) == want for x in o), key(fi, k.lower()),
                  f"a {k.lower()} operation must be generated against {want} (a schema where the three root types differ would otherwise type the result from the wrong root): "
                  f"{[x.text()[:80] for x in o]}", fi.loc(), okmsg=f"{k.lower()} -> {want}")
        o = Interp(fi, mk(False, k, set(kinds) - {k})).run()
        ctx.check(bool(o) and all(x.kind == "raise" and x.exc == "NotSupported" for x in o), key(fi, k.lower() + " undeclared"),
                  f"a {k.lower()} operation against a schema without a {k.lower()} root must raise NotSupported (not fall through to another root type): {[x.text()[:80] for x in o]}", fi.loc(),
                  okmsg=f"{k.lower()} without such a root type -> NotSupported")
    # the root class is parsed against that type
    init = repo.cls(RT[:-1]).methods["__init__"]
    src = norm(init.node)
    ctx.check("type_name=self._get_operation_type_name(" in src or "self._get_operation_type_name(definition=self.operation_definition)" in src or "self._get_operation_type_name(self.operation_definition)" in src,
              key(init, "root type used"), "the root class is not parsed against the operation's root type", init.loc(), okmsg="root class parsed against the operation's root type")


@rule("C08.R6", "@mixin arguments: both `from` and `import`, string literals only, read from the directive being processed", min_instances=5, also=["C02", "C17"])
def c08_r6(ctx):
    repo = ctx.repo
    fi = repo.func(RT + "_parse_mixin_arguments")
    p = fi.node.args.args[1].arg
    eff = lambda c: is_name(c.func, "<setitem>")

    def mk(is_name_node=True, is_string=True, has_from=True, has_import=True):
        def atom(e):
            t = norm(strip_pre(e))
            if t.startswith("isinstance(") and t.endswith(".name, NameNode)"):
                return is_name_node
            if t.startswith("isinstance(") and t.endswith(".value, StringValueNode)"):
                return is_string
            if t in ("MIXIN_FROM_NAME not in arguments", "'from' not in arguments"):
                return not has_from
            if t in ("MIXIN_IMPORT_NAME not in arguments", "'import' not in arguments"):
                return not has_import
            if t in ("MIXIN_FROM_NAME in arguments", "'from' in arguments"):
                return has_from
            if t in ("MIXIN_IMPORT_NAME in arguments", "'import' in arguments"):
                return has_import
            return None
        return atom
    el = f"<elem>({p}.arguments)"
    o = [x for x in Interp(fi, mk(), is_effect=eff).run() if any("loop body once" in t for t in x.trace)]
    good = bool(o) and all(x.kind == "return" and isinstance(x.value, ast.Name) for x in o)
    for x in o:
        st = [norm(strip_pre(m)) for m in (x.muts(x.value.id) if isinstance(x.value, ast.Name) else [])]
        good = good and any(s_ == f"<setitem>({x.value.id if isinstance(x.value, ast.Name) else 'arguments'}, {el}.name.value, {el}.value.value)" for s_ in st)
    ctx.check(good, key(fi, "collected"), f"every argument of the directive must be stored under its own name with its string value: {[x.text()[:120] for x in o]}", fi.loc(),
              okmsg="arguments[name] = string value, for every argument of this directive")
    for label, kwargs in (("argument that is not a string literal", dict(is_string=False)), ("argument without a plain name", dict(is_name_node=False))):
        o = [x for x in Interp(fi, mk(**kwargs), is_effect=eff).run() if any("loop body once" in t for t in x.trace)]
        ctx.check(bool(o) and all(x.kind == "raise" and x.exc == "ParsingError" for x in o), key(fi, label), f"[{label}] must be rejected with ParsingError (a variable would be emitted as an import of `None`): "
                  f"{[x.text()[:80] for x in o]}", fi.loc(), okmsg=f"[{label}] -> ParsingError")
    for label, kwargs in (("`from` missing", dict(has_from=False)), ("`import` missing", dict(has_import=False))):
        o = Interp(fi, mk(**kwargs), is_effect=eff).run()
        ctx.check(bool(o) and all(x.kind == "raise" and x.exc == "ParsingError" for x in o), key(fi, label), f"[{label}] must be rejected with ParsingError, not surface as KeyError later: "
                  f"{[x.text()[:80] for x in o]}", fi.loc(), okmsg=f"[{label}] -> ParsingError")


@rule("C07.R8", "ScalarData: object names are the last dotted component; parse / serialize names exist iff configured; every configured dotted name is imported from its module",
      min_instances=11, also=["C04", "C05", "C06", "C03"])
def c07_r8(ctx):
    repo = ctx.repo
    ci = repo.cls("client_generators.scalars:ScalarData")
    gon = ci.methods["_get_object_name"]
    p = gon.node.args.args[1].arg
    for dotted_ in (True, False):
        o = [x for x in Interp(gon, lambda e, d=dotted_: (d if norm(strip_pre(e)) == f"'.' in {p}" else (not d) if norm(strip_pre(e)) == f"'.' not in {p}" else None)).run() if x.kind == "return"]
        vals = sorted({norm(strip_pre(x.deref(x.value)) if isinstance(x.value, ast.Name) else strip_pre(x.value)) for x in o})
        if dotted_:
            good = len(vals) == 1 and vals[0] in (f"{p}.rsplit('.', maxsplit=1)[1]", f"{p}.rsplit('.', 1)[1]", f"{p}.rsplit('.', maxsplit=1)[-1]", f"{p}.rsplit('.', 1)[-1]", f"{p}.split('.')[-1]", f"{p}.rpartition('.')[2]")
        else:
            good = vals == [p]
        ctx.check(good, key(gon, f"dotted={dotted_}"), f"_get_object_name({'a.b.C' if dotted_ else 'C'}) returns {vals}: the annotation / wrapper call must use the bare object name "
                  "(the part after the last dot), which is also what the import brings in", gon.loc(), okmsg=f"_get_object_name(dotted={dotted_}) -> {'last component' if dotted_ else 'the name itself'}")
    pi = ci.methods["__post_init__"]
    for attr, src in (("parse_name", "parse"), ("serialize_name", "serialize")):
        for configured in (True, False):
            def atom(e, src=src, configured=configured):
                t = norm(strip_pre(e))
                if t == f"self.{src}":
                    return configured
                if t.startswith("self.") and t[5:] in ("parse", "serialize"):
                    return False
                return None
            it_ = Interp(pi, atom, is_effect=lambda c: is_name(c.func, "<setattr>"))
            outs = it_.run()
            vals = []
            for x in outs:
                for e in x.effects:
                    e = strip_pre(e)
                    if len(allargs(e)) == 3 and is_const(allargs(e)[1], attr):
                        vals.append(norm(strip_pre(it_._simp(allargs(e)[2], x.env))))
            want = [f"self._get_object_name(self.{src})", f"self._get_object_name(name=self.{src})"] if configured else ["None"]
            ctx.check(bool(vals) and all(v in want for v in vals), key(pi, f"{attr} configured={configured}"),
                      f"{attr} with `{src}` {'configured' if configured else 'absent'} is {vals}, expected {want[0]}: "
                      + ("the wrapper would call the wrong function" if configured else "a wrapper would be emitted for a scalar without such a function"), pi.loc(),
                      okmsg=f"{attr}: {'object name of ' + src if configured else 'None'} when {src} is {'configured' if configured else 'absent'}")
    tn = [norm(strip_pre(allargs(strip_pre(e))[2])) for x in Interp(pi, lambda e: None, is_effect=lambda c: is_name(c.func, "<setattr>")).run() for e in x.effects
          if len(allargs(strip_pre(e))) == 3 and is_const(allargs(strip_pre(e))[1], "type_name")]
    ctx.check(bool(tn) and all(v in ("self._get_object_name(self.type_)", "self._get_object_name(name=self.type_)") for v in tn), key(pi, "type_name"), f"type_name is {tn}", pi.loc(), okmsg="type_name: object name of type_")
    nti = [strip_pre(allargs(strip_pre(e))[2]) for x in Interp(pi, lambda e: None, is_effect=lambda c: is_name(c.func, "<setattr>")).run() for e in x.effects
           if len(allargs(strip_pre(e))) == 3 and is_const(allargs(strip_pre(e))[1], "names_to_import")]
    good = bool(nti)
    for v in nti:
        cs = comp_struct(v)
        good = good and cs is not None and cs[0] == "$0" and len(cs[1]) == 1 and [str(c) for c in cs[1][0][1]] == ["$0"] and \
            sorted(norm(e) for e in getattr(strip_pre(v.generators[0].iter), "elts", [])) == ["self.parse", "self.serialize", "self.type_"]
    ctx.check(good, key(pi, "names_to_import"), f"names_to_import is {[norm(v)[:100] for v in nti]}: every configured one of type / serialize / parse must be imported", pi.loc(),
              okmsg="names_to_import = the configured ones of type_, serialize, parse")
    # imports
    gi = repo.func("client_generators.scalars:generate_scalar_imports")
    eff = lambda c: isinstance(c.func, ast.Attribute) and c.func.attr in ("append", "extend")
    for dotted_ in (True, False):
        def atom(e, d=dotted_):
            t = norm(strip_pre(e))
            if t == "data.import_":
                return False
            if t.startswith("'.' in "):
                return d
            if t.startswith("'.' not in "):
                return not d
            return None
        outs = [x for x in Interp(gi, atom, is_effect=eff).run() if any("loop body once" in t for t in x.trace)]
        el = "<elem>(data.names_to_import)"
        good = bool(outs)
        for x in outs:
            st = [norm(strip_pre(m)) for m in (x.muts(x.value.id) if isinstance(x.value, ast.Name) else [])] + [norm(strip_pre(e)) for e in x.effects]
            if dotted_:
                good = good and any("generate_import_from(" in s_ and f"{el}.rsplit('.', maxsplit=1)[1]" in s_.replace(f"{el}.rsplit('.', 1)[1]", f"{el}.rsplit('.', maxsplit=1)[1]")
                                    and (f"from_={el}.rsplit('.', maxsplit=1)[0]" in s_ or f"from_={el}.rsplit('.', 1)[0]" in s_) for s_ in st)
            else:
                good = good and not st
        ctx.check(good, key(gi, f"dotted name={dotted_}"), f"a {'dotted' if dotted_ else 'bare'} configured name must {'be imported as `from <module> import <object>`' if dotted_ else 'produce no import (a builtin or a name the user imports otherwise)'}: "
                  f"{[x.text()[:140] for x in outs]}", gi.loc(), okmsg=f"{'dotted' if dotted_ else 'bare'} name -> {'from module import object' if dotted_ else 'no import'}")
    outs = [x for x in Interp(gi, lambda e: (True if norm(strip_pre(e)) in ("data.import_", "data.names_to_import") else None), is_effect=eff).run()]
    good = bool(outs)
    for x in outs:
        st = [norm(strip_pre(m)) for m in (x.muts(x.value.id) if isinstance(x.value, ast.Name) else [])] + [norm(strip_pre(e)) for e in x.effects]
        good = good and any("generate_import_from(names=data.names_to_import, from_=data.import_)" in s_ for s_ in st)
    ctx.check(good, key(gi, "deprecated import key"), "with the deprecated `import` key all configured names must be imported from that module", gi.loc(), okmsg="deprecated `import` key -> from <import_> import <all names>")


@rule("C04.R14", "every value of every schema enum becomes a member, in schema order, assigned the GraphQL value; the class is a str enum named after the type", min_instances=4,
      also=["C01", "C06", "C09", "C18"])
def c04_r14(ctx):
    repo = ctx.repo
    fi = repo.func("client_generators.enums:EnumsGenerator._parse_enum_definition")
    eff = lambda c: isinstance(c.func, ast.Attribute) and c.func.attr in ("append", "extend")

    def mk(keyword):
        return lambda e: (keyword if norm(strip_pre(e)).startswith("iskeyword(") else (not keyword) if norm(strip_pre(e)).startswith("not iskeyword(") else
                          False if norm(strip_pre(e)) == "self.plugin_manager" else None)
    for keyword in (False, True):
        outs = [x for x in Interp(fi, mk(keyword), is_effect=eff).run() if x.kind == "return"]
        loop = [x for x in outs if any("loop body once" in t for t in x.trace)]
        comp = [x for x in outs if not any("loop" in t for t in x.trace)]
        texts = []
        for x in loop or comp:
            v = strip_pre(x.value)
            body = kw(v, "body") if isinstance(v, ast.Call) else None
            body = strip_pre(body.args[1]) if isinstance(body, ast.Call) and is_name(body.func, "cast") and len(body.args) == 2 else body
            nm = body.id if isinstance(body, ast.Name) else None
            val = strip_pre(x.deref(body)) if nm else body
            ms = [norm(strip_pre(m)) for m in (x.muts(nm) if nm else [])]
            texts.append((norm(val) if val is not None else None, ms, norm(v)))
        el = "<elem>(enumerate(definition.values.items(), start=1))"
        name_txt = f"f'{{{el}[1][0]}}_'" if keyword else f"{el}[1][0]"
        good = bool(texts)
        for val, ms, whole in texts:
            if ms:
                good = good and any(m_.replace(" ", "") == f"fields.append(generate_assign(targets=[{name_txt}],value=generate_constant(value={el}[1][1].value),lineno={el}[0]))".replace(" ", "")
                                    or (f"generate_constant(value={el}[1][1].value)" in m_ and f"targets=[{name_txt}]" in m_) for m_ in ms)
            else:
                good = good and val is not None and "generate_assign(" in val and ".value)" in val and "definition.values.items()" in val
            good = good and "name=definition.name" in whole and "base_names=['str', 'Enum']" in whole.replace("ENUM_CLASS", "'Enum'")
        ctx.check(good, key(fi, f"member keyword={keyword}"), f"[value name is{'' if keyword else ' not'} a Python keyword] the enum class is built as {texts[:1]}: one member per schema value, named "
                  f"{'<value>_' if keyword else 'after the value'}, assigned the GraphQL value string, in a `class <type name>(str, Enum)`", fi.loc(),
                  okmsg=f"member per value ({'keyword -> name_' if keyword else 'plain name'}) = GraphQL value; class <type>(str, Enum)")
    g = repo.func("client_generators.enums:EnumsGenerator.generate")
    outs = [x for x in Interp(g, lambda e: (False if norm(strip_pre(e)) == "self.plugin_manager" else None)).run() if x.kind == "return"]
    good = bool(outs)
    for x in outs:
        v = norm(strip_pre(subst(x.value, x.env, deep=True)))
        good = good and v.startswith("generate_module(body=") and "self._imports" in v and "self._filter_class_defs(types_to_include" in v and v.index("self._imports") < v.index("self._filter_class_defs(")
    ctx.check(good, key(g, "module"), f"the enums module is not imports followed by the (filtered) enum classes: {[x.text()[:120] for x in outs]}", g.loc(), okmsg="enums module = imports + selected classes")
    init = repo.cls("client_generators.enums:EnumsGenerator").methods["__init__"]
    cds = [st.value for st in ast.walk(init.node) if (isinstance(st, ast.Assign) and norm(st.targets[0]) == "self._class_defs") or
           (isinstance(st, ast.AnnAssign) and st.value is not None and norm(st.target) == "self._class_defs")]
    cs = comp_struct(strip_pre(cds[0])) if cds else None
    ctx.check(cs is not None and cs[0] in ("self._parse_enum_definition($0)", "self._parse_enum_definition(definition=$0)") and [(str(a), list(map(str, b))) for a, b in cs[1]] == [("self._filter_enum_types()", [])],
              key(init, "all enums"), f"class definitions are {cs}: one per schema enum", init.loc(), okmsg="one class per schema enum")
