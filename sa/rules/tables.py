"""decision tables for small functions that every property leans on but none names: root type of an operation, @mixin
arguments, scalar configuration (ScalarData), scalar imports, enum classes.  Each table lists scenarios (truth values of
the function's own atomic tests) and the outcome the properties need; found by the mutation-coverage map (DESIGN 6.2)."""
from __future__ import annotations

import ast
from typing import Dict, List, Optional, Set

from ..absint import Interp, subst
from ..model import AnalysisError, dotted, norm, walk_no_nested
from ..report import rule
from ..util import allargs, argv, comp_struct, is_const, is_name, key, kw, loops_as_comps, real_params, strip_pre

RT = "client_generators.result_types:ResultTypesGenerator."


@rule("C01.R14", "the root type of an operation is the schema's type for exactly that operation kind; a fragment's is its type condition", min_instances=8,
      also=["C02", "C05", "C08", "C14"])
def c01_r14(ctx):
    repo = ctx.repo
    fi = repo.func(RT + "_get_operation_type_name")
    p = real_params(fi)[0]
    kinds = ("QUERY", "MUTATION", "SUBSCRIPTION")

    def mk(fragment: bool, kind: Optional[str], declared: Set[str]):
        def atom(e):
            t = norm(strip_pre(e))
            if t == f"isinstance({p}, FragmentDefinitionNode)":
                return fragment
            if t == f"isinstance({p}, OperationDefinitionNode)":
                return not fragment
            for k in kinds:
                if t in (f"{p}.operation == OperationType.{k}", f"{p}.operation is OperationType.{k}"):
                    return kind == k
                if t == f"self.schema.{k.lower()}_type":
                    return k in declared
            return None
        return atom
    o = Interp(fi, mk(True, None, set(kinds))).run()
    ctx.check(bool(o) and all(x.kind == "return" and norm(strip_pre(x.value)) == f"{p}.type_condition.name.value" for x in o), key(fi, "fragment"),
              f"a fragment definition must be generated against its type condition: {[x.text()[:80] for x in o]}", fi.loc(), okmsg="fragment -> its type condition")
    for k in kinds:
        o = Interp(fi, mk(False, k, set(kinds))).run()
        want = f"self.schema.{k.lower()}_type.name"
        ctx.check(bool(o) and all(x.kind == "return" and norm(strip_pre(x.value)) == want for x in o), key(fi, k.lower()),
                  f"a {k.lower()} operation must be generated against {want} (a schema where the three root types differ would otherwise type the result from the wrong root): "
                  f"{[x.text()[:80] for x in o]}", fi.loc(), okmsg=f"{k.lower()} -> {want}")
        o = Interp(fi, mk(False, k, set(kinds) - {k})).run()
        ctx.check(bool(o) and all(x.kind == "raise" and x.exc == "NotSupported" for x in o), key(fi, k.lower() + " undeclared"),
                  f"a {k.lower()} operation against a schema without a {k.lower()} root must raise NotSupported (not fall through to another root type): {[x.text()[:80] for x in o]}", fi.loc(),
                  okmsg=f"{k.lower()} without such a root type -> NotSupported")
    # the root class is parsed against that type
    init = repo.cls(RT[:-1]).methods["__init__"]
    src = norm(init.node)
    ctx.check("type_name=self._get_operation_type_name(" in src or "self._get_operation_type_name(definition=self.operation_definition)" in src or "self._get_operation_type_name(self.operation_definition)" in src,
              key(init, "root type used"), "the root class is not parsed against the operation's root type", init.loc(), okmsg="root class parsed against the operation's root type")


@rule("C08.R6", "@mixin arguments: both `from` and `import`, string literals only, read from the directive being processed", min_instances=5, also=["C02", "C17"])
def c08_r6(ctx):
    repo = ctx.repo
    fi = repo.func(RT + "_parse_mixin_arguments")
    p = real_params(fi)[0]
    eff = lambda c: is_name(c.func, "<setitem>")

    def mk(is_name_node=True, is_string=True, has_from=True, has_import=True):
        def atom(e):
            t = norm(strip_pre(e))
            if t.startswith("isinstance(") and t.endswith(".name, NameNode)"):
                return is_name_node
            if t.startswith("isinstance(") and t.endswith(".value, StringValueNode)"):
                return is_string
            if t in ("MIXIN_FROM_NAME not in arguments", "'from' not in arguments"):
                return not has_from
            if t in ("MIXIN_IMPORT_NAME not in arguments", "'import' not in arguments"):
                return not has_import
            if t in ("MIXIN_FROM_NAME in arguments", "'from' in arguments"):
                return has_from
            if t in ("MIXIN_IMPORT_NAME in arguments", "'import' in arguments"):
                return has_import
            return None
        return atom
    el = f"<elem>({p}.arguments)"
    o = [x for x in Interp(fi, mk(), is_effect=eff).run() if any("loop body once" in t for t in x.trace)]
    good = bool(o) and all(x.kind == "return" and isinstance(x.value, ast.Name) for x in o)
    for x in o:
        st = [norm(strip_pre(m)) for m in (x.muts(x.value.id) if isinstance(x.value, ast.Name) else [])]
        good = good and any(s_ == f"<setitem>({x.value.id if isinstance(x.value, ast.Name) else 'arguments'}, {el}.name.value, {el}.value.value)" for s_ in st)
    ctx.check(good, key(fi, "collected"), f"every argument of the directive must be stored under its own name with its string value: {[x.text()[:120] for x in o]}", fi.loc(),
              okmsg="arguments[name] = string value, for every argument of this directive")
    for label, kwargs in (("argument that is not a string literal", dict(is_string=False)), ("argument without a plain name", dict(is_name_node=False))):
        o = [x for x in Interp(fi, mk(**kwargs), is_effect=eff).run() if any("loop body once" in t for t in x.trace)]
        ctx.check(bool(o) and all(x.kind == "raise" and x.exc == "ParsingError" for x in o), key(fi, label), f"[{label}] must be rejected with ParsingError (a variable would be emitted as an import of `None`): "
                  f"{[x.text()[:80] for x in o]}", fi.loc(), okmsg=f"[{label}] -> ParsingError")
    for label, kwargs in (("`from` missing", dict(has_from=False)), ("`import` missing", dict(has_import=False))):
        o = Interp(fi, mk(**kwargs), is_effect=eff).run()
        ctx.check(bool(o) and all(x.kind == "raise" and x.exc == "ParsingError" for x in o), key(fi, label), f"[{label}] must be rejected with ParsingError, not surface as KeyError later: "
                  f"{[x.text()[:80] for x in o]}", fi.loc(), okmsg=f"[{label}] -> ParsingError")


def scalar_names_to_import(pi) -> Optional[List[str]]:
    """the attributes ScalarData.__post_init__ puts into names_to_import, each under its own truthiness guard - whether written as
    a comprehension over a literal tuple, a loop, or one guarded append per attribute; None when the construction is not one of these"""
    vals = [strip_pre(st.value) for st in ast.walk(pi.node) if (isinstance(st, ast.Assign) and any(norm(t) == "self.names_to_import" for t in st.targets)) or
            (isinstance(st, ast.AnnAssign) and st.value is not None and norm(st.target) == "self.names_to_import")]
    if len(vals) != 1:
        return None
    v = vals[0]
    if isinstance(v, (ast.List, ast.Tuple)) and not v.elts:
        comps = loops_as_comps(pi.node, "self.names_to_import")
        if len(comps) == 1:
            v = comps[0]
        elif not comps:
            got = []
            for st in pi.node.body:
                if isinstance(st, ast.If) and len(st.body) == 1 and not st.orelse and isinstance(st.body[0], ast.Expr) and isinstance(st.body[0].value, ast.Call) \
                        and norm(st.body[0].value.func) == "self.names_to_import.append" and len(st.body[0].value.args) == 1:
                    if norm(st.test) != norm(st.body[0].value.args[0]):
                        return None
                    got.append(str(norm(st.test)))
                elif any(isinstance(c, ast.Call) and "self.names_to_import" in norm(c.func) for c in ast.walk(st)):
                    return None
            return sorted(got)
        else:
            return None
    cs = comp_struct(v)
    if cs is None or cs[0] != "$0" or len(cs[1]) != 1 or [str(c) for c in cs[1][0][1]] != ["$0"]:
        return None
    return sorted(str(norm(e)) for e in getattr(strip_pre(v.generators[0].iter), "elts", []))


@rule("C07.R8", "ScalarData: object names are the last dotted component; parse / serialize names exist iff configured; every configured dotted name is imported from its module",
      min_instances=11, also=["C04", "C05", "C06", "C03"])
def c07_r8(ctx):
    repo = ctx.repo
    ci = repo.cls("client_generators.scalars:ScalarData")
    gon = ci.methods["_get_object_name"]
    p = real_params(gon)[0]
    for dotted_ in (True, False):
        o = [x for x in Interp(gon, lambda e, d=dotted_: (d if norm(strip_pre(e)) == f"'.' in {p}" else (not d) if norm(strip_pre(e)) == f"'.' not in {p}" else None)).run() if x.kind == "return"]
        vals = sorted({norm(strip_pre(x.deref(x.value)) if isinstance(x.value, ast.Name) else strip_pre(x.value)) for x in o})
        if dotted_:
            good = len(vals) == 1 and vals[0] in (f"{p}.rsplit('.', maxsplit=1)[1]", f"{p}.rsplit('.', 1)[1]", f"{p}.rsplit('.', maxsplit=1)[-1]", f"{p}.rsplit('.', 1)[-1]", f"{p}.split('.')[-1]", f"{p}.rpartition('.')[2]")
        else:
            good = vals == [p]
        ctx.check(good, key(gon, f"dotted={dotted_}"), f"_get_object_name({'a.b.C' if dotted_ else 'C'}) returns {vals}: the annotation / wrapper call must use the bare object name "
                  "(the part after the last dot), which is also what the import brings in", gon.loc(), okmsg=f"_get_object_name(dotted={dotted_}) -> {'last component' if dotted_ else 'the name itself'}")
    pi = ci.methods["__post_init__"]
    for attr, src in (("parse_name", "parse"), ("serialize_name", "serialize")):
        for configured in (True, False):
            def atom(e, src=src, configured=configured):
                t = norm(strip_pre(e))
                if t == f"self.{src}":
                    return configured
                if t.startswith("self.") and t[5:] in ("parse", "serialize"):
                    return False
                return None
            it_ = Interp(pi, atom, is_effect=lambda c: is_name(c.func, "<setattr>"))
            outs = it_.run()
            vals = []
            for x in outs:
                mine = []
                for e in x.effects:
                    e = strip_pre(e)
                    if len(allargs(e)) == 3 and is_const(allargs(e)[1], attr):
                        mine.append(norm(strip_pre(it_._simp(allargs(e)[2], x.env))))
                vals += mine[-1:]       # the value the attribute ends up with on this path (`x = None; if c: x = f()`)
            want = [f"self._get_object_name(self.{src})", f"self._get_object_name(name=self.{src})"] if configured else ["None"]
            ctx.check(bool(vals) and all(v in want for v in vals), key(pi, f"{attr} configured={configured}"),
                      f"{attr} with `{src}` {'configured' if configured else 'absent'} is {vals}, expected {want[0]}: "
                      + ("the wrapper would call the wrong function" if configured else "a wrapper would be emitted for a scalar without such a function"), pi.loc(),
                      okmsg=f"{attr}: {'object name of ' + src if configured else 'None'} when {src} is {'configured' if configured else 'absent'}")
    tn = [norm(strip_pre(allargs(strip_pre(e))[2])) for x in Interp(pi, lambda e: None, is_effect=lambda c: is_name(c.func, "<setattr>")).run() for e in x.effects
          if len(allargs(strip_pre(e))) == 3 and is_const(allargs(strip_pre(e))[1], "type_name")]
    ctx.check(bool(tn) and all(v in ("self._get_object_name(self.type_)", "self._get_object_name(name=self.type_)") for v in tn), key(pi, "type_name"), f"type_name is {tn}", pi.loc(), okmsg="type_name: object name of type_")
    nti = [strip_pre(allargs(strip_pre(e))[2]) for x in Interp(pi, lambda e: None, is_effect=lambda c: is_name(c.func, "<setattr>")).run() for e in x.effects
           if len(allargs(strip_pre(e))) == 3 and is_const(allargs(strip_pre(e))[1], "names_to_import")]
    good = scalar_names_to_import(pi) == ["self.parse", "self.serialize", "self.type_"]
    ctx.check(good, key(pi, "names_to_import"), f"names_to_import is {[norm(v)[:100] for v in nti]}: every configured one of type / serialize / parse must be imported", pi.loc(),
              okmsg="names_to_import = the configured ones of type_, serialize, parse")
    # imports
    gi = repo.func("client_generators.scalars:generate_scalar_imports")
    eff = lambda c: isinstance(c.func, ast.Attribute) and c.func.attr in ("append", "extend")
    for dotted_ in (True, False):
        def atom(e, d=dotted_):
            t = norm(strip_pre(e))
            if t == "data.import_":
                return False
            if t.startswith("'.' in "):
                return d
            if t.startswith("'.' not in "):
                return not d
            return None
        outs = [x for x in Interp(gi, atom, is_effect=eff).run() if any("loop body once" in t for t in x.trace)]
        el = "<elem>(data.names_to_import)"
        good = bool(outs)
        for x in outs:
            st = [norm(strip_pre(m)) for m in (x.muts(x.value.id) if isinstance(x.value, ast.Name) else [])] + [norm(strip_pre(e)) for e in x.effects]
            if dotted_:
                good = good and any("generate_import_from(" in s_ and f"{el}.rsplit('.', maxsplit=1)[1]" in s_.replace(f"{el}.rsplit('.', 1)[1]", f"{el}.rsplit('.', maxsplit=1)[1]")
                                    and (f"from_={el}.rsplit('.', maxsplit=1)[0]" in s_ or f"from_={el}.rsplit('.', 1)[0]" in s_) for s_ in st)
            else:
                good = good and not st
        ctx.check(good, key(gi, f"dotted name={dotted_}"), f"a {'dotted' if dotted_ else 'bare'} configured name must {'be imported as `from <module> import <object>`' if dotted_ else 'produce no import (a builtin or a name the user imports otherwise)'}: "
                  f"{[x.text()[:140] for x in outs]}", gi.loc(), okmsg=f"{'dotted' if dotted_ else 'bare'} name -> {'from module import object' if dotted_ else 'no import'}")
    outs = [x for x in Interp(gi, lambda e: (True if norm(strip_pre(e)) in ("data.import_", "data.names_to_import") else None), is_effect=eff).run()]
    good = bool(outs)
    for x in outs:
        st = [norm(strip_pre(m)) for m in (x.muts(x.value.id) if isinstance(x.value, ast.Name) else [])] + [norm(strip_pre(e)) for e in x.effects]
        good = good and any("generate_import_from(names=data.names_to_import, from_=data.import_)" in s_ for s_ in st)
    ctx.check(good, key(gi, "deprecated import key"), "with the deprecated `import` key all configured names must be imported from that module", gi.loc(), okmsg="deprecated `import` key -> from <import_> import <all names>")


@rule("C04.R14", "every value of every schema enum becomes a member, in schema order, assigned the GraphQL value; the class is a str enum named after the type", min_instances=4,
      also=["C01", "C06", "C09", "C18"])
def c04_r14(ctx):
    repo = ctx.repo
    fi = repo.func("client_generators.enums:EnumsGenerator._parse_enum_definition")
    eff = lambda c: isinstance(c.func, ast.Attribute) and c.func.attr in ("append", "extend")

    def mk(keyword):
        return lambda e: (keyword if norm(strip_pre(e)).startswith("iskeyword(") else (not keyword) if norm(strip_pre(e)).startswith("not iskeyword(") else
                          False if norm(strip_pre(e)) == "self.plugin_manager" else None)
    for keyword in (False, True):
        outs = [x for x in Interp(fi, mk(keyword), is_effect=eff).run() if x.kind == "return"]
        loop = [x for x in outs if any("loop body once" in t for t in x.trace)]
        comp = [x for x in outs if not any("loop" in t for t in x.trace)]
        texts = []
        for x in loop or comp:
            v = strip_pre(x.value)
            body = kw(v, "body") if isinstance(v, ast.Call) else None
            body = strip_pre(body.args[1]) if isinstance(body, ast.Call) and is_name(body.func, "cast") and len(body.args) == 2 else body
            nm = body.id if isinstance(body, ast.Name) else None
            val = strip_pre(x.deref(body)) if nm else body
            ms = [norm(strip_pre(m)) for m in (x.muts(nm) if nm else [])]
            texts.append((norm(val) if val is not None else None, ms, norm(v)))
        el = "<elem>(enumerate(definition.values.items(), start=1))"
        name_txt = f"f'{{{el}[1][0]}}_'" if keyword else f"{el}[1][0]"
        good = bool(texts)
        for val, ms, whole in texts:
            if ms:
                good = good and any(m_.replace(" ", "") == f"fields.append(generate_assign(targets=[{name_txt}],value=generate_constant(value={el}[1][1].value),lineno={el}[0]))".replace(" ", "")
                                    or (f"generate_constant(value={el}[1][1].value)" in m_ and f"targets=[{name_txt}]" in m_) for m_ in ms)
            else:
                good = good and val is not None and "generate_assign(" in val and ".value)" in val and "definition.values.items()" in val
            good = good and "name=definition.name" in whole and "base_names=['str', 'Enum']" in whole.replace("ENUM_CLASS", "'Enum'")
        ctx.check(good, key(fi, f"member keyword={keyword}"), f"[value name is{'' if keyword else ' not'} a Python keyword] the enum class is built as {texts[:1]}: one member per schema value, named "
                  f"{'<value>_' if keyword else 'after the value'}, assigned the GraphQL value string, in a `class <type name>(str, Enum)`", fi.loc(),
                  okmsg=f"member per value ({'keyword -> name_' if keyword else 'plain name'}) = GraphQL value; class <type>(str, Enum)")
    g = repo.func("client_generators.enums:EnumsGenerator.generate")
    outs = [x for x in Interp(g, lambda e: (False if norm(strip_pre(e)) == "self.plugin_manager" else None)).run() if x.kind == "return"]
    good = bool(outs)
    for x in outs:
        v = norm(strip_pre(subst(x.value, x.env, deep=True)))
        good = good and v.startswith("generate_module(body=") and "self._imports" in v and "self._filter_class_defs(types_to_include" in v and v.index("self._imports") < v.index("self._filter_class_defs(")
    ctx.check(good, key(g, "module"), f"the enums module is not imports followed by the (filtered) enum classes: {[x.text()[:120] for x in outs]}", g.loc(), okmsg="enums module = imports + selected classes")
    init = repo.cls("client_generators.enums:EnumsGenerator").methods["__init__"]
    cds = [st.value for st in ast.walk(init.node) if (isinstance(st, ast.Assign) and norm(st.targets[0]) == "self._class_defs") or
           (isinstance(st, ast.AnnAssign) and st.value is not None and norm(st.target) == "self._class_defs")]
    cs = comp_struct(strip_pre(cds[0])) if cds else None
    ctx.check(cs is not None and cs[0] in ("self._parse_enum_definition($0)", "self._parse_enum_definition(definition=$0)") and [(str(a), list(map(str, b))) for a, b in cs[1]] == [("self._filter_enum_types()", [])],
              key(init, "all enums"), f"class definitions are {cs}: one per schema enum", init.loc(), okmsg="one class per schema enum")


# ====================================================================== custom operations: the emitted builder classes
CFG_ = "client_generators.custom_fields:CustomFieldsGenerator."
CFT_ = "client_generators.custom_fields_typing:CustomFieldsTypingGenerator."

EMITTED_METHODS = {
    "fields": "def fields(self, *subfields):\n    self._subfields.extend(subfields)\n    return self",
    "on": "def on(self, type_name, *subfields):\n    self._inline_fragments[type_name] = subfields\n    return self",
    "alias": "def alias(self, alias):\n    self._alias = alias\n    return self",
}


@rule("C14.R9", "the emitted builder classes: fields() extends the sub-selection, on() stores an inline fragment under its type, alias() sets the alias, each returning the builder; "
                "one member per (own or inherited) schema field; object / interface / union / leaf fields get the builder class of their kind", min_instances=18, also=["C04"])
def c14_r9(ctx):
    from ..shape import Shaper, renders
    repo = ctx.repo
    sh = Shaper(repo)
    # (a) the three chaining methods, as emitted (annotations and docstrings of the emitted code left out)
    for fk, meth in ((CFG_ + "_generate_fields_method", "fields"), (CFG_ + "_generate_on_method", "on"), (CFG_ + "_generate_alias_method", "alias"),
                     (CFT_ + "_generate_on_method", "on"), (CFT_ + "_generate_alias_method", "alias")):
        fi = repo.func(fk)
        got = renders(sh.call_function(fi))
        want = ast.unparse(ast.parse(EMITTED_METHODS[meth]))
        ctx.check(got == [want], key(fi, f"emitted {meth}()"), f"{fi.qualname} emits\n{chr(10).join(got)[:400]}\nexpected\n{want}\n(a builder method that does not store its argument on the builder, "
                  "or does not return the builder, yields documents that miss the sub-selection / inline fragment / alias the caller asked for)", fi.loc(), okmsg=f"{fi.qualname}: emits {meth}() as specified")
    # (b) class body: one member per combined field, then fields() and alias()
    cb = repo.func(CFG_ + "_generate_class_def_body")
    eff = lambda c: norm(c.func) == "class_def.body.append"
    outs = [o for o in Interp(cb, lambda e: None, is_effect=eff).run() if o.kind == "return" and any("loop body once" in t for t in o.trace)]
    good = len(outs) >= 1
    for o in outs:
        calls = [strip_pre(allargs(strip_pre(e))[0]) for e in o.effects if allargs(strip_pre(e))]
        names = [dotted(c.func) if isinstance(c, ast.Call) else norm(c) for c in calls]
        good = good and names == ["self._generate_class_field", "self._generate_fields_method", "self._generate_alias_method"] and is_name(strip_pre(o.value), "class_def")
        if good:
            el = "<elem>(enumerate(self._get_combined_fields(definition=definition).items(), start=1))"
            cf = calls[0]
            a = {k: norm(strip_pre(o.deref(v)) if isinstance(v, ast.Name) else v) for k, v in ((k_, argv(cf, i, k_)) for i, k_ in enumerate(("name", "field_name", "org_name", "field", "method_required", "lineno"))) if v is not None}
            good = a.get("org_name") == f"{el}[1][0]" and a.get("field") == f"{el}[1][1]" and str(a.get("name", "")).startswith("process_name(") and f"{el}[1][0]" in str(a.get("name", "")) and "convert_to_snake_case=self.convert_to_snake_case" in str(a.get("name", ""))
            fm = calls[1]
            good = good and norm(argv(fm, 0, "class_name") or ast.Constant(0)) == "class_name" and norm(argv(calls[2], 0, "class_name") or ast.Constant(0)) == "class_name"
    ctx.check(good, key(cb, "class body"), f"the builder class of a type is not: one member per combined field (python name = process_name(GraphQL name), constructed with the GraphQL name), then fields(), then alias(): "
              f"{[o.text()[:160] for o in outs][:1]}", cb.loc(), okmsg="builder class = members of all combined fields + fields() + alias()")
    skip = [o for o in Interp(cb, lambda e: None, is_effect=eff).run() if o.kind == "return" and any("loop skipped" in t for t in o.trace)]
    ctx.check(bool(skip) and all([dotted(strip_pre(allargs(strip_pre(e))[0]).func) for e in o.effects] == ["self._generate_fields_method", "self._generate_alias_method"] for o in skip), key(cb, "empty type"),
              "a type without fields must still get fields() and alias()", cb.loc(), okmsg="type without fields -> fields() + alias()")
    # (c) combined fields = own fields overlaid with the fields of every interface
    gc = repo.func(CFG_ + "_get_combined_fields")
    outs = [o for o in Interp(gc, lambda e: None).run() if o.kind == "return" and any("loop body once" in t for t in o.trace)]
    good = bool(outs)
    for o in outs:
        nm = o.value.id if isinstance(o.value, ast.Name) else None
        base = norm(strip_pre(o.deref(o.value))) if nm else ""
        ms = [norm(strip_pre(m)) for m in (o.muts(nm) if nm else [])]
        good = good and base in ("dict(definition.fields.items())", "dict(definition.fields)", "{**definition.fields}") and \
            any("<elem>(getattr(definition, 'interfaces', []))" in m and ".fields" in m and ("update(" in m) for m in ms)
    ctx.check(good, key(gc, "combined"), f"combined fields must be the type's own fields updated with the fields of each of its interfaces: {[o.text()[:140] for o in outs]}", gc.loc(),
              okmsg="combined fields = own fields + fields of every interface")
    # (d) which builder class a field of a given kind gets
    gf = repo.func(CFG_ + "_get_field_name")
    eff2 = lambda c: norm(c.func) == "self._add_import"
    kinds = {"GraphQLObjectType": ("f'{final_type.name}Fields'", True, False), "GraphQLInterfaceType": ("f'{final_type.name}Interface'", True, False),
             "GraphQLUnionType": ("f'{final_type.name}Union'", False, True), None: ("f'{definition_name}GraphQLField'", False, True)}
    for kind, (txt, method_required, imported) in kinds.items():
        def atom(e, kind=kind):
            t = norm(strip_pre(e))
            if t.startswith("isinstance(final_type, "):
                return kind is not None and t == f"isinstance(final_type, {kind})"
            return None
        outs = [o for o in Interp(gf, atom, is_effect=eff2).run() if o.kind == "return"]
        good = bool(outs)
        for o in outs:
            v = strip_pre(o.value)
            first = strip_pre(o.deref(v.elts[0])) if isinstance(v, ast.Tuple) and isinstance(v.elts[0], ast.Name) else (v.elts[0] if isinstance(v, ast.Tuple) else None)
            good = good and isinstance(v, ast.Tuple) and len(v.elts) == 2 and first is not None and norm(first) == txt and is_const(v.elts[1], method_required) and bool(o.effects) == imported
            if imported and o.effects:
                imp = norm(strip_pre(o.effects[0]))
                good = good and "from_='custom_typing_fields'" in imp and "level=1" in imp and f"names=[{txt}]" in imp
        ctx.check(good, key(gf, f"kind {kind or 'leaf'}"), f"a field whose final type is {kind or 'a scalar / enum'} must be built by {txt} (method: {method_required}, imported from custom_typing_fields: {imported}); "
                  f"got {[o.text()[:120] for o in outs]}", gf.loc(), okmsg=f"{kind or 'leaf'} field -> {txt}")
    # (e) member form: a method when the field takes arguments or selects an object / interface, else a class attribute built with the GraphQL name
    cf = repo.func(CFG_ + "_generate_class_field")
    for has_args, required in ((True, False), (False, True), (False, False)):
        def atom(e, has_args=has_args, required=required):
            t = norm(strip_pre(e))
            if t in ("getattr(field, 'args')", "field.args"):
                return has_args
            if t == "method_required":
                return required
            return None
        outs = [o for o in Interp(cf, atom).run() if o.kind == "return"]
        if has_args or required:
            good = bool(outs) and all(isinstance(strip_pre(o.value), ast.Call) and norm(strip_pre(o.value).func) == "self.generate_product_type_method" and
                                      norm(kw(strip_pre(o.value), "org_name") or ast.Constant(0)) == "org_name" for o in outs)
        else:
            good = bool(outs) and all(isinstance(strip_pre(o.value), ast.Call) and dotted(strip_pre(o.value).func) == "generate_ann_assign" and
                                      "generate_call(func=generate_name(name=field_name), args=[generate_constant(value=org_name)])" in norm(strip_pre(o.value)) and
                                      "target=generate_name(name=name)" in norm(strip_pre(o.value)) for o in outs)
        ctx.check(good, key(cf, f"args={has_args} method_required={required}"), f"[field with arguments={has_args}, object/interface type={required}] member must be "
                  f"{'a classmethod built by generate_product_type_method(..., org_name=org_name)' if has_args or required else 'the attribute `name = <FieldClass>(<GraphQL name>)`'}: {[o.text()[:140] for o in outs]}",
                  cf.loc(), okmsg=f"args={has_args} object={required} -> {'method' if has_args or required else 'attribute'} carrying the GraphQL name")
    # (f) which types get a builder class; interfaces also get on()
    po = repo.func(CFG_ + "_parse_object_type_definitions")
    eff3 = lambda c: norm(c.func) in ("class_defs.append", "class_def.body.append")
    for kind, on in (("GraphQLObjectType", False), ("GraphQLInterfaceType", True), (None, None)):
        def atom(e, kind=kind):
            t = norm(strip_pre(e))
            if t.startswith("isinstance("):
                return kind is not None and t.endswith(f", {kind})")
            return None
        outs = [o for o in Interp(po, atom, is_effect=eff3).run() if o.kind == "return" and any("loop body once" in t for t in o.trace)]
        effs = [[norm(strip_pre(e)) for e in o.effects] for o in outs]
        if kind is None:
            good = bool(outs) and all(not e for e in effs)
        else:
            good = bool(outs) and all(any(x.startswith("class_defs.append(") for x in e) and (any("self._generate_on_method(" in x for x in e) == on) for e in effs)
            good = good and all(any("self._generate_class_def_body(" in norm(v) for v in o.env.values() if isinstance(v, ast.AST)) or any("self._generate_class_def_body(" in x for x in e) for o, e in zip(outs, effs))
        ctx.check(good, key(po, f"type kind {kind or 'other'}"), f"[{kind or 'scalar / enum / input / union'}] builder classes: {effs[:1]}; expected "
                  f"{'none' if kind is None else 'one class' + (' with on()' if on else ' without on()')}", po.loc(), okmsg=f"{kind or 'other kinds'} -> {'no class' if kind is None else 'class' + (' + on()' if on else '')}")


@rule("C14.R10", "a builder class is named exactly as the members that reference it name it (type name + Fields / Interface), and every generated class is returned", min_instances=4, also=["C04"])
def c14_r10(ctx):
    repo = ctx.repo
    gs = repo.func(CFG_ + "_get_suffix")
    for kind, want in (("GraphQLObjectType", "'Fields'"), ("GraphQLInterfaceType", "'Interface'")):
        outs = Interp(gs, lambda e, kind=kind: (norm(strip_pre(e)) == f"isinstance(graphql_type, {kind})" if norm(strip_pre(e)).startswith("isinstance(graphql_type, ") else None)).run()
        ctx.check(bool(outs) and all(o.kind == "return" and norm(strip_pre(o.value)) in (want, {"'Fields'": "GRAPHQL_OBJECT_SUFFIX", "'Interface'": "GRAPHQL_INTERFACE_SUFFIX"}[want]) for o in outs),
                  key(gs, kind), f"the class of a {kind} is suffixed {[o.text()[:60] for o in outs]}, the members referencing it use {want} (_get_field_name): NameError / wrong builder in custom_fields.py", gs.loc(),
                  okmsg=f"{kind} -> suffix {want}")
    po = repo.func(CFG_ + "_parse_object_type_definitions")
    outs = [o for o in Interp(po, lambda e: (True if norm(strip_pre(e)).startswith("isinstance(") else None), is_effect=lambda c: norm(c.func) == "class_defs.append").run()
            if any("loop body once" in t for t in o.trace)]
    good = bool(outs) and all(o.kind == "return" and is_name(strip_pre(o.value), "class_defs") for o in outs)
    names = set()
    for o in outs:
        for v in list(o.env.values()) + list(o.effects):
            if isinstance(v, ast.AST):
                for c in ast.walk(v):
                    if isinstance(c, ast.Call) and norm(c.func) == "self._generate_class_def_body":
                        cn = kw(c, "class_name")
                        if cn is not None:
                            names.add(norm(cn))
    ctx.check(good, key(po, "returned"), f"the generated builder classes are not returned: {[o.text()[:80] for o in outs][:2]}", po.loc(), okmsg="all generated builder classes are returned")
    ctx.check(names == {"f'{<elem>(type_names) and self.schema.get_type(<elem>(type_names)).name}{self._get_suffix(graphql_type=self.schema.get_type(<elem>(type_names)))}'"} or
              all(("self._get_suffix(" in n and ".name" in n) for n in names) and bool(names), key(po, "class name"),
              f"builder classes are named {sorted(names)}; expected <type name> + _get_suffix(<type>)", po.loc(), okmsg="builder class name = type name + kind suffix")


TC_ = "client_generators.custom_generator_utils:TypeCollector."
CO_ = "client_generators.custom_operation:CustomOperationGenerator."


@rule("C14.R11", "builder classes exist for every type reachable from the query and mutation roots (worklist over fields, union members and interfaces)", min_instances=9, also=["C04"])
def c14_r11(ctx):
    repo = ctx.repo
    co = repo.func(TC_ + "collect")
    eff = lambda c: norm(c.func) == "self._collect_types"
    for q, m in ((True, True), (True, False), (False, True), (False, False)):
        outs = Interp(co, lambda e, q=q, m=m: (q if norm(strip_pre(e)) == "self.schema.query_type" else m if norm(strip_pre(e)) == "self.schema.mutation_type" else None), is_effect=eff).run()
        want = ([("self._collect_types(fields=self.schema.query_type.fields)", "self._collect_types(self.schema.query_type.fields)")] if q else []) + \
               ([("self._collect_types(fields=self.schema.mutation_type.fields)", "self._collect_types(self.schema.mutation_type.fields)")] if m else [])
        good = bool(outs)
        for o in outs:
            effs = [norm(strip_pre(e)) for e in o.effects]
            good = good and len(effs) == len(want) and all(e in w for e, w in zip(effs, want)) and o.kind == "return" and norm(strip_pre(o.value)) == "sorted(self.collected_types)"
        ctx.check(good, key(co, f"query={q} mutation={m}"), f"[query root={q}, mutation root={m}] roots walked: {[[norm(strip_pre(e))[:60] for e in o.effects] for o in outs]}, "
                  f"returns {[norm(strip_pre(o.value))[:50] if o.value is not None else None for o in outs]}; expected the present roots and sorted(collected)", co.loc(),
                  okmsg=f"query={q} mutation={m}: walks the present roots, returns the sorted names")
    ct = repo.func(TC_ + "_collect_types")
    outs = [o for o in Interp(ct, lambda e: None, is_effect=lambda c: norm(c.func) == "self._collect_dependent_types").run() if any("loop body once" in t for t in o.trace)]
    ctx.check(bool(outs) and all([norm(strip_pre(e)) for e in o.effects] in (["self._collect_dependent_types(graphql_type=get_final_type(type_=<elem>(fields.values())))"],
                                                                             ["self._collect_dependent_types(get_final_type(<elem>(fields.values())))"]) for o in outs),
              key(ct, "each field"), f"every root field's final type must be walked: {[o.text()[:120] for o in outs]}", ct.loc(), okmsg="every field of a root: its final type is walked")
    cd = repo.func(TC_ + "_collect_dependent_types")
    eff2 = lambda c: isinstance(c.func, ast.Attribute) and c.func.attr in ("add", "append", "extend") and dotted(c.func).split(".")[0] in ("self", "stack")

    def mk(visited, kind, sub_kind=None):
        def atom(e):
            t = norm(strip_pre(e))
            if t == "stack":
                return True
            if t.endswith(".name in self.visited_types"):
                return visited
            if t.endswith(".name not in self.visited_types"):
                return not visited
            if t.startswith("isinstance(") and "subfield" not in t and "get_final_type" not in t:
                return kind is not None and t.endswith(f", {kind})")
            if t.startswith("isinstance("):
                return sub_kind is not None and t.endswith(f", {sub_kind})")
            return None
        return atom

    def effects_of(visited, kind, sub_kind=None):
        res = []
        try:
            outs_ = Interp(cd, mk(visited, kind, sub_kind), is_effect=eff2, max_paths=64).run()
        except Exception:
            outs_ = []
        for o in outs_:
            res.append([norm(strip_pre(e)) for e in o.effects])
        return res
    # the while loop is summarised by the interpreter like a for loop (body once / skipped); the body is judged on the effect lists
    cur = "stack.pop()"
    rows = [("already visited", (True, "GraphQLObjectType", None), lambda e: not any("self.collected_types.add" in x or "stack.append" in x or "stack.extend" in x for x in e)),
            ("new object type", (False, "GraphQLObjectType", "GraphQLObjectType"), lambda e: any("self.visited_types.add(" in x for x in e) and any("self.collected_types.add(" in x for x in e) and any(x.startswith("stack.append(get_final_type(") for x in e) and any("interfaces" in x and x.startswith("stack.append(") for x in e)),
            ("object type with a union-typed field", (False, "GraphQLObjectType", "GraphQLUnionType"), lambda e: any(x.startswith("stack.extend(get_final_type(") and x.endswith(".types)") for x in e)),
            ("new interface type", (False, "GraphQLInterfaceType", "GraphQLObjectType"), lambda e: any("self.collected_types.add(" in x for x in e) and any(x.startswith("stack.append(get_final_type(") for x in e)),
            ("new union type", (False, "GraphQLUnionType", None), lambda e: any("self.collected_types.add(" in x for x in e) and any(x.startswith("stack.extend(") and x.endswith(".types)") for x in e))]
    for label, args, pred in rows:
        es = [e for e in effects_of(*args)]
        body_runs = [e for e in es if e] if label != "already visited" else es
        if label == "already visited":
            good = bool(body_runs) and all(pred(e) for e in body_runs)
        else:
            # paths on which an inner loop is skipped (a type without fields / interfaces) have fewer effects: every path marks and
            # collects the type, the full path expands it
            good = bool(body_runs) and all(any("self.visited_types.add(" in x for x in e) and any("self.collected_types.add(" in x for x in e) for e in body_runs) and any(pred(e) for e in body_runs)
        ctx.check(good, key(cd, label), f"[{label}] effects {body_runs[:2]}: a reachable type that is not collected gets no builder class (NameError in custom_fields.py); a visited type must not be expanded again", cd.loc(),
                  okmsg=f"[{label}] worklist step as specified")


CA_ = "client_generators.custom_arguments:ArgumentGenerator."


@rule("C14.R12", "custom operations: the root builder returns the builder class of the field's kind with the GraphQL field name; argument annotations / imports per argument kind; "
                 "required arguments positional, optional ones keyword-only defaulting to None", min_instances=20, also=["C04", "C07"])
def c14_r12(ctx):
    repo = ctx.repo
    # (a) return type of a root field builder, and where it is imported from
    gr = repo.func(CO_ + "_get_return_type_and_from")
    eff = lambda c: norm(c.func) == "self._type_imports.append"
    table = {"GraphQLObjectType": ("f'{final_type.name}Fields'", "CUSTOM_FIELDS_FILE_PATH.stem"), "GraphQLInterfaceType": ("f'{final_type.name}Interface'", "CUSTOM_FIELDS_FILE_PATH.stem"),
             "GraphQLUnionType": ("f'{final_type.name}Union'", "CUSTOM_FIELDS_TYPING_FILE_PATH.stem"), None: ("'GraphQLField'", "CUSTOM_FIELDS_TYPING_FILE_PATH.stem")}
    for kind, (nm, frm) in table.items():
        outs = [o for o in Interp(gr, lambda e, kind=kind: ((kind is not None and norm(strip_pre(e)) == f"isinstance(final_type, {kind})") if norm(strip_pre(e)).startswith("isinstance(final_type, ") else None),
                                  is_effect=eff).run() if o.kind == "return"]
        good = bool(outs)
        for o in outs:
            v = strip_pre(o.deref(o.value)) if isinstance(o.value, ast.Name) else strip_pre(o.value)
            imp = [strip_pre(allargs(strip_pre(e))[0]) for e in o.effects if allargs(strip_pre(e))]
            good = good and norm(v) in (nm, "GRAPHQL_BASE_FIELD_CLASS" if kind is None else nm) and len(imp) == 1
            if good:
                f_ = kw(imp[0], "from_")
                f_ = strip_pre(o.deref(f_)) if isinstance(f_, ast.Name) else f_
                n_ = kw(imp[0], "names")
                good = f_ is not None and norm(f_) == frm and is_const(kw(imp[0], "level"), 1) and n_ is not None and isinstance(n_, ast.List) and len(n_.elts) == 1 and \
                    norm(strip_pre(o.deref(n_.elts[0])) if isinstance(n_.elts[0], ast.Name) else n_.elts[0]) in (nm, "GRAPHQL_BASE_FIELD_CLASS")
        ctx.check(good, key(gr, f"kind {kind or 'leaf'}"), f"a root field of kind {kind or 'scalar / enum'} must return {nm}, imported (level 1) from {frm}: {[o.text()[:140] for o in outs]}", gr.loc(),
                  okmsg=f"{kind or 'leaf'} root field -> {nm} from {frm}")
    # (b) one classmethod per root field; `pass` for an empty root; module = imports + type imports + class
    g = repo.func(CO_ + "generate")
    eff2 = lambda c: norm(c.func) in ("self._class_def.body.append", "self.argument_generator.add_custom_scalar_imports")
    outs = [o for o in Interp(g, lambda e: (False if norm(strip_pre(e)) == "not self._class_def.body" else True if norm(strip_pre(e)) == "self._class_def.body" else None), is_effect=eff2).run()
            if o.kind == "return" and any("loop body once" in t for t in o.trace)]
    good = bool(outs)
    for o in outs:
        effs = [norm(strip_pre(e)) for e in o.effects]
        el = "<elem>(self.graphql_fields.items())"
        md = [norm(strip_pre(o.deref(allargs(strip_pre(e))[0]))) for e in o.effects if norm(strip_pre(e).func) == "self._class_def.body.append" and allargs(strip_pre(e))]
        good = good and len(md) == 1 and md[0].startswith("self._generate_method(") and f"operation_name={el}[0]" in md[0] and f"operation_args={el}[1].args" in md[0] and f"final_type=get_final_type(type_={el}[1])" in md[0] \
            and "self.argument_generator.add_custom_scalar_imports()" in effs
        v = norm(strip_pre(subst(o.value, o.env, deep=True)))
        good = good and v.startswith("generate_module(body=") and v.index("self._imports") < v.index("self._type_imports") < v.index("[self._class_def]")
    ctx.check(good, key(g, "methods"), f"one builder method per root field (name, args, final type of that field), scalar imports added, module = imports + type imports + class: {[o.text()[:160] for o in outs][:1]}", g.loc(),
              okmsg="one method per root field; module = imports + type imports + class")
    outs = [o for o in Interp(g, lambda e: (True if norm(strip_pre(e)) == "not self._class_def.body" else False if norm(strip_pre(e)) == "self._class_def.body" else None), is_effect=eff2).run()
            if o.kind == "return" and any("loop skipped" in t for t in o.trace)]
    ctx.check(bool(outs) and all(any(norm(strip_pre(e)) == "self._class_def.body.append(ast.Pass())" for e in o.effects) for o in outs), key(g, "empty root"),
              "a root type without fields must give a class with `pass` (an empty class body is a SyntaxError)", g.loc(), okmsg="empty root -> class body `pass`")
    # (c) the emitted method
    from ..shape import Shaper, nodes, chain, seq_items, is_lit, Node
    sh = Shaper(repo)
    gm = repo.func(CO_ + "_generate_method")
    v = sh.call_function(gm)
    fdefs = [n for n in nodes(v, "FunctionDef")]
    good = bool(fdefs)
    for f in fdefs:
        decos = seq_items(f.get("decorator_list"))
        good = good and len(decos) == 1 and isinstance(decos[0], Node) and is_lit(decos[0].get("id"), "classmethod") and "str_to_snake_case" in repr(f.get("name")) and "operation_name" in repr(f.get("name"))
        rets = [r for r in nodes(f, "Return")]
        good = good and len(rets) == 1
        if good:
            call = rets[0].get("value")
            kws = [k for k in seq_items(call.get("keywords")) if isinstance(k, Node)] if isinstance(call, Node) else []
            first = kws[0] if kws else None
            good = isinstance(call, Node) and call.kind == "Call" and not seq_items(call.get("args")) and first is not None and is_lit(first.get("arg"), "field_name") and \
                isinstance(first.get("value"), Node) and first.get("value").kind == "Constant" and chain(first.get("value").get("value")) == "$operation_name"
    ctx.check(good, key(gm, "emitted"), f"the emitted root builder must be `@classmethod def <snake_case(name)>(...): [arguments...] return <Type>(field_name=<GraphQL name>, ...)`: {repr(v)[:300]}", gm.loc(),
              okmsg="emitted: classmethod <snake name> -> <Type>(field_name=<GraphQL name>, arguments=cleared)")
    # the generator side of the method: imports of the argument types are taken over; arguments are cleared only when there are any
    effg = lambda c: norm(c.func) in ("self._imports.extend", "self.argument_generator.generate_clear_arguments_section")
    for has_args in (True, False):
        outs = Interp(gm, lambda e, h=has_args: (h if norm(strip_pre(e)) == "operation_args" else None), is_effect=effg).run()
        good = bool(outs)
        for o in outs:
            effs = [norm(strip_pre(e)) for e in o.effects]
            good = good and "self._imports.extend(self.argument_generator.imports)" in effs
            uses_clear = "generate_clear_arguments_section(" in norm(strip_pre(subst(o.value, o.env, deep=True))) if o.value is not None else False
            good = good and uses_clear == has_args
        ctx.check(good, key(gm, f"operation_args={has_args}"), f"[field with arguments={has_args}] imports of argument types must be taken over and the `arguments` / `cleared_arguments` section emitted iff there are arguments: "
                  f"{[o.text()[:120] for o in outs][:1]}", gm.loc(), okmsg=f"arguments={has_args}: imports taken over, cleared-arguments section {'emitted' if has_args else 'left out'}")
    ga = repo.func(CA_ + "generate_arguments")
    effa = lambda c: norm(c.func) in ("self._accumulate_method_arguments", "self._accumulate_return_arguments")
    outs = [o for o in Interp(ga, lambda e: None, is_effect=effa).run() if o.kind == "return" and any("loop body once" in t for t in o.trace)]
    good = bool(outs)
    for o in outs:
        effs = [norm(strip_pre(e)) for e in o.effects]
        good = good and len(effs) == 2 and effs[0].startswith("self._accumulate_method_arguments(") and effs[1].startswith("self._accumulate_return_arguments(")
        v = strip_pre(o.value)
        good = good and isinstance(v, ast.Tuple) and len(v.elts) == 3 and "self._assemble_method_arguments(" in norm(strip_pre(o.deref(v.elts[0])) if isinstance(v.elts[0], ast.Name) else v.elts[0])
        good = good and "is_required=isinstance(<elem>(operation_args.items())[1].type, GraphQLNonNull)" in effs[0].replace(" ", "").replace("is_required=isinstance(", "is_required=isinstance(").replace(",GraphQLNonNull", ", GraphQLNonNull") or             (good and "isinstance(<elem>(operation_args.items())[1].type, GraphQLNonNull)" in effs[0])
    ctx.check(good, key(ga, "per argument"), f"every argument must be added to the signature and to the arguments dict, and (signature, keys, values) returned: {[o.text()[:140] for o in outs][:1]}", ga.loc(),
              okmsg="per argument: signature entry + arguments-dict entry; returns (signature, keys, values)")
    ai = repo.func(CA_ + "add_custom_scalar_imports")
    outs = [o for o in Interp(ai, lambda e: None, is_effect=lambda c: norm(c.func) == "self._add_import").run() if sum(1 for t in o.trace if "loop body once" in t) >= 2]
    ctx.check(bool(outs) and all(len(o.effects) == 1 and "generate_scalar_imports(" in norm(strip_pre(o.effects[0])) and "self.custom_scalars[<elem>(self._used_custom_scalars)]" in norm(strip_pre(o.effects[0])) for o in outs),
              key(ai, "scalar imports"), f"every import of every used custom scalar must be added: {[o.text()[:140] for o in outs][:1]}", ai.loc(), okmsg="imports of every used custom scalar are added")
    src = norm(gm.node)
    ctx.check("self.argument_generator.generate_arguments(operation_args=operation_args)" in src or "self.argument_generator.generate_arguments(operation_args)" in src, key(gm, "arguments source"),
              "the method's arguments are not generated from the field's own arguments", gm.loc(), okmsg="arguments <- the field's own arguments")
    # (d) argument kinds: annotation name and import
    pt = repo.func(CA_ + "_parse_graphql_type_name")
    eff3 = lambda c: norm(c.func) in ("self._add_import", "self._used_custom_scalars.append")
    rows = [("GraphQLInputObjectType", None, None, "type_.name", ["generate_import_from(names=[type_.name], from_='input_types', level=1)"], "None"),
            ("GraphQLEnumType", None, None, "type_.name", ["generate_import_from(names=[type_.name], level=1)"], "None"),
            ("GraphQLScalarType", False, False, "INPUT_SCALARS_MAP.get(type_.name, 'Any')", [], "None"),
            ("GraphQLScalarType", False, True, "INPUT_SCALARS_MAP.get(type_.name, 'Any')", ["generate_import_from(names=['Upload'], from_=BASE_MODEL_FILE_PATH.stem, level=1)"], "None"),
            ("GraphQLScalarType", True, False, "self.custom_scalars[type_.name].type_name", [], "type_.name")]
    for kind, custom, upload, name_txt, imports, scalar in rows:
        def atom(e, kind=kind, custom=custom, upload=upload):
            t = norm(strip_pre(e))
            if t.startswith("isinstance(type_, "):
                return t == f"isinstance(type_, {kind})"
            if t.endswith(" not in self.custom_scalars"):
                return not custom
            if t.endswith(" in self.custom_scalars"):
                return custom
            if t.endswith("== UPLOAD_CLASS_NAME") or t.endswith("== 'Upload'"):
                return upload
            return None
        outs = [o for o in Interp(pt, atom, is_effect=eff3).run() if o.kind == "return"]
        good = bool(outs)
        for o in outs:
            v = strip_pre(o.value)
            ann = strip_pre(v.elts[0]) if isinstance(v, ast.Tuple) and len(v.elts) == 2 else None
            sc = v.elts[1] if isinstance(v, ast.Tuple) and len(v.elts) == 2 else None
            sc = strip_pre(o.deref(sc)) if isinstance(sc, ast.Name) else sc
            nm_ = argv(ann, 0, "name") if isinstance(ann, ast.Call) and dotted(ann.func) == "generate_annotation_name" else None
            nm_ = strip_pre(subst(nm_, o.env, deep=True)) if nm_ is not None else None
            imps = [norm(strip_pre(allargs(strip_pre(e))[0])) for e in o.effects if norm(strip_pre(e).func) == "self._add_import" and allargs(strip_pre(e))]
            imps = [norm(strip_pre(subst(ast.parse(i, mode="eval").body, o.env, deep=True))) if False else i for i in imps]
            good = good and nm_ is not None and norm(nm_) == name_txt and norm(argv(ann, 1, "nullable") or ast.Constant(0)) == "nullable" and sc is not None and norm(sc) == scalar
            good = good and len(imps) == len(imports)
            for got_i, want_i in zip(imps, imports):
                gi_ = norm(strip_pre(subst(strip_pre(allargs(strip_pre([e for e in o.effects if norm(strip_pre(e).func) == "self._add_import"][imps.index(got_i)]))[0]), o.env, deep=True)))
                good = good and gi_ == want_i
            if custom:
                good = good and any(norm(strip_pre(e)) in ("self._used_custom_scalars.append(type_.name)",) or "self._used_custom_scalars.append(" in norm(strip_pre(e)) for e in o.effects)
        label = f"{kind}" + ("" if custom is None else f" custom={custom} upload={upload}")
        ctx.check(good, key(pt, label), f"[{label}] annotation name / nullable flag / imports / reported scalar: {[o.text()[:160] for o in outs]}; expected generate_annotation_name({name_txt}, nullable), "
                  f"{len(imports)} import(s), scalar {scalar}", pt.loc(), okmsg=f"[{label}] -> {name_txt}, {len(imports)} import(s)")
    outs = Interp(pt, lambda e: (False if norm(strip_pre(e)).startswith("isinstance(type_, ") else None), is_effect=eff3).run()
    ctx.check(bool(outs) and all(o.kind == "raise" and o.exc == "ParsingError" for o in outs), key(pt, "other kind"), "an argument of an output kind must be rejected with ParsingError", pt.loc(),
              okmsg="argument of another kind -> ParsingError")
    # (e) required -> positional; optional -> keyword-only with default None
    am = repo.func(CA_ + "_accumulate_method_arguments")
    eff4 = lambda c: isinstance(c.func, ast.Attribute) and c.func.attr == "append"
    for req in (True, False):
        outs = Interp(am, lambda e, req=req: (req if norm(strip_pre(e)) == "is_required" else (not req) if norm(strip_pre(e)) == "not is_required" else None), is_effect=eff4).run()
        effs = [[norm(strip_pre(e)) for e in o.effects] for o in outs]
        want = ["args.append(generate_arg(name=name, annotation=annotation))"] if req else ["kw_only_args.append(generate_arg(name=name, annotation=annotation))", "kw_defaults.append(generate_constant(value=None))"]
        ctx.check(bool(effs) and all(e == want for e in effs), key(am, f"required={req}"), f"[argument required={req}] {effs}; expected {want}: an optional argument without a None default cannot be left out "
                  "(and a None argument would not be cleared), a required one must not default", am.loc(), okmsg=f"required={req} -> {'positional' if req else 'keyword-only = None'}")
    asm = repo.func(CA_ + "_assemble_method_arguments")
    outs = [o for o in Interp(asm, lambda e: None).run() if o.kind == "return"]
    ctx.check(bool(outs) and all(norm(strip_pre(o.value)) == "generate_arguments(args=[cls_arg, *args], kwonlyargs=kw_only_args, kw_defaults=kw_defaults)" for o in outs), key(asm, "signature"),
              f"the signature must be (cls, *required, *, optional=None...): {[o.text()[:120] for o in outs]}", asm.loc(), okmsg="signature = cls + required, keyword-only optional with defaults")


EMITTED_CLIENT_METHODS = {
    "_generate_method": """def _H_name(_H_arguments):
    _H_variable_names_query = gql(LINES)
    _H_variable_names_variables = _H_arguments_dict
    _H_variable_names_response = self.execute(query=_H_variable_names_query, operation_name=_C_operation_name, variables=_H_variable_names_variables, **kwargs)
    _H_variable_names_data = self.get_data(_H_variable_names_response)
    return _H_return_type.model_validate(_H_variable_names_data)""",
    "_generate_async_method": """async def _H_name(_H_arguments):
    _H_variable_names_query = gql(LINES)
    _H_variable_names_variables = _H_arguments_dict
    _H_variable_names_response = await self.execute(query=_H_variable_names_query, operation_name=_C_operation_name, variables=_H_variable_names_variables, **kwargs)
    _H_variable_names_data = self.get_data(_H_variable_names_response)
    return _H_return_type.model_validate(_H_variable_names_data)""",
    "_generate_subscription_method_def": """async def _H_name(_H_arguments):
    _H_variable_names_query = gql(LINES)
    _H_variable_names_variables = _H_arguments_dict
    async for _H_variable_names_data in self.execute_ws(query=_H_variable_names_query, operation_name=_C_operation_name, variables=_H_variable_names_variables, **kwargs):
        yield _H_return_type.model_validate(_H_variable_names_data)""",
}


@rule("C12.R4", "every generated client method is: bind the document and the variables, execute, get_data, model_validate - on the (renamed) locals, in that order, nothing else",
      min_instances=3, also=["C02", "C03", "C13", "C01"])
def c12_r4(ctx):
    import re
    from ..shape import Shaper, renders
    repo = ctx.repo
    sh = Shaper(repo)
    for fn, want in EMITTED_CLIENT_METHODS.items():
        fi = repo.func("client_generators.client:ClientGenerator." + fn)
        got = [re.sub(r"gql\([^\n]*\)$", "gql(LINES)", r, count=1, flags=re.M) for r in renders(sh.call_function(fi))]
        want_n = ast.unparse(ast.parse(want))
        diff = ""
        if got != [want_n] and len(got) == 1:
            for a, b in zip(got[0].splitlines(), want_n.splitlines()):
                if a != b:
                    diff = f"first difference: emitted `{a.strip()[:150]}` / specified `{b.strip()[:150]}`"
                    break
            else:
                diff = f"emitted {len(got[0].splitlines())} statements, specified {len(want_n.splitlines())}"
        ctx.check(got == [want_n], key(fi, "emitted method"), f"{fi.qualname} does not emit the specified method body; {diff or got[:1]}. (`_H_x` = the generator's parameter x, `_H_variable_names_k` = the "
                  "local that get_variable_names renamed for k; the validated model must be built from what get_data returned for the response of this very call)", fi.loc(),
                  okmsg=f"{fi.qualname}: emitted body as specified")


@rule("C04.R15", "import collectors: an import is recorded iff it is given and names something - after the plugin hook had its say; nothing else decides", min_instances=16,
      also=["C14", "C15", "C02"])
def c04_r15(ctx):
    repo = ctx.repo
    sites = [("client_generators.client:ClientGenerator._add_import", "self._imports.append", True), ("client_generators.custom_fields:CustomFieldsGenerator._add_import", "self._imports.append", False),
             ("client_generators.custom_operation:CustomOperationGenerator._add_import", "self._imports.append", True), ("client_generators.custom_arguments:ArgumentGenerator._add_import", "self.imports.append", False)]
    for fk, sink, needs_module in sites:
        fi = repo.func(fk)
        p = real_params(fi)[0]
        for given, plugins, names, module in ((False, False, True, True), (True, False, True, True), (True, True, True, True), (True, False, False, True), (True, False, True, False)):
            def atom(e, given=given, plugins=plugins, names=names, module=module):
                t = norm(strip_pre(e))
                if t in (p, f"{p} is not None"):
                    return given
                if t in (f"not {p}", f"{p} is None"):
                    return not given
                if t == "self.plugin_manager":
                    return plugins
                if t.endswith(".names"):
                    return names
                if t.endswith(".module"):
                    return module
                return None
            outs = Interp(fi, atom, is_effect=lambda c, sink=sink: norm(c.func) == sink).run()
            recorded = [[norm(strip_pre(e)) for e in o.effects] for o in outs]
            expect = given and names and (module or not needs_module)
            if not module and not needs_module:
                continue
            if expect:
                what = f"{sink}(self.plugin_manager.generate_client_import({p}))" if plugins else f"{sink}({p})"
                good = bool(recorded) and all(r in ([what], [what.replace(f"({p}))", f"(import_={p}))")]) for r in recorded)
            else:
                good = bool(recorded) and all(not r for r in recorded)
            ctx.check(good, key(fi, f"given={given} plugins={plugins} names={names} module={module}"),
                      f"{fi.qualname}[import given={given}, plugins={plugins}, has names={names}, has module={module}] records {recorded}; expected "
                      f"{'the import (as returned by the plugin hook)' if expect and plugins else 'the import' if expect else 'nothing'}: a dropped import is a NameError in the generated module", fi.loc(),
                      okmsg=f"{fi.qualname}: given={given} plugins={plugins} names={names} module={module} -> {'recorded' if expect else 'skipped'}")


@rule("C14.R13", "with custom operations the client class gets execute_custom_operation, its four helpers and the imports they use; query / mutation entry points match the client flavour",
      min_instances=5, also=["C04", "C12"])
def c14_r13(ctx):
    repo = ctx.repo
    CG2 = "client_generators.client:ClientGenerator."
    fi = repo.func(CG2 + "add_execute_custom_operation_method")
    eff = lambda c: norm(c.func) in ("self._class_def.body.append", "self._add_import")
    outs = Interp(fi, lambda e: None, is_effect=eff).run()
    good = len(outs) == 1
    if good:
        effs = [strip_pre(e) for e in outs[0].effects]
        apps = [norm(allargs(e)[0]) for e in effs if norm(e.func) == "self._class_def.body.append" and allargs(e)]
        imps = [allargs(e)[0] for e in effs if norm(e.func) == "self._add_import" and allargs(e)]
        want_apps = ["self.create_execute_custom_operation_method(async_client=async_client)", "self.create_combine_variables_method()", "self.create_build_variable_definitions_method()",
                     "self.create_build_operation_ast_method()", "self.create_build_selection_set()"]
        ctx.check(sorted(apps) == sorted(want_apps), key(fi, "methods"), f"the client class gets {apps}; expected the executor and its four helpers (a missing helper is an AttributeError on the first custom operation)", fi.loc(),
                  okmsg="executor + combine_variables + build_variable_definitions + build_operation_ast + build_selection_set appended")
        names = set()
        mods = {}
        for i in imps:
            nl = argv(i, 0, "names")
            fr = argv(i, 1, "from_")
            for e in getattr(nl, "elts", []):
                names.add(str(norm(e)).strip("'"))
                mods[str(norm(e)).strip("'")] = (norm(fr) if fr is not None else None, norm(kw(i, "level")) if kw(i, "level") is not None else "0")
        need = {"DocumentNode", "OperationDefinitionNode", "NameNode", "SelectionSetNode", "print_ast", "VariableDefinitionNode", "VariableNode", "NamedTypeNode", "SelectionNode", "GraphQLField", "Dict", "Tuple", "List", "Any"}
        ctx.check(need <= names, key(fi, "imports"), f"names used by the emitted helpers but not imported: {sorted(need - names)}", fi.loc(), okmsg=f"{len(need)} names used by the helpers are imported")
        gf = mods.get("GraphQLField")
        ctx.check(gf is not None and gf[1] == "1" and gf[0] in ("BASE_OPERATION_FILE_PATH.stem", "'base_operation'"), key(fi, "GraphQLField import"), f"GraphQLField is imported from {gf}; expected the sibling module base_operation (level 1)", fi.loc(),
                  okmsg="GraphQLField <- .base_operation")
    else:
        ctx.fail(key(fi, "methods"), f"{len(outs)} paths through add_execute_custom_operation_method", fi.loc())
    cm = repo.func(CG2 + "create_custom_operation_method")
    for asy in (True, False):
        outs = Interp(cm, lambda e, asy=asy: (asy if norm(strip_pre(e)) == "async_client" else (not asy) if norm(strip_pre(e)) == "not async_client" else None), is_effect=eff).run()
        good = bool(outs)
        for o in outs:
            effs = [strip_pre(e) for e in o.effects]
            apps = [norm(strip_pre(o.deref(allargs(e)[0])) if isinstance(allargs(e)[0], ast.Name) else allargs(e)[0]) for e in effs if norm(e.func) == "self._class_def.body.append" and allargs(e)]
            imps = [norm(allargs(e)[0]) for e in effs if norm(e.func) == "self._add_import" and allargs(e)]
            builder = "self._create_async_operation_method" if asy else "self._create_sync_operation_method"
            good = good and len(apps) == 1 and apps[0] in (f"{builder}(name=name, operation_type=operation_type)", f"{builder}(name, operation_type)") and \
                any("OPERATION_TYPE" in i.replace("'OperationType'", "OPERATION_TYPE") and ("GRAPHQL_MODULE" in i or "'graphql'" in i) for i in imps)
        ctx.check(good, key(cm, f"async={asy}"), f"[async client={asy}] the entry point must be built by the {'async' if asy else 'sync'} builder with (name, operation_type), appended to the class, and OperationType imported: "
                  f"{[o.text()[:140] for o in outs][:1]}", cm.loc(), okmsg=f"async={asy}: entry point built by the matching builder, appended, OperationType imported")


BO_ = "client_generators.dependencies.base_operation:"


@rule("C14.R14", "the runtime builder turns a field object into exactly: its (aliased) name, one argument per formatted variable bound to that variable, its sub-selections and inline fragments",
      min_instances=8, also=["C04"])
def c14_r14(ctx):
    repo = ctx.repo
    ga = repo.func(BO_ + "GraphQLArgument.to_ast")
    outs = [o for o in Interp(ga, lambda e: None).run() if o.kind == "return"]
    ctx.check(bool(outs) and all(norm(strip_pre(o.value)) == "ArgumentNode(name=NameNode(value=self._name), value=VariableNode(name=NameNode(value=self._value)))" for o in outs), key(ga, "argument"),
              f"an argument must be `<name>: $<variable>`: {[o.text()[:140] for o in outs]}", ga.loc(), okmsg="argument -> ArgumentNode(name, VariableNode(variable name))")
    gi = repo.cls(BO_ + "GraphQLArgument").methods["__init__"]
    st = {norm(s_.targets[0]): norm(s_.value) for s_ in ast.walk(gi.node) if isinstance(s_, ast.Assign)}
    ps = real_params(gi)
    ctx.check(st.get("self._name") == ps[0] and st.get("self._value") == ps[1], key(gi, "stores"), f"GraphQLArgument stores {st}", gi.loc(), okmsg="GraphQLArgument keeps (name, variable name)")
    fi = repo.func(BO_ + "GraphQLField.to_ast")
    eff = lambda c: norm(c.func) == "self._collect_all_variables"
    for sub, inl in ((True, False), (False, True), (False, False)):
        def atom(e, sub=sub, inl=inl):
            t = norm(strip_pre(e))
            if t == "used_names is None":
                return True
            if t == "self._subfields":
                return sub
            if t == "self._inline_fragments":
                return inl
            return None
        it = Interp(fi, atom, is_effect=eff)
        outs = [o for o in it.run() if o.kind == "return"]
        good = bool(outs)
        for o in outs:
            effs = [norm(strip_pre(e)) for e in o.effects]
            good = good and effs in (["self._collect_all_variables(idx=idx, used_names=set())"], ["self._collect_all_variables(idx, set())"], ["self._collect_all_variables(idx=idx, used_names=used_names)"])
            v = strip_pre(it._simp(subst(o.value, o.env, deep=True), o.env))
            good = good and isinstance(v, ast.Call) and dotted(v.func) == "FieldNode"
            if good:
                nm, ar, ss = kw(v, "name"), kw(v, "arguments"), kw(v, "selection_set")
                good = nm is not None and norm(nm) == "NameNode(value=self._build_field_name())"
                cs = comp_struct(strip_pre(ar)) if ar is not None else None
                good = good and cs is not None and cs[0] in ("GraphQLArgument(argument_name=$0_1['name'], argument_value=$0_0).to_ast()", "GraphQLArgument($0_1['name'], $0_0).to_ast()") and \
                    [(str(a), list(map(str, b))) for a, b in cs[1]] == [("self.formatted_variables.items()", [])]
                ss_t = norm(strip_pre(ss)) if ss is not None else "None"
                want_ss = "SelectionSetNode(selections=self._build_selections(idx=idx, used_names=set()))" if (sub or inl) else "None"
                good = good and ss_t in (want_ss, want_ss.replace("idx=idx, used_names=set()", "idx, set()"), want_ss.replace("used_names=set()", "used_names=used_names"))
        ctx.check(good, key(fi, f"subfields={sub} inline={inl}"), f"[sub-fields={sub}, inline fragments={inl}] to_ast gives {[o.text()[:200] for o in outs][:1]}; expected variables collected first, then "
                  "FieldNode(name=<built name>, arguments=[one per formatted variable: original name -> unique variable], selection_set iff there is something to select)", fi.loc(),
                  okmsg=f"sub-fields={sub} inline={inl}: FieldNode(name, arguments per variable, selection set {'present' if sub or inl else 'None'})")
    bs = repo.func(BO_ + "GraphQLField._build_selections")
    outs = [o for o in Interp(bs, lambda e: None).run() if o.kind == "return"]
    good = bool(outs)
    for o in outs:
        nm = o.value.id if isinstance(o.value, ast.Name) else None
        base = strip_pre(o.deref(o.value)) if nm else strip_pre(o.value)
        ms = [strip_pre(m) for m in (o.muts(nm) if nm else [])]
        cs = comp_struct(base) if isinstance(base, (ast.ListComp,)) else None
        good = good and cs is not None and cs[0] in ("$0.to_ast(idx=idx, used_names=used_names)", "$0.to_ast(idx, used_names)") and [(str(a), list(map(str, b))) for a, b in cs[1]] == [("self._subfields", [])]
        # the loop over the inline fragments is an `extend(<generator>)` after loading
        ext = [m for m in ms if isinstance(m, ast.Call) and isinstance(m.func, ast.Attribute) and m.func.attr == "extend" and m.args and isinstance(m.args[0], (ast.GeneratorExp, ast.ListComp))]
        ok_ext = False
        for m in ext:
            c2 = comp_struct(m.args[0])
            inner = [n for n in ast.walk(m.args[0].elt) if isinstance(n, (ast.ListComp, ast.GeneratorExp))]
            ok_ext = ok_ext or (c2 is not None and [(str(a), list(map(str, b))) for a, b in c2[1]] == [("self._inline_fragments.items()", [])]
                                and str(c2[0]).startswith("InlineFragmentNode(type_condition=NamedTypeNode(name=NameNode(value=$0_0)), selection_set=SelectionSetNode(selections=[")
                                and len(inner) == 1 and ".to_ast(" in norm(inner[0].elt) and str(c2[0]).rstrip(")").endswith(" in $0_1]"))
        good = good and ok_ext and len(ms) == len(ext) == 1
    ctx.check(good, key(bs, "selections"), f"selections must be every sub-field (in order) followed by one `... on <Type> {{ ... }}` per inline fragment with that fragment's own sub-fields: {[o.text()[:200] for o in outs][:1]}",
              bs.loc(), okmsg="selections = sub-fields + one inline fragment node per type with its own sub-fields")
    al = repo.func(BO_ + "GraphQLField.alias")
    outs = Interp(al, lambda e: None, is_effect=lambda c: is_name(c.func, "<setattr>")).run()
    ctx.check(bool(outs) and all(o.kind == "return" and is_name(strip_pre(o.value), "self") and [norm(strip_pre(e)) for e in o.effects] == [f"<setattr>(self, '_alias', {real_params(al)[0]})"] for o in outs),
              key(al, "alias"), f"alias() must store the alias and return the field: {[o.text()[:100] for o in outs]}", al.loc(), okmsg="alias(): stores, returns self")
    init = repo.cls(BO_ + "GraphQLField").methods["__init__"]
    st = {}
    for s_ in ast.walk(init.node):
        if isinstance(s_, ast.Assign):
            st[norm(s_.targets[0])] = norm(s_.value)
        elif isinstance(s_, ast.AnnAssign) and s_.value is not None:
            st[norm(s_.target)] = norm(s_.value)
    ps = real_params(init)
    want = {"self._field_name": ps[0], "self._subfields": "[]", "self._alias": "None", "self._inline_fragments": "{}", "self.formatted_variables": "{}"}
    good = all(st.get(k) == v for k, v in want.items()) and st.get("self._variables") in (f"{ps[1]} or {{}}", f"{ps[1]} if {ps[1]} is not None else {{}}", f"dict({ps[1]} or {{}})")
    ctx.check(good, key(init, "fresh state"), f"a new field object must start with its own name, the given arguments (or none), no sub-fields, no alias, no inline fragments: {st}", init.loc(),
              okmsg="GraphQLField(): own name and arguments, everything else empty and per instance")


@rule("C17.R9", "the entry points route: strategy -> its function; schema from the configured source (path wins over url); operations only when a queries path is set", min_instances=9,
      also=["C19", "C16", "C02", "C04", "C01"])
def c17_r9(ctx):
    repo = ctx.repo
    m = repo.func("main:main")
    eff = lambda c: dotted(c.func) in ("client", "graphql_schema")
    for strat, want in (("CLIENT", "client"), ("GRAPHQL_SCHEMA", "graphql_schema")):
        def atom(e, strat=strat):
            t = norm(strip_pre(e))
            for s_ in ("CLIENT", "GRAPHQL_SCHEMA"):
                if t in (f"strategy == Strategy.{s_}", f"strategy is Strategy.{s_}", f"strategy == Strategy.{s_}.value"):
                    return s_ == strat
                if t in (f"strategy != Strategy.{s_}",):
                    return s_ != strat
            return None
        outs = Interp(m, atom, is_effect=eff).run()
        effs = [[dotted(strip_pre(e).func) for e in o.effects] for o in outs]
        ctx.check(bool(effs) and all(e == [want] for e in effs), key(m, f"strategy {strat}"), f"strategy {strat} runs {effs}; expected exactly {want}(config_dict)", m.loc(), okmsg=f"strategy {strat} -> {want}()")
    def S(t):
        return str(t).replace("get_client_settings(config_dict=config_dict)", "settings").replace("get_graphql_schema_settings(config_dict=config_dict)", "settings") \
            .replace("get_client_settings(config_dict)", "settings").replace("get_graphql_schema_settings(config_dict)", "settings")

    for fn in ("client", "graphql_schema"):
        fi = repo.func("main:" + fn)
        effs_of = lambda c: dotted(c.func) in ("get_graphql_schema_from_path", "get_graphql_schema_from_url", "get_graphql_queries", "filter_operations_definitions", "filter_fragments_definitions")
        for has_path in (True, False):
            def atom(e, has_path=has_path):
                t = S(norm(strip_pre(e)))
                if t == "settings.schema_path":
                    return has_path
                if t == "not settings.schema_path":
                    return not has_path
                if t == "settings.queries_path":
                    return False
                return None
            it = Interp(fi, atom, is_effect=effs_of)
            outs = it.run()
            good = bool(outs)
            for o in outs:
                calls = [S(norm(strip_pre(e))) for e in o.effects]
                loaders = [c for c in calls if c.startswith("get_graphql_schema_from_")]
                # the loader may also be evaluated inside a conditional expression that the scenario decides
                txt = " ".join(calls) + " " + " ".join(S(norm(strip_pre(it._simp(subst(v_, o.env), o.env)))) for v_ in o.env.values() if isinstance(v_, ast.AST))
                if has_path:
                    good = good and ("get_graphql_schema_from_path(schema_path=settings.schema_path)" in txt or "get_graphql_schema_from_path(settings.schema_path)" in txt) and \
                        "get_graphql_schema_from_url(" not in txt
                else:
                    good = good and "get_graphql_schema_from_url(url=settings.remote_schema_url, headers=settings.remote_schema_headers, verify_ssl=settings.remote_schema_verify_ssl)" in txt and \
                        "get_graphql_schema_from_path(" not in txt
            ctx.check(good, key(fi, f"schema_path set={has_path}"), f"main.{fn} with schema_path {'set' if has_path else 'unset'}: the schema must come from "
                      f"{'get_graphql_schema_from_path(settings.schema_path)' if has_path else 'get_graphql_schema_from_url(url, headers, verify_ssl of the settings)'} and from nothing else", fi.loc(),
                      okmsg=f"main.{fn}: schema_path {'set -> file(s)' if has_path else 'unset -> introspection'}")
    fi = repo.func("main:client")
    effq = lambda c: dotted(c.func) in ("get_graphql_queries", "get_package_generator", "package_generator.add_operation") or norm(c.func).endswith(".add_operation")
    for has_q in (True, False):
        outs = [o for o in Interp(fi, lambda e, has_q=has_q: (has_q if S(norm(strip_pre(e))) == "settings.queries_path" else True if S(norm(strip_pre(e))) == "settings.schema_path" else None), is_effect=effq).run()
                if not has_q or any("loop body once" in t for t in o.trace)]
        good = bool(outs)
        for o in outs:
            calls = [S(norm(strip_pre(subst(strip_pre(e), o.env, deep=True)))) for e in o.effects]
            if has_q:
                good = good and any(c.startswith("get_graphql_queries(") and "settings.queries_path" in c for c in calls) and \
                    any(".add_operation(" in c and "<elem>(filter_operations_definitions(" in c for c in calls) and \
                    any(c.startswith("get_package_generator(") and "fragments=filter_fragments_definitions(" in c for c in calls)
            else:
                good = good and not any(c.startswith("get_graphql_queries(") or (".add_operation(" in c and "<elem>([])" not in c) for c in calls) and any(c.startswith("get_package_generator(") and "fragments=[]" in c for c in calls)
        ctx.check(good, key(fi, f"queries_path set={has_q}"), f"main.client with queries_path {'set' if has_q else 'unset'}: {[o.text()[:160] for o in outs][:1]}; expected "
                  + ("the validated definitions split into operations (each added to the package) and fragments (handed to the package generator)" if has_q else "no operation, no fragment"), fi.loc(),
                  okmsg=f"main.client: queries_path {'set -> operations added, fragments handed over' if has_q else 'unset -> schema types only'}")
    for fn, kind in (("filter_operations_definitions", "OperationDefinitionNode"), ("filter_fragments_definitions", "FragmentDefinitionNode")):
        f2 = repo.func("schema:" + fn)
        outs = [o for o in Interp(f2, lambda e: None).run() if o.kind == "return"]
        p = real_params(f2)[0]
        good = bool(outs)
        for o in outs:
            cs = comp_struct(strip_pre(o.deref(o.value)) if isinstance(o.value, ast.Name) else strip_pre(o.value)) if o.value is not None else None
            good = good and cs is not None and cs[0] == "$0" and [(str(a), list(map(str, b))) for a, b in cs[1]] == [(p, [f"isinstance($0, {kind})"])]
        ctx.check(good, key(f2, "selects"), f"{fn} must return exactly the {kind}s of the document: {[o.text()[:100] for o in outs]}", f2.loc(), okmsg=f"{fn} -> the {kind}s, in document order")


PGEN = "client_generators.package:PackageGenerator."


@rule("C04.R17", "everything a generated module defines for users is re-exported from the package __init__, from the module it was written to", min_instances=8,
      also=["C01", "C06", "C08", "C09", "C11", "C12"])
def c04_r17(ctx):
    repo = ctx.repo
    rows = [("add_operation", "get_generated_public_names()", "module_name", "query_types_generator.get_generated_public_names()"),
            ("_generate_enums", "self.enums_generator.get_generated_public_names()", "self.enums_module_name", None),
            ("_generate_input_types", "self.input_types_generator.get_generated_public_names()", "self.input_types_module_name", None),
            ("_generate_fragments", "self.fragments_generator.get_generated_public_names()", "self.fragments_module_name", None),
            ("_generate_client", "[self.client_generator.name]", "self.client_file_name", None),
            ("_include_exceptions", "GRAPHQL_CLIENT_EXCEPTIONS_NAMES", "EXCEPTIONS_FILE_PATH.stem", None),
            ("_copy_files", "[self.base_client_name]", "self.base_client_file_path.stem", None),
            ("_copy_files", "[BASE_MODEL_CLASS_NAME, UPLOAD_CLASS_NAME]", "self.base_model_file_path.stem", None)]
    for fn, names, module, _ in rows:
        fi = repo.func(PGEN + fn)

        def atom(e):
            t = norm(strip_pre(e))
            if t in ("self.plugin_manager",):
                return False
            if t in ("not name", "not definition.name"):
                return False
            if t in ("name", "definition.name"):
                return True
            if " in (" in t and t.startswith("self.base_client_file_path"):
                return True
            if t.endswith(" in self._result_types_files"):
                return False
            return None
        writes_anything = fn not in ("_copy_files",) and any(isinstance(c, ast.Call) and isinstance(c.func, ast.Attribute) and c.func.attr == "write_text" for c in ast.walk(fi.node))
        outs = [o for o in Interp(fi, atom, is_effect=lambda c: norm(c.func) == "self.init_generator.add_import" or (isinstance(c.func, ast.Attribute) and c.func.attr == "write_text")).run() if o.kind != "raise"]
        found = False
        everywhere = bool(outs)
        for o in outs:
            hit = False
            wrote = any(isinstance(strip_pre(e).func, ast.Attribute) and strip_pre(e).func.attr == "write_text" for e in o.effects)
            for e in o.effects:
                e = strip_pre(e)
                if norm(e.func) != "self.init_generator.add_import":
                    continue
                n_, f_, l_ = argv(e, 0, "names"), argv(e, 1, "from_"), argv(e, 2, "level")
                if n_ is None or f_ is None:
                    continue
                nt = norm(strip_pre(subst(n_, {k: v for k, v in o.env.items() if k in ("names",)}, deep=True)))
                ft = norm(strip_pre(o.deref(f_)) if isinstance(f_, ast.Name) and f_.id not in ("module_name",) else f_)
                mod_ok = ft == module or (module == "module_name" and o.env.get("module_name") is not None and ft == norm(strip_pre(o.env["module_name"])))
                if (nt == names or nt.endswith("." + names) or (names.endswith("()") and nt.endswith(names))) and mod_ok and is_const(l_, 1):
                    hit = True
            found = found or hit
            # a path that writes the module (or, for functions that write nothing themselves, any path) must re-export
            if not hit and (wrote or not writes_anything):
                everywhere = False
        ctx.check(found and everywhere, key(fi, f"re-export {names} from {module}"), f"{fi.qualname} does not re-export {names} from .{module} (level 1) on every path that generates the module: "
                  "`from <package> import <Name>` - how the README tells users to reach models, enums, inputs and the client - fails", fi.loc(),
                  okmsg=f"{fi.qualname}: {names} re-exported from {module}")


SR_ = "contrib.shorter_results:"


@rule("C15.R13", "ShorterResults rewrites a client method only when it can (single field found), then consistently: return type, last statement and imports together", min_instances=14)
def c15_r13(ctx):
    repo = ctx.repo
    effs_all = lambda c: is_name(c.func, "<setattr>") or is_name(c.func, "<setitem>") or norm(c.func) in ("self._update_imports", "self._generate_query_and_mutation_client_method", "self._generate_subscription_client_method")
    # (a) dispatch on the last statement of the generated method
    md = repo.func(SR_ + "ShorterResultsPlugin._modify_method_def")
    for label, empty, kind, want in (("empty body", True, None, None), ("ends with return", False, "Return", "self._generate_query_and_mutation_client_method"),
                                     ("ends with async for", False, "AsyncFor", "self._generate_subscription_client_method"), ("ends with anything else", False, "Expr", None)):
        def atom(e, empty=empty, kind=kind):
            t = norm(strip_pre(e))
            if t == "len(method_def.body) < 1" or t == "not method_def.body":
                return empty
            if t in ("len(method_def.body) >= 1", "method_def.body"):
                return not empty
            if t.startswith("isinstance(") and ", ast." in t:
                return t.endswith(f", ast.{kind})")
            return None
        outs = Interp(md, atom, is_effect=effs_all).run()
        calls = [[dotted(strip_pre(e).func) for e in o.effects] for o in outs]
        ctx.check(bool(calls) and all(c == ([want] if want else []) for c in calls), key(md, label), f"[method {label}] handled by {calls}; expected {[want] if want else 'nothing'}", md.loc(),
                  okmsg=f"method {label} -> {want or 'left alone'}")
    # (b) query / mutation methods
    q = repo.func(SR_ + "ShorterResultsPlugin._generate_query_and_mutation_client_method")

    def mkq(has_value=True, ret_name=True, found=True):
        def atom(e):
            t = norm(strip_pre(e))
            if t == "return_stmt.value is None":
                return not has_value
            if t == "return_stmt.value is not None":
                return has_value
            if t == "isinstance(method_def.returns, ast.Name)":
                return ret_name
            if t.endswith(" is None") and "_return_or_yield_node_and_class(" in t or t == "node_and_class is None":
                return not found
            if t.endswith(" is not None") and "_return_or_yield_node_and_class(" in t or t == "node_and_class is not None":
                return found
            return None
        return atom
    for label, kwargs in (("no value returned", dict(has_value=False)), ("return annotation is not a plain class name", dict(ret_name=False)), ("no single field found", dict(found=False))):
        outs = Interp(q, mkq(**kwargs), is_effect=effs_all).run()
        ctx.check(bool(outs) and all(not o.effects for o in outs), key(q, label), f"[{label}] the method must be left untouched; effects {[[norm(strip_pre(e))[:60] for e in o.effects] for o in outs]}", q.loc(),
                  okmsg=f"query/mutation: {label} -> untouched")
    outs = Interp(q, mkq(), is_effect=effs_all).run()
    nc = "_return_or_yield_node_and_class(current_return_class=method_def.returns.id, class_dict=self.class_dict)"
    good = bool(outs)
    for o in outs:
        effs = [norm(strip_pre(e)) for e in o.effects]
        good = good and len(effs) == 3 and effs[0] in (f"<setattr>(method_def, 'returns', {nc}[0])",) and \
            effs[1] == f"<setitem>(method_def.body, -1, generate_return(value=generate_attribute(value=return_stmt.value, attr={nc}[2])))" and \
            effs[2] in (f"self._update_imports(method_def=method_def, single_field_classes={nc}[1])", f"self._update_imports(method_def, {nc}[1])")
    ctx.check(good, key(q, "rewrite"), f"a single-field result must be unwrapped as: returns = <field annotation>; last statement = `return <old value>.<field>`; imports updated with the classes of that annotation. Got "
              f"{[[norm(strip_pre(e))[:110] for e in o.effects] for o in outs][:1]}", q.loc(), okmsg="query/mutation: returns, `return value.<field>` and imports rewritten together from one lookup")
    # (c) subscriptions
    sfn = repo.func(SR_ + "ShorterResultsPlugin._generate_subscription_client_method")

    def mks(sub=True, name=True, found=True, yv=True):
        def atom(e):
            t = norm(strip_pre(e))
            if t == "isinstance(method_def.returns, ast.Subscript)":
                return sub
            if t == "isinstance(method_def.returns.slice, ast.Name)":
                return name
            if "_return_or_yield_node_and_class(" in t and t.endswith(" is None") or t == "node_and_class is None":
                return not found
            if "_get_yield_value_from_async_for(" in t and t.endswith(" is None") or t == "previous_yield_value is None":
                return not yv
            return None
        return atom
    for label, kwargs in (("return annotation is no subscript", dict(sub=False)), ("item annotation is no plain class name", dict(name=False)), ("no single field found", dict(found=False)),
                          ("loop does not yield", dict(yv=False))):
        outs = Interp(sfn, mks(**kwargs), is_effect=effs_all).run()
        ctx.check(bool(outs) and all(not o.effects for o in outs), key(sfn, label), f"[{label}] the method must be left untouched; effects {[[norm(strip_pre(e))[:60] for e in o.effects] for o in outs]}", sfn.loc(),
                  okmsg=f"subscription: {label} -> untouched")
    outs = Interp(sfn, mks(), is_effect=effs_all).run()
    ncs = "_return_or_yield_node_and_class(current_return_class=method_def.returns.slice.id, class_dict=self.class_dict)"
    good = bool(outs)
    for o in outs:
        effs = [norm(strip_pre(e)) for e in o.effects]
        good = good and len(effs) == 3 and effs[0] == f"<setattr>(method_def, 'returns', generate_subscript(value=generate_name(name='AsyncIterator'), slice_={ncs}[0]))" and \
            effs[1].startswith("<setitem>(method_def.body, -1, generate_async_for(target=async_for_stmt.target, iter_=async_for_stmt.iter, body=generate_expr(value=generate_yield(value=generate_attribute(value=") and \
            effs[1].endswith(f", attr={ncs}[2])))))") and "_get_yield_value_from_async_for(" in effs[1] and effs[2].startswith("self._update_imports(")
    ctx.check(good, key(sfn, "rewrite"), f"a single-field subscription result must become AsyncIterator[<field annotation>] yielding `<old value>.<field>` from the same loop: "
              f"{[[norm(strip_pre(e))[:120] for e in o.effects] for o in outs][:1]}", sfn.loc(), okmsg="subscription: AsyncIterator[field], `yield value.<field>` in the same loop, imports updated")
    # (d) where the unwrapped classes are imported from
    ui = repo.func(SR_ + "ShorterResultsPlugin._update_imports")
    effu = lambda c: (isinstance(c.func, ast.Attribute) and c.func.attr == "add") or is_name(c.func, "<setitem>")
    el = "<elem>(single_field_classes)"
    for label, imported, generated, src in (("imported type (scalar / fragment / enum)", True, False, f"self.imported_types[{el}]"), ("class of the operation's own module", False, True, "method_def.name"),
                                           ("builtin / unknown name", False, False, None)):
        def atom(e, imported=imported, generated=generated):
            t = str(norm(strip_pre(e)))
            for suffix, val in ((" in self.imported_types", imported), (" in self.class_dict", generated), (" in self.extended_imports", False)):
                if t.endswith(" not" + suffix):
                    return not val
                if t.endswith(suffix):
                    return val
            return None
        outs = [o for o in Interp(ui, atom, is_effect=effu).run() if any("loop body once" in t for t in o.trace)]
        effs = [[norm(strip_pre(e)) for e in o.effects] for o in outs]
        effs = [e for e in effs if e or src is None]      # a path on which the loop body does nothing (e.g. an inner guard) is judged by the other rows
        if src is None:
            good = bool(effs) and all(not e for e in effs)
        else:
            good = bool(effs) and all(e in ([f"<setitem>(self.extended_imports, {src}, set())", f"self.extended_imports[{src}].add({el})"],
                                            [f"self.extended_imports.setdefault({src}, set()).add({el})"]) for e in effs)
        ctx.check(good, key(ui, label), f"[{label}] import bookkeeping {effs}; expected {'nothing' if src is None else 'the class recorded under ' + src}", ui.loc(),
                  okmsg=f"{label} -> {'no import' if src is None else 'imported from ' + src}")
    yv = repo.func(SR_ + "_get_yield_value_from_async_for")
    outs = [o for o in Interp(yv, lambda e: (True if norm(strip_pre(e)).startswith("isinstance(") else False if norm(strip_pre(e)).startswith("len(") and "< 1" in norm(strip_pre(e)) else None)).run()]
    ctx.check(bool(outs) and all(o.kind == "return" and norm(strip_pre(o.value)) == "stmt.body[0].value.value" for o in outs), key(yv, "value"),
              f"the yielded expression of the loop is stmt.body[0].value.value: {[o.text()[:80] for o in outs]}", yv.loc(), okmsg="_get_yield_value_from_async_for -> the yielded expression")


@rule("C15.R14", "ShorterResults bookkeeping hooks record every class / import they see and pass the node on unchanged; the client module gets the imports the rewritten methods need",
      min_instances=8)
def c15_r14(ctx):
    repo = ctx.repo
    P = SR_ + "ShorterResultsPlugin."
    eff = lambda c: is_name(c.func, "<setitem>") or (isinstance(c.func, ast.Attribute) and c.func.attr in ("append", "insert", "pop", "add"))
    # result class
    rc = repo.func(P + "generate_result_class")
    outs = Interp(rc, lambda e: None, is_effect=eff).run()
    ctx.check(bool(outs) and all(o.kind == "return" and [norm(strip_pre(e)) for e in o.effects] == ["<setitem>(self.class_dict, class_def.name, class_def)"] and
                                 norm(strip_pre(o.value)).startswith("super().generate_result_class(class_def") for o in outs), key(rc, "records"),
              f"every result class must be recorded under its name and handed on unchanged: {[o.text()[:120] for o in outs]}", rc.loc(), okmsg="generate_result_class: class recorded, node handed on")
    # result module: every imported name -> the module it comes from (relative dots included)
    rm = repo.func(P + "generate_result_types_module")

    def mk(is_import=True, has_module=True, asname=False):
        def atom(e):
            t = str(norm(strip_pre(e)))
            if t.startswith("isinstance(") and t.endswith(", ast.ImportFrom)"):
                return is_import
            if t.startswith("not isinstance(") and t.endswith(", ast.ImportFrom)"):
                return not is_import
            if t.endswith(".module is None"):
                return not has_module
            if t.endswith(".module is not None"):
                return has_module
            if t.endswith(".asname is not None"):
                return asname
            if t.endswith(".asname is None"):
                return not asname
            return None
        return atom
    st = "<elem>(module.body)"
    al = f"<elem>({st}.names)"
    frm = f"'.' * {st}.level + {st}.module"
    for label, kwargs, want in (("plain import", dict(), f"<setitem>(self.imported_types, {al}.name, {frm})"), ("aliased import", dict(asname=True), f"<setitem>(self.imported_types, {al}.asname, {frm})"),
                                ("statement that is no from-import", dict(is_import=False), None), ("from-import without module", dict(has_module=False), None)):
        outs = [o for o in Interp(rm, mk(**kwargs), is_effect=eff).run() if o.kind == "return" and any("loop body once" in t for t in o.trace)]
        if want is not None:
            outs = [o for o in outs if sum(1 for t in o.trace if "loop body once" in t) >= 2]
        effs = [[norm(strip_pre(e)) for e in o.effects] for o in outs]
        good = bool(effs) and all((e == [want]) if want else (not e) for e in effs) and all(norm(strip_pre(o.value)).startswith("super().generate_result_types_module(module") for o in outs)
        ctx.check(good, key(rm, label), f"[{label}] recorded {effs}; expected {want or 'nothing'} (and the module handed on)", rm.loc(), okmsg=f"result module, {label} -> {'recorded with its module path' if want else 'ignored'}")
    # fragments module
    fm = repo.func(P + "generate_fragments_module")
    outs = [o for o in Interp(fm, lambda e: None, is_effect=eff).run() if o.kind == "return" and any("loop body once" in t for t in o.trace)]
    good = bool(outs)
    for o in outs:
        effs = [norm(strip_pre(e)) for e in o.effects]
        good = good and len(effs) == 1 and effs[0].startswith("<setitem>(self.imported_types, <elem>([") and "isinstance(" in effs[0] and "ast.ClassDef" in effs[0] and \
            "fragments_module_name" in effs[0] and ".get('fragments_module_name', 'fragments')" in effs[0] and norm(strip_pre(o.value)).startswith("super().generate_fragments_module(module")
    ctx.check(good, key(fm, "records"), f"every fragment class must be recorded as importable from the configured fragments module: {[o.text()[:200] for o in outs][:1]}", fm.loc(),
              okmsg="fragments module: every class -> '.<fragments_module_name>'")
    # client module
    cm = repo.func(P + "generate_client_module")
    effc = lambda c: norm(c.func) in ("self._modify_method_def", "module.body.insert", "self.extended_imports.pop") or (isinstance(c.func, ast.Attribute) and c.func.attr == "append" and "names" in norm(c.func))

    def mkc(has_class=True, any_imports=True, is_import=True, known=True):
        def atom(e):
            t = str(norm(strip_pre(e)))
            if t.startswith("not ") and "isinstance(" in t and "ast.ClassDef" in t and " or " in t:
                return not has_class
            if t.startswith("not next(") or t == "not client_def" or t.endswith(" is None") and ("client_def" in t or "next(" in t):
                return not has_class
            if t in ("client_def", "client_def is not None") or (t.endswith(" is not None") and "next(" in t) or (t.startswith("next(") and t.endswith(", None)")):
                return has_class
            if t in ("self.extended_imports", "len(self.extended_imports) > 0", "len(self.extended_imports) != 0", "len(self.extended_imports)"):
                return any_imports
            if t.startswith("isinstance(") and (t.endswith(", ast.FunctionDef)") or t.endswith(", ast.AsyncFunctionDef)")):
                return True
            if t.startswith("isinstance(") and t.endswith(", ast.ClassDef)"):
                return has_class
            if t.startswith("not isinstance(") and t.endswith(", ast.ClassDef)"):
                return not has_class
            if t in ("len(self.extended_imports) == 0", "not self.extended_imports"):
                return not any_imports
            if t.startswith("isinstance(") and t.endswith(", ast.ImportFrom)"):
                return is_import
            if t.startswith("not isinstance(") and t.endswith(", ast.ImportFrom)"):
                return not is_import
            if t.endswith(".module not in self.extended_imports"):
                return not known
            if t.endswith(".module in self.extended_imports"):
                return known
            return None
        return atom
    outs = Interp(cm, mkc(has_class=False), is_effect=effc).run()
    ctx.check(bool(outs) and all(o.kind == "return" and not o.effects and norm(strip_pre(o.value)) in ("super().generate_client_module(module)", "super().generate_client_module(module=module)") for o in outs), key(cm, "no client class"),
              f"without a client class the module is handed on untouched: {[o.text()[:100] for o in outs]}", cm.loc(), okmsg="client module without class -> handed on")
    outs = [o for o in Interp(cm, mkc(any_imports=False), is_effect=effc).run() if o.kind == "return"]
    good = bool(outs) and all(norm(strip_pre(o.value)) in ("super().generate_client_module(module)", "super().generate_client_module(module=module)") for o in outs) and \
        any(any(norm(strip_pre(e)).startswith("self._modify_method_def(") for e in o.effects) for o in outs) and not any(any("insert" in norm(strip_pre(e).func) for e in o.effects) for o in outs)
    ctx.check(good, key(cm, "methods"), f"every method of the client class goes through _modify_method_def; without extra imports nothing else changes: {[o.text()[:140] for o in outs][:1]}", cm.loc(),
              okmsg="every client method considered; nothing to import -> module handed on")
    outs = [o for o in Interp(cm, mkc(), is_effect=effc).run() if o.kind == "return" and sum(1 for t in o.trace if "loop body once" in t) >= 4]
    good = bool(outs)
    for o in outs:
        effs = [norm(strip_pre(e)) for e in o.effects]
        good = good and any(".names.append(ast.alias(name=<elem>(self.extended_imports[" in e_ for e_ in effs) and any(e_.startswith("self.extended_imports.pop(") for e_ in effs) and \
            any(e_.startswith("module.body.insert(0, generate_import_from(names=list(<elem>(self.extended_imports.items())[1]), from_=<elem>(self.extended_imports.items())[0]))") for e_ in effs)
    ctx.check(good, key(cm, "imports"), f"names needed by rewritten methods must be added to the existing `from <module> import` of that module (and that module be ticked off), the rest imported by new statements: "
              f"{[[norm(strip_pre(e))[:90] for e in o.effects] for o in outs][:1]}", cm.loc(), okmsg="client module: existing imports extended, remaining modules imported anew")


@rule("C15.R15", "ShorterResults counts a class's fields including inherited ones, and collects the class names of an annotation at every nesting level", min_instances=7)
def c15_r15(ctx):
    repo = ctx.repo
    gf = repo.func(SR_ + "_get_all_fields")
    eff = lambda c: isinstance(c.func, ast.Attribute) and c.func.attr in ("append", "extend")

    # after loading, both accumulation loops are comprehensions: the rule reads their name-free structure
    outs = [o for o in Interp(gf, lambda e: None, is_effect=eff).run() if o.kind == "return"]
    good = len(outs) >= 1
    inherited_ok = own_ok = returned_ok = True
    for o in outs:
        nm = o.value.id if isinstance(o.value, ast.Name) else None
        v = strip_pre(o.deref(o.value)) if nm else (strip_pre(o.value) if o.value is not None else None)
        if v is not None and not nm:
            # a value assembled from locals (`inherited + own`): read it with the locals spelled out, in canonical form
            from ..canon import canon_text
            try:
                cur_ = v
                for _ in range(5):
                    nxt_ = strip_pre(subst(cur_, o.env, deep=True))
                    if ast.dump(nxt_) == ast.dump(cur_):
                        break
                    cur_ = nxt_
                v = ast.parse(str(norm(cur_)), mode="eval").body
            except SyntaxError:
                pass
        parts = [v] + [strip_pre(m) for m in (o.muts(nm) if nm else [])]
        structs = []
        for part in parts:
            if isinstance(part, ast.Call) and isinstance(part.func, ast.Attribute) and part.func.attr == "extend" and part.args:
                part = strip_pre(part.args[0])
            if isinstance(part, ast.BinOp) and isinstance(part.op, ast.Add):
                structs += [comp_struct(strip_pre(part.left)), comp_struct(strip_pre(part.right))]
            else:
                structs.append(comp_struct(part) if part is not None else None)
        structs = [c for c in structs if c is not None]
        flat = [(str(c[0]), [(str(a), sorted(map(str, b))) for a, b in c[1]]) for c in structs]
        inh = ("$1", [("class_def.bases", sorted(["isinstance($0, ast.Name) and $0.id in class_dict"])), ("_get_all_fields(class_def=class_dict[$0.id], class_dict=class_dict)", [])])
        inh2 = ("$1", [("class_def.bases", sorted(["isinstance($0, ast.Name)", "$0.id in class_dict"])), ("_get_all_fields(class_def=class_dict[$0.id], class_dict=class_dict)", [])])
        own = ("$0", [("class_def.body", ["isinstance($0, ast.AnnAssign)"])])
        inherited_ok = inherited_ok and (inh in flat or inh2 in flat)
        own_ok = own_ok and own in flat
        returned_ok = returned_ok and v is not None and len(flat) == 2
    ctx.check(good and inherited_ok, key(gf, "inherited fields"), "fields of generated base classes (bases that are plain names found in class_dict - not BaseModel, not subscripted bases) must be collected recursively", gf.loc(),
              okmsg="_get_all_fields: inherited fields of generated base classes, recursively")
    ctx.check(good and own_ok, key(gf, "own fields"), "the class's own annotated assignments (and only those) must be collected", gf.loc(), okmsg="_get_all_fields: own annotated assignments")
    ctx.check(good and returned_ok, key(gf, "returned"), f"the list returned must be exactly inherited + own fields: {[o.text()[:120] for o in outs][:1]}", gf.loc(), okmsg="_get_all_fields: returns inherited + own")
    un = repo.func(SR_ + "_update_node")
    p = real_params(un)[0]
    effn = lambda c: is_name(c.func, "<setattr>") or is_name(c.func, "<setitem>") or (isinstance(c.func, ast.Attribute) and c.func.attr in ("extend", "append"))

    def kind_atom(kind):
        def atom(e):
            t = str(norm(strip_pre(e)))
            if t.startswith(f"isinstance({p}, ast."):
                return t == f"isinstance({p}, ast.{kind})"
            return None
        return atom
    outs = [o for o in Interp(un, kind_atom("Name"), is_effect=effn, implicit_raises={"ValueError"}).run()]
    good = bool(outs) and all(o.kind == "return" and isinstance(strip_pre(o.value), ast.Tuple) and norm(strip_pre(o.value).elts[0]) == p and norm(strip_pre(o.value).elts[1]) == f"[{p}.id]" for o in outs) and \
        any(any(norm(strip_pre(e)) == f"<setattr>({p}, 'id', ast.literal_eval({p}.id))" for e in o.effects) for o in outs)
    ctx.check(good, key(un, "name"), f"a Name is unquoted (literal_eval, when it is a quoted forward reference) and reported as [its id]: {[o.text()[:100] for o in outs]}", un.loc(), okmsg="_update_node: Name -> unquoted, ([id])")
    outs = [o for o in Interp(un, kind_atom("Tuple"), is_effect=effn).run() if o.kind == "return" and any("loop body once" in t for t in o.trace)]
    good = bool(outs)
    for o in outs:
        v = strip_pre(o.value)
        effs = [norm(strip_pre(e)) for e in o.effects]
        nm = v.elts[1].id if isinstance(v, ast.Tuple) and isinstance(v.elts[1], ast.Name) else None
        ms = [norm(strip_pre(m)) for m in (o.muts(nm) if nm else [])]
        good = good and isinstance(v, ast.Tuple) and norm(v.elts[0]) == p and any(e_.startswith(f"<setitem>({p}.elts, ") and "_update_node(" in e_ and e_.endswith("[0])") for e_ in effs) and \
            any(m_.startswith(f"{nm}.extend(_update_node(") and m_.endswith("[1])") for m_ in ms)
    ctx.check(good, key(un, "tuple"), f"a Tuple (Union[A, B] / Dict[K, V]) has every element rewritten in place and all their ids collected: {[o.text()[:140] for o in outs][:1]}", un.loc(),
              okmsg="_update_node: Tuple -> every element recursed, ids accumulated")
    outs = [o for o in Interp(un, kind_atom("expr")).run()]
    ctx.check(bool(outs) and all(o.kind == "return" and norm(strip_pre(o.value)) == f"({p}, [])" for o in outs), key(un, "other expression"), f"any other expression is kept and reports no ids: {[o.text()[:80] for o in outs]}", un.loc(),
              okmsg="_update_node: other expression -> unchanged, []")
    cm = repo.func(SR_ + "ShorterResultsPlugin.generate_client_module")
    rets = [norm(r.value) for r in walk_no_nested(cm.node) if isinstance(r, ast.Return) and r.value is not None]
    ctx.check(bool(rets) and all(r in ("super().generate_client_module(module)", "super().generate_client_module(module=module)") for r in rets) and len([r for r in walk_no_nested(cm.node) if isinstance(r, ast.Return)]) == len(rets), key(cm, "returns"),
              f"every exit of generate_client_module hands the (rewritten) module on: {rets}", cm.loc(), okmsg="generate_client_module: every exit returns the module through the base hook")


CFR_ = "contrib.client_forward_refs:ClientForwardRefsPlugin."


@rule("C15.R16", "ClientForwardRefs: which imports are generated-package imports, which class a method instantiates, and what is moved into the method / under TYPE_CHECKING", min_instances=20)
def c15_r16(ctx):
    repo = ctx.repo
    setitem = lambda c: is_name(c.func, "<setitem>") or is_name(c.func, "<setattr>") or (isinstance(c.func, ast.Attribute) and c.func.attr in ("add", "insert", "append"))
    # (a) imported classes: only `from .x import Y` style imports of the generated package
    st = repo.func(CFR_ + "_store_imported_classes")
    nd = "<elem>(module_body)"

    def mk(is_from=True, has_module=True, level1=True, dotted_=False, is_alias=True):
        def atom(e):
            t = str(norm(strip_pre(e)))
            if t.endswith(", ast.ImportFrom)"):
                return is_from if t.startswith("isinstance(") else (not is_from)
            if t.endswith(".module is None"):
                return not has_module
            if t.endswith(".module is not None"):
                return has_module
            if t.endswith(".level != 1"):
                return not level1
            if t.endswith(".level == 1"):
                return level1
            if t.endswith(".module.startswith('.')"):
                return dotted_ if not t.startswith("not ") else (not dotted_)
            if t.endswith(", ast.alias)"):
                return is_alias
            return None
        return atom
    want = f"<setitem>(self.imported_classes, <elem>({nd}.names).name, '.' * {nd}.level + {nd}.module)"
    for label, kwargs, rec in (("from .module import X", dict(), True), ("module text already dotted", dict(level1=False, dotted_=True), True), ("library import (level 0, no dot)", dict(level1=False, dotted_=False), False),
                               ("plain `import x`", dict(is_from=False), False), ("from-import without module", dict(has_module=False), False)):
        outs = [o for o in Interp(st, mk(**kwargs), is_effect=setitem).run() if any("loop body once" in t for t in o.trace)]
        if rec:
            outs = [o for o in outs if sum(1 for t in o.trace if "loop body once" in t) >= 2]
        effs = [[norm(strip_pre(e)) for e in o.effects] for o in outs]
        ctx.check(bool(effs) and all((e == [want]) if rec else (not e) for e in effs), key(st, label), f"[{label}] recorded {effs}; expected {'the class -> its dotted module' if rec else 'nothing'}: only classes of the generated "
                  "package may be moved under TYPE_CHECKING / into methods", st.loc(), okmsg=f"_store_imported_classes: {label} -> {'recorded' if rec else 'ignored'}")
    # (b) the call whose class a method instantiates
    for fn, root in (("_get_call_arg_from_return", "return_stmt.value"), ("_get_call_arg_from_async_for", None)):
        fi = repo.func(CFR_ + fn)
        for shape in ("attribute of call", "call", "attribute of something else", "other"):
            seen_x = {}

            def atom(e, shape=shape, seen_x=seen_x):
                t = str(norm(strip_pre(e)))
                if t.startswith("isinstance(") and t.endswith(", ast.Attribute)"):
                    seen_x["x"] = t[len("isinstance("):-len(", ast.Attribute)")]
                    return shape in ("attribute of call", "attribute of something else")
                if t.startswith("isinstance(") and t.endswith(", ast.Call)"):
                    inner = t[len("isinstance("):-len(", ast.Call)")]
                    x = seen_x.get("x")
                    if x is not None and inner == x + ".value":
                        return shape == "attribute of call"
                    if x is not None and inner == x:
                        return shape == "call"
                    return None
                if t.startswith("isinstance(") and (t.endswith(", list)") or t.endswith(", ast.Expr)") or t.endswith(", ast.Yield)")):
                    return True
                if t.startswith("not isinstance("):
                    return False
                return None
            outs = [o for o in Interp(fi, atom).run() if o.kind == "return"]
            vals = sorted({norm(strip_pre(o.value)) if o.value is not None else "None" for o in outs})
            if shape == "attribute of call":
                good = len(vals) == 1 and vals[0].endswith(".value.value") and vals[0] != "None"
            elif shape == "call":
                good = len(vals) == 1 and vals[0] != "None" and vals[0].endswith(".value") and not vals[0].endswith(".value.value.value.value")
            else:
                good = vals == ["None"]
            ctx.check(good, key(fi, shape), f"{fn}[{shape}] returns {vals}: `Model.model_validate(data)` (a call) or `Model.model_validate(data).field` (ShorterResults: attribute of a call) give that call, "
                      "anything else gives None", fi.loc(), okmsg=f"{fn}: {shape} -> {'the call' if shape != 'other' else 'None'}")
    gc = repo.func(CFR_ + "_get_class_from_call")
    for attr, name, wantv in ((True, True, "ast.alias(name=call.func.value.id)"), (False, False, "None"), (True, False, "None")):
        outs = [o for o in Interp(gc, lambda e, attr=attr, name=name: (((attr if str(norm(strip_pre(e))).startswith("isinstance(") else not attr) if str(norm(strip_pre(e))).endswith("call.func, ast.Attribute)") else
                                                                      (name if str(norm(strip_pre(e))).startswith("isinstance(") else not name) if str(norm(strip_pre(e))).endswith("call.func.value, ast.Name)") else None))).run() if o.kind == "return"]
        vals = sorted({norm(strip_pre(o.value)) if o.value is not None else "None" for o in outs})
        ctx.check(vals == [wantv], key(gc, f"attribute={attr} name={name}"), f"_get_class_from_call[func is an attribute={attr}, of a plain name={name}] gives {vals}, expected {wantv}", gc.loc(),
                  okmsg=f"_get_class_from_call: attribute={attr} name={name} -> {wantv[:20]}")
    # (c) the import moved into the method
    ins = repo.func(CFR_ + "_insert_import_statement_in_method")

    def mki(kind="Return", call=True, cls=True):
        def atom(e):
            t = str(norm(strip_pre(e)))
            if t.startswith("isinstance(") and t.endswith(", ast.Return)"):
                return kind == "Return"
            if t.startswith("isinstance(") and t.endswith(", ast.AsyncFor)"):
                return kind == "AsyncFor"
            if t.endswith(" is None") and ("_get_class_from_call(" in t or t == "import_class is None"):
                return not cls
            if t.endswith(" is None") and ("_get_call_arg_from_" in t or t == "call is None"):
                return not call
            return None
        return atom
    for label, kwargs, acts in (("ends with return", dict(), True), ("ends with async for", dict(kind="AsyncFor"), True), ("ends with something else", dict(kind="Expr"), False),
                               ("no call found", dict(call=False), False), ("call of something that is no class attribute", dict(cls=False), False)):
        outs = Interp(ins, mki(**kwargs), is_effect=setitem).run()
        effs = [[norm(strip_pre(e)) for e in o.effects] for o in outs]
        if acts:
            src = "self._get_call_arg_from_return(return_stmt=method_def.body[-1])" if kwargs.get("kind", "Return") == "Return" else "self._get_call_arg_from_async_for(last_stmt=method_def.body[-1])"
            cl = f"self._get_class_from_call(call={src})"
            want_e = [f"self.imported_in_method.add({cl}.name)", f"method_def.body.insert(0, ast.ImportFrom(module=self.imported_classes[{cl}.name], names=[{cl}], level=0))"]
            good = bool(effs) and all(e == want_e for e in effs)
        else:
            good = bool(effs) and all(not e for e in effs)
        ctx.check(good, key(ins, label), f"[method {label}] {effs[:1]}; expected {'the instantiated class recorded and imported (from its dotted module, level 0) as the first statement of the method' if acts else 'no change'}",
                  ins.loc(), okmsg=f"_insert_import_statement_in_method: {label} -> {'import inserted' if acts else 'untouched'}")
    # (d) which names leave the module level
    ui = repo.func(CFR_ + "_update_imports")
    outs = Interp(ui, lambda e: (False if str(norm(strip_pre(e))).startswith("len(") and str(norm(strip_pre(e))).endswith(" == 0") else True if str(norm(strip_pre(e))).startswith("len(") else None),
                  is_effect=lambda c: norm(c.func) in ("self._update_existing_imports", "self._add_forward_ref_imports")).run()
    good = bool(outs)
    moved = "set(self.input_and_return_types) | self.imported_in_method - self.input_and_return_types"
    from ..util import union_terms
    for o in outs:
        effs = [str(norm(strip_pre(subst(strip_pre(e), o.env, deep=True)))) for e in o.effects]
        good = good and len(effs) == 2 and effs[0].startswith("self._update_existing_imports(") and effs[1].startswith("self._add_forward_ref_imports(") and "self._update_existing_imports(" in effs[1]
        # the set handed over: all contributions to the local (initial value, `|=` / `.update` / rebinding), as union terms
        arg = argv(strip_pre(o.effects[0]), 1, "return_types_not_used_as_input") if o.effects else None
        terms = set()
        if isinstance(arg, ast.Name):
            for st_ in walk_no_nested(ui.node):
                if isinstance(st_, ast.Assign) and any(isinstance(t_, ast.Name) and t_.id == arg.id for t_ in st_.targets):
                    terms |= {t for t in union_terms(st_.value) if t != arg.id}
                elif isinstance(st_, ast.AugAssign) and isinstance(st_.target, ast.Name) and st_.target.id == arg.id and isinstance(st_.op, ast.BitOr):
                    terms |= set(union_terms(st_.value))
                elif isinstance(st_, ast.Expr) and isinstance(st_.value, ast.Call) and norm(st_.value.func) == f"{arg.id}.update" and st_.value.args:
                    terms |= set(union_terms(st_.value.args[0]))
        elif arg is not None:
            terms = set(union_terms(arg))
        terms = {str(t).replace("(self.imported_in_method - self.input_and_return_types)", "self.imported_in_method - self.input_and_return_types") for t in terms}
        good = good and terms in ({"set(self.input_and_return_types)", "self.imported_in_method - self.input_and_return_types"}, {"self.input_and_return_types", "self.imported_in_method - self.input_and_return_types"},
                                  {"set(self.input_and_return_types)", "self.imported_in_method"}, {"self.input_and_return_types", "self.imported_in_method"})
    ctx.check(good, key(ui, "moved names"), f"names leaving the module level must be: every input/return type plus every class imported inside a method; then the forward-ref imports are added after the kept imports: "
              f"{[[norm(strip_pre(e))[:140] for e in o.effects] for o in outs][:1]}", ui.loc(), okmsg="_update_imports: moved = input/return types + method-local classes; forward-ref block added after the kept imports")
    outs = Interp(ui, lambda e: (True if str(norm(strip_pre(e))).startswith("len(") and str(norm(strip_pre(e))).endswith(" == 0") else False if str(norm(strip_pre(e))).startswith("len(") else None),
                  is_effect=lambda c: norm(c.func) in ("self._update_existing_imports", "self._add_forward_ref_imports")).run()
    ctx.check(bool(outs) and all(not o.effects for o in outs), key(ui, "nothing to move"), "with nothing to move the module's imports are left alone", ui.loc(), okmsg="_update_imports: nothing to move -> untouched")
    # (e) orchestration
    gm = repo.func(CFR_ + "generate_client_module")
    effo = lambda c: norm(c.func) in ("self._store_imported_classes", "self._rewrite_input_args_to_constants", "self._update_name_to_constant", "self._insert_import_statement_in_method", "self._update_imports") or is_name(c.func, "<setattr>")

    def mko(has_class=True, returns=True):
        def atom(e):
            t = str(norm(strip_pre(e)))
            if (t.startswith("not next(") or t in ("not client_class_def", "client_class_def is None")) or (t.startswith("next(") and t.endswith(" is None")):
                return not has_class
            if t.startswith("next(") and t.endswith(", None)") or t in ("client_class_def", "client_class_def is not None"):
                return has_class
            if t.endswith(", ast.ClassDef)"):
                return has_class if t.startswith("isinstance(") else not has_class
            if t.endswith(", ast.FunctionDef)") or t.endswith(", ast.AsyncFunctionDef)"):
                return True
            if t.endswith(".returns"):
                return returns
            return None
        return atom
    outs = Interp(gm, mko(has_class=False), is_effect=effo).run()
    ctx.check(bool(outs) and all([dotted(strip_pre(e).func) for e in o.effects] == ["self._store_imported_classes"] and o.kind == "return" and str(norm(strip_pre(o.value))).startswith("super().generate_client_module(") for o in outs),
              key(gm, "no client class"), f"without a client class nothing is rewritten: {[o.text()[:100] for o in outs]}", gm.loc(), okmsg="generate_client_module: no class -> handed on")
    for returns in (True, False):
        outs = [o for o in Interp(gm, mko(returns=returns), is_effect=effo).run() if o.kind == "return" and any("loop body once" in t for t in o.trace)]
        good = bool(outs)
        for o in outs:
            seq = [dotted(strip_pre(e).func) if not is_name(strip_pre(e).func, "<setattr>") else "returns=" + ("_update_name_to_constant" if "_update_name_to_constant(" in norm(strip_pre(e)) else "?") for e in o.effects]
            seq = [x for x in seq if x not in ("self._update_name_to_constant",)]
            want_seq = ["self._store_imported_classes", "self._rewrite_input_args_to_constants"] + (["returns=_update_name_to_constant"] if returns else []) + ["self._insert_import_statement_in_method", "self._update_imports"]
            good = good and seq == want_seq and str(norm(strip_pre(o.value))).startswith("super().generate_client_module(")
        ctx.check(good, key(gm, f"method returns={returns}"), f"[method with return annotation={returns}] steps {[[dotted(strip_pre(e).func) for e in o.effects] for o in outs][:1]}; expected: imports recorded, arguments rewritten, "
                  f"{'return annotation rewritten, ' if returns else ''}import moved into the method, module imports updated, module handed on", gm.loc(),
                  okmsg=f"generate_client_module: per method (returns={returns}) all steps in order")


@rule("C14.R15", "leaf / union builder classes: `<Type>GraphQLField(GraphQLField)` with alias(); unions are `<Type>Union` and also get on(); each is exported once", min_instances=4, also=["C04"])
def c14_r15(ctx):
    repo = ctx.repo
    fc = repo.func(CFT_ + "_generate_field_class")
    eff = lambda c: isinstance(c.func, ast.Attribute) and c.func.attr == "append"
    for union in (True, False):
        for known in (True, False):
            def atom(e, union=union, known=known):
                t = str(norm(strip_pre(e)))
                if t == "isinstance(graphql_type, GraphQLUnionType)":
                    return union
                if t.endswith(" not in self._public_names"):
                    return not known
                if t.endswith(" in self._public_names"):
                    return known
                if t == "class_body":
                    return True
                return None
            it = Interp(fc, atom, is_effect=eff)
            outs = [o for o in it.run() if o.kind == "return"]
            cname = "f'{graphql_type.name}Union'" if union else "f'{graphql_type.name}GraphQLField'"
            good = bool(outs)
            for o in outs:
                v = strip_pre(it._simp(subst(o.value, o.env, deep=True), o.env))
                body_name = None
                b = kw(v, "body") if isinstance(v, ast.Call) else None
                effs = [norm(strip_pre(e)) for e in o.effects]
                body_appends = [e for e in effs if e.startswith("class_body.append(")]
                want_body = ([f"class_body.append(self._generate_on_method(class_name={cname}))"] if union else []) + [f"class_body.append(self._generate_alias_method(class_name={cname}))"]
                exported = [e for e in effs if e.startswith("self._public_names.append(")]
                good = good and isinstance(v, ast.Call) and dotted(v.func) == "generate_class_def" and norm(kw(v, "name") or ast.Constant(0)) == cname and \
                    norm(kw(v, "base_names") or ast.Constant(0)) in ("['GraphQLField']", "[GRAPHQL_BASE_FIELD_CLASS]") and body_appends == want_body and \
                    exported == ([] if known else [f"self._public_names.append({cname})"]) and b is not None and "class_body" in norm(b)
            ctx.check(good, key(fc, f"union={union} already exported={known}"), f"[union={union}, name already exported={known}] the typing class must be `class {cname}(GraphQLField)` with "
                      f"{'on() and ' if union else ''}alias(), exported {'no second time' if known else 'once'}: {[o.text()[:160] for o in outs][:1]}", fc.loc(),
                      okmsg=f"typing class union={union} exported-before={known}: {cname}, {'on + ' if union else ''}alias")
    g = repo.func(CFT_ + "generate")
    outs = [o for o in Interp(g, lambda e: None).run() if o.kind == "return"]
    ctx.check(bool(outs) and all("self.graphql_field_import" in norm(strip_pre(o.value)) and "self._class_defs" in norm(strip_pre(o.value)) and str(norm(strip_pre(o.value))).startswith("generate_module(body=")
                                 and str(norm(strip_pre(o.value))).index("self.graphql_field_import") < str(norm(strip_pre(o.value))).index("self._class_defs") for o in outs), key(g, "module"),
              f"custom_typing_fields.py must be the GraphQLField import followed by the classes: {[o.text()[:120] for o in outs]}", g.loc(), okmsg="custom_typing_fields module = GraphQLField import + classes")
    init = repo.cls(CFT_[:-1]).methods["__init__"]
    cds = [st.value for st in ast.walk(init.node) if (isinstance(st, ast.Assign) and norm(st.targets[0]) == "self._class_defs") or (isinstance(st, ast.AnnAssign) and st.value is not None and norm(st.target) == "self._class_defs")]
    cs = comp_struct(strip_pre(cds[0])) if cds else None
    ctx.check(cs is not None and cs[0] in ("self._generate_field_class($0)", "self._generate_field_class(graphql_type=$0)") and [(str(a), list(map(str, b))) for a, b in cs[1]] == [("self._filter_types()", [])],
              key(init, "all types"), f"typing classes are {cs}: one per selected type", init.loc(), okmsg="one typing class per selected object / interface / union type")


@rule("C15.R17", "ClientForwardRefs import surgery: moved names leave their from-imports, emptied from-imports disappear, everything else stays; the TYPE_CHECKING block imports every moved type from its module",
      min_instances=8)
def c15_r17(ctx):
    repo = ctx.repo
    ue = repo.func(CFR_ + "_update_existing_imports")
    eff = lambda c: is_name(c.func, "<setattr>") or (isinstance(c.func, ast.Attribute) and c.func.attr == "append")
    nd = "<elem>(enumerate(module.body))[1]"

    def mk(kind="ImportFrom", moved=False, nonempty=True):
        def atom(e):
            t = str(norm(strip_pre(e)))
            if t.endswith(", ast.Import)"):
                return (kind == "Import") if t.startswith("isinstance(") else (kind != "Import")
            if t.endswith(", ast.ImportFrom)"):
                return (kind == "ImportFrom") if t.startswith("isinstance(") else (kind != "ImportFrom")
            if t.endswith(".name not in return_types_not_used_as_input"):
                return not moved
            if t.endswith(".name in return_types_not_used_as_input"):
                return moved
            if t.startswith("len(") and t.endswith(" > 0"):
                return nonempty
            if t in ("reduced_names",):
                return nonempty
            return None
        return atom

    def per_node(**kwargs):
        res = []
        for o in Interp(ue, mk(**kwargs), is_effect=eff).run():
            if o.kind != "return" or not any("loop body once" in t for t in o.trace):
                continue
            res.append(([norm(strip_pre(e)) for e in o.effects], o))
        return res
    app = lambda e: any(x.startswith("non_empty_imports.append(") for x in e)
    setn = lambda e: any(x.startswith("<setattr>(") and ", 'names', " in x for x in e)
    rows = [("plain `import x`", dict(kind="Import"), lambda e: app(e) and not setn(e)),
            ("statement that is no import", dict(kind="Other"), lambda e: not app(e) and not setn(e)),
            ("from-import that keeps a name", dict(moved=False, nonempty=True), lambda e: setn(e) and app(e)),
            ("from-import emptied by the move", dict(moved=True, nonempty=False), lambda e: setn(e) and not app(e))]
    for label, kwargs, pred in rows:
        got = per_node(**kwargs)
        got = [g for g in got if label != "from-import that keeps a name" or sum(1 for t in g[1].trace if "loop body once" in t) >= 2] or got
        ctx.check(bool(got) and all(pred(e) for e, _ in got), key(ue, label), f"[{label}] {[e for e, _ in got][:1]}: an emptied `from x import` left in the module breaks formatting; a dropped plain import or a kept moved "
                  "name defeats the plugin", ue.loc(), okmsg=f"_update_existing_imports: {label} handled")
    # which names stay in a from-import: exactly those not moved
    keep = False
    for o in Interp(ue, mk(moved=False), is_effect=eff).run():
        for e in o.effects:
            t = norm(strip_pre(e))
            if ", 'names'," in t and ".name not in return_types_not_used_as_input" in t:
                keep = True
    comps = [comp_struct(c) for c in ast.walk(ue.node) if isinstance(c, ast.ListComp)]
    keep = keep or any(c is not None and c[0] == "$0" and len(c[1]) == 1 and str(c[1][0][0]).endswith(".names") and [str(x) for x in c[1][0][1]] == ["$0.name not in return_types_not_used_as_input"] for c in comps)
    ctx.check(keep, key(ue, "filter"), "the names kept in a from-import must be exactly those that are not moved", ue.loc(), okmsg="kept names = names not moved")
    outs = [o for o in Interp(ue, mk(), is_effect=eff).run() if o.kind == "return"]
    good = bool(outs) and all(is_name(strip_pre(o.value), "non_empty_imports") for o in outs) and \
        all(any(norm(strip_pre(e)).startswith("<setattr>(module, 'body', non_empty_imports + module.body[") and "+ 1:]" in norm(strip_pre(e)) for e in o.effects) for o in outs)
    ctx.check(good, key(ue, "rebuilt body"), f"the module body must become the kept imports followed by everything after the last import, and the kept imports be returned: {[o.text()[:140] for o in outs][:1]}", ue.loc(),
              okmsg="module body = kept imports + rest after the last import; kept imports returned")
    af = repo.func(CFR_ + "_add_forward_ref_imports")
    effa = lambda c: is_name(c.func, "<setitem>") or (isinstance(c.func, ast.Attribute) and c.func.attr in ("append", "insert"))
    for first in (True, False):
        def atom(e, first=first):
            t = str(norm(strip_pre(e)))
            if t.endswith(" not in type_checking_imports"):
                return first
            if t.endswith(" in type_checking_imports"):
                return not first
            return None
        # the per-module table may be built in a helper of its own: the loop is read where it is, the insertion in _add_forward_ref_imports
        lf = af
        body_src = "list(type_checking_imports.values())"
        if not any(isinstance(n_, ast.For) and norm(n_.iter) == "self.input_and_return_types" for n_ in ast.walk(af.node)):
            for cand in repo.cls(CFR_[:-1]).methods.values():
                if any(isinstance(n_, ast.For) and norm(n_.iter) == "self.input_and_return_types" for n_ in ast.walk(cand.node)) and \
                        [norm(r_.value) for r_ in ast.walk(cand.node) if isinstance(r_, ast.Return) and r_.value is not None] == ["list(type_checking_imports.values())"] and \
                        any(isinstance(c_, ast.Call) and norm(c_.func) == f"self.{cand.node.name}" for c_ in ast.walk(af.node)):
                    lf, body_src = cand, f"self.{cand.node.name}()"
        outs = [o for o in Interp(lf, atom, is_effect=effa).run() if any("loop body once" in t for t in o.trace)]
        outs_ins = outs if lf is af else [o for o in Interp(af, atom, is_effect=effa).run() if o.kind in ("return", "fallthrough")]
        good = bool(outs) and bool(outs_ins)
        cls = "<elem>(self.input_and_return_types)"
        for o in outs_ins:
            effs = [norm(strip_pre(subst(strip_pre(e), o.env, deep=True))) for e in o.effects]
            ins = [e_ for e_ in effs if e_.startswith("module.body.insert(len(non_empty_imports), ")]
            good = good and len(ins) == 2 and "ast.If(test=ast.Name(id='TYPE_CHECKING')" in ins[0].replace("TYPE_CHECKING_FLAG", "'TYPE_CHECKING'") and body_src in ins[0] \
                and "ast.ImportFrom(module='typing'" in ins[1].replace("TYPE_CHECKING_MODULE", "'typing'") and "TYPE_CHECKING" in ins[1]
        for o in outs:
            effs = [norm(strip_pre(e)) for e in o.effects]
            created = any(e_.startswith(f"<setitem>(type_checking_imports, self.imported_classes[{cls}], ast.ImportFrom(module=self.imported_classes[{cls}], names=[], level=0))") for e_ in effs)
            added = any(e_.startswith(f"type_checking_imports[self.imported_classes[{cls}]].names.append(ast.alias(") and e_.endswith(f"{cls}))") and
                        e_[len(f"type_checking_imports[self.imported_classes[{cls}]].names.append(ast.alias("):-len(f"{cls}))")] in ("", "name=", "alias=") for e_ in effs)
            good = good and created == first and added
        ctx.check(good, key(af, f"first of its module={first}"), f"[type that is {'the first' if first else 'a further one'} of its module] every moved type must be listed under `if TYPE_CHECKING:` in a `from <its module> import` "
                  f"(created once per module), the block inserted after the kept imports and `from typing import TYPE_CHECKING` in front of it: {[[norm(strip_pre(e))[:100] for e in o.effects] for o in outs][:1]}", af.loc(),
                  okmsg=f"_add_forward_ref_imports: {'new' if first else 'existing'} module entry, alias added, block + typing import inserted")


def _import_recorders(repo) -> Set[str]:
    """methods of the argument generator that (through calls on self) record an import"""
    ag = repo.cls(CA_[:-1])
    direct: Dict[str, Set[str]] = {}
    for name, fi in ag.methods.items():
        direct[name] = {c.func.attr for c in ast.walk(fi.node) if isinstance(c, ast.Call) and isinstance(c.func, ast.Attribute) and is_name(c.func.value, "self")}
    rec = {n for n, fi in ag.methods.items() if any(isinstance(c, ast.Call) and norm(c.func) == "self.imports.append" for c in ast.walk(fi.node))}
    changed = True
    while changed:
        changed = False
        for n, callees in direct.items():
            if n not in rec and callees & rec:
                rec.add(n)
                changed = True
    return rec


@rule("C14.R16", "the builder modules import what they emit: every import the argument generator records - the custom scalar imports added last included - is handed to the module's "
      "import list afterwards; the typing names and builder base classes the templates use are imported", min_instances=10, also=["C04", "C07"])
def c14_r16(ctx):
    repo = ctx.repo
    recorders = _import_recorders(repo)
    ctx.check({"generate_arguments", "add_custom_scalar_imports", "_add_import"} <= recorders, "custom_arguments::recorders", f"import-recording methods of ArgumentGenerator: {sorted(recorders)}",
              repo.cls(CA_[:-1]).loc(), okmsg=f"ArgumentGenerator records imports in {sorted(recorders)}")
    is_rec = lambda c: isinstance(c.func, ast.Attribute) and c.func.attr in recorders and norm(c.func.value) in ("self.argument_generator", "self.arguments_generator")
    is_hand = lambda c: isinstance(c.func, ast.Attribute) and c.func.attr == "extend" and c.args and ".imports" in norm(c.args[0])
    n_sites = 0
    for cname in (CFG_, CO_):
        ci = repo.cls(cname[:-1])
        for mname, fi in ci.methods.items():
            if not any(isinstance(c, ast.Call) and is_rec(c) for c in ast.walk(fi.node)):
                continue
            n_sites += 1
            outs = [o for o in Interp(fi, lambda e: None, is_effect=lambda c: is_rec(c) or is_hand(c)).run() if o.kind in ("return", "fallthrough")]
            good = bool(outs)
            why = ""
            for o in outs:
                effs = [strip_pre(e) for e in o.effects]
                last_rec = max([i for i, e in enumerate(effs) if isinstance(e, ast.Call) and is_rec(e)], default=None)
                if last_rec is None:
                    continue
                owner = norm(effs[last_rec].func.value)
                handed = [i for i, e in enumerate(effs) if isinstance(e, ast.Call) and is_hand(e) and i > last_rec and norm(e.func.value) == "self._imports" and f"{owner}.imports" in norm(strip_pre(e.args[0]))]
                in_body = o.value is not None and f"{owner}.imports" in norm(strip_pre(subst(o.value, o.env, deep=True)))
                if not handed and not in_body:
                    good = False
                    why = f"after `{norm(effs[last_rec])[:80]}` nothing hands {owner}.imports to self._imports"
            ctx.check(good, key(fi, "imports handed over"), f"imports recorded on the argument generator must reach the module's import list after the last recording call: {why}", fi.loc(),
                      okmsg=f"{fi.qualname}: recorded imports are handed to self._imports afterwards")
    ctx.check(n_sites >= 4, "custom generators::recording sites", f"methods of the two generators that record argument imports: {n_sites}", repo.cls(CFG_[:-1]).loc(), okmsg=f"{n_sites} methods record argument imports")
    # the module is the collected imports followed by the classes
    for cname, must in ((CFG_, ["self._imports", "self._class_defs"]), (CO_, ["self._imports", "self._type_imports", "self._class_def"])):
        g = repo.func(cname + "generate")
        outs = [o for o in Interp(g, lambda e: None).run() if o.kind == "return"]
        texts = [str(norm(strip_pre(subst(o.value, o.env, deep=True)))) for o in outs]
        ok = bool(texts) and all(t.startswith("generate_module(body=") and all(m in t for m in must) and [t.index(m) for m in must] == sorted(t.index(m) for m in must) for t in texts)
        ctx.check(ok, key(g, "module body"), f"the module must be {' + '.join(must)} in this order: {texts[:1]}", g.loc(), okmsg=f"{g.qualname}: module = {' + '.join(must)}")
    # fixed imports of the templates
    for cname, names in ((CFG_, {"'Optional'", "'Union'", "'Any'", "'Dict'"}), (CO_, {"'Optional'", "'Any'", "'Dict'"})):
        init = repo.func(cname + "__init__")
        outs = [o for o in Interp(init, lambda e: None, is_effect=lambda c: norm(c.func) == "self._add_import").run() if o.kind in ("return", "fallthrough")]
        good = bool(outs)
        for o in outs:
            got: Set[str] = set()
            for e in o.effects:
                c = strip_pre(subst(strip_pre(e), o.env, deep=True))
                a = allargs(c)[0] if isinstance(c, ast.Call) and allargs(c) else None
                a = strip_pre(a) if a is not None else None
                if isinstance(a, ast.Call) and dotted(a.func) == "generate_import_from" and norm(argv(a, 1, "from_") or ast.Constant(0)) == "'typing'" and isinstance(argv(a, 0, "names"), (ast.List, ast.Tuple)):
                    got |= {norm(x) for x in argv(a, 0, "names").elts}
            good = good and names <= got
        ctx.check(good, key(init, "typing imports"), f"the module template uses {sorted(names)} from typing; all of them must be imported on every path", init.loc(),
                  okmsg=f"{init.qualname}: typing names {sorted(names)} imported")
    init = repo.func(CFG_ + "__init__")
    vals = [st.value for st in ast.walk(init.node) if isinstance(st, (ast.Assign, ast.AnnAssign)) and st.value is not None and norm(st.targets[0] if isinstance(st, ast.Assign) else st.target) == "self._imports"]
    env_consts = lambda t: t.replace("BASE_OPERATION_FILE_PATH.stem", "'base_operation'").replace("BASE_GRAPHQL_FIELD_CLASS_NAME", "'GraphQLField'")
    t0 = env_consts(str(norm(strip_pre(vals[0])))) if vals else ""
    ctx.check(len(vals) == 1 and "'base_operation'" in t0 and "'GraphQLField'" in t0 and "level=1" in t0, key(init, "GraphQLField import"),
              f"custom_fields.py starts from `from .base_operation import GraphQLField`: {t0[:160]}", init.loc(), okmsg="custom_fields.py imports GraphQLField from .base_operation")
    # the typing-field classes an annotation names are imported from custom_typing_fields under the same name
    for mname, ann in (("_generate_fields_method", None), ("_get_field_name", None)):
        fi = repo.func(CFG_ + mname)
        outs = [o for o in Interp(fi, lambda e: None, is_effect=lambda c: norm(c.func) == "self._add_import").run() if o.kind == "return"]
        good = bool(outs)
        seen = 0
        for o in outs:
            rv = str(norm(strip_pre(subst(o.value, o.env, deep=True)))) if o.value is not None else ""
            if mname == "_get_field_name" and rv.endswith(", True)"):
                continue  # object / interface members are methods returning builder classes defined in this module
            seen += 1
            imps = []
            for e in o.effects:
                c = strip_pre(subst(strip_pre(e), o.env, deep=True))
                a = strip_pre(allargs(c)[0]) if isinstance(c, ast.Call) and allargs(c) else None
                if isinstance(a, ast.Call) and dotted(a.func) == "generate_import_from" and norm(argv(a, 1, "from_") or ast.Constant(0)) == "'custom_typing_fields'" and norm(kw(a, "level") or ast.Constant(0)) == "1" \
                        and isinstance(argv(a, 0, "names"), (ast.List, ast.Tuple)):
                    imps += [str(norm(strip_pre(x))) for x in argv(a, 0, "names").elts]
            imps = [i[len("generate_name(name="):-len(").id")] if i.startswith("generate_name(name=") and i.endswith(").id") else i for i in imps]
            good = good and bool(imps) and all(i in rv for i in imps)
        ctx.check(good and seen >= 1, key(fi, "typing class imported"), f"a name from custom_typing_fields used in an annotation must be imported from there under that very name (level 1): {[o.text()[:140] for o in outs][:2]}",
                  fi.loc(), okmsg=f"{fi.qualname}: the typing class it names is imported from .custom_typing_fields")


@rule("C15.R18", "plugin construction: the manager builds one plugin per configured class, in configuration order, each with the schema and the configuration (an empty one when none is given); "
      "Plugin keeps both; a plugin that reads them initialises its base with them first", min_instances=6)
def c15_r18(ctx):
    repo = ctx.repo
    init = repo.func("plugins.manager:PluginManager.__init__")
    ps = real_params(init)
    ctx.check(ps[:3] == ["schema", "config_dict", "plugins_types"], key(init, "parameters"), f"PluginManager(schema, config_dict, plugins_types): {ps}", init.loc(), okmsg="PluginManager(schema, config_dict, plugins_types)")
    good = True
    shown = ""
    for _ in (0,):
        parts = []
        for st in ast.walk(init.node):
            if isinstance(st, ast.Assign) and any(norm(t) == "self.plugins" for t in st.targets):
                parts.append(strip_pre(st.value))
            elif isinstance(st, ast.AnnAssign) and st.value is not None and norm(st.target) == "self.plugins":
                parts.append(strip_pre(st.value))
            elif isinstance(st, ast.AugAssign) and norm(st.target) == "self.plugins":
                parts.append(strip_pre(st.value))
            elif isinstance(st, ast.Call) and isinstance(st.func, ast.Attribute) and st.func.attr in ("append", "extend", "insert") and norm(st.func.value) == "self.plugins":
                parts.append(strip_pre(st.args[0]) if st.func.attr == "extend" and st.args else st)
        for loop in ast.walk(init.node):  # `for cls in ...: self.plugins.append(cls(...))` is the comprehension written as a loop
            if isinstance(loop, ast.For) and len(loop.body) == 1 and not loop.orelse and isinstance(loop.body[0], ast.Expr) and loop.body[0].value in parts and loop.body[0].value.func.attr == "append" \
                    and len(loop.body[0].value.args) == 1:
                call = loop.body[0].value
                parts[parts.index(call)] = ast.ListComp(elt=call.args[0], generators=[ast.comprehension(target=loop.target, iter=loop.iter, ifs=[], is_async=0)])
        comps = [comp_struct(p) for p in parts if isinstance(p, (ast.ListComp, ast.GeneratorExp))]
        lits = [p for p in parts if isinstance(p, (ast.List, ast.Tuple)) and not p.elts]
        shown = str([(str(c[0]), [(str(a), list(map(str, b))) for a, b in c[1]]) for c in comps])
        ok = len(comps) == 1 and len(comps) + len(lits) == len(parts)
        if ok:
            el, gens = comps[0]
            ok = len(gens) == 1 and not gens[0][1] and str(gens[0][0]) in ("plugins_types or []", "plugins_types or ()", "plugins_types if plugins_types else []", "plugins_types if plugins_types is not None else []")
            try:
                call = ast.parse(str(el).replace("$", "_V"), mode="eval").body
            except SyntaxError:
                call = None
            ok = ok and isinstance(call, ast.Call) and norm(call.func) == "_V0" and not any(isinstance(a, ast.Starred) for a in call.args)
            if ok:
                a_schema = argv(call, 0, "schema")
                a_conf = argv(call, 1, "config_dict")
                ok = a_schema is not None and norm(a_schema) == "schema" and a_conf is not None and str(norm(a_conf)) in ("config_dict or {}", "config_dict if config_dict else {}", "config_dict if config_dict is not None else {}", "config_dict or dict()") \
                    and len(call.args) + len(call.keywords) == 2
        if not ok:
            # the same list built through locals (`plugins = []; for t in ...: cfg = ...; plugins.append(t(...)); self.plugins = plugins`): read the paths
            ITER = ("plugins_types or []", "plugins_types or ()", "plugins_types if plugins_types else []", "plugins_types if plugins_types is not None else []")
            CONF = ("config_dict or {}", "config_dict if config_dict else {}", "config_dict if config_dict is not None else {}", "config_dict or dict()")
            effp = lambda c: isinstance(c.func, ast.Attribute) and c.func.attr in ("append", "extend", "insert", "remove", "pop", "reverse", "sort")
            outs = [o for o in Interp(init, lambda e: None, is_effect=effp).run() if o.kind in ("return", "fallthrough")]
            stored = [st.value for st in ast.walk(init.node) if (isinstance(st, ast.Assign) and any(norm(t) == "self.plugins" for t in st.targets)) or
                      (isinstance(st, ast.AnnAssign) and st.value is not None and norm(st.target) == "self.plugins")]
            loops = [n_ for n_ in ast.walk(init.node) if isinstance(n_, ast.For)]
            ok = bool(outs) and len(stored) == 1 and isinstance(stored[0], ast.Name) and len(loops) == 1 and str(norm(loops[0].iter)) in ITER and \
                not any(isinstance(n_, (ast.If, ast.Continue, ast.Break, ast.Try)) for n_ in ast.walk(loops[0]))
            lst = stored[0].id if ok else ""
            for o in outs if ok else []:
                effs = [strip_pre(subst(strip_pre(e), o.env, deep=True)) for e in o.effects]
                once = any("loop body once" in t for t in o.trace)
                if not once:
                    ok = ok and not effs
                    continue
                ok = ok and len(effs) == 1 and isinstance(effs[0], ast.Call) and norm(effs[0].func) == f"{lst}.append" and len(effs[0].args) == 1
                c2 = strip_pre(effs[0].args[0]) if ok else None
                ok = ok and isinstance(c2, ast.Call) and str(norm(c2.func)) in tuple(f"<elem>({i})" for i in ITER) and len(c2.args) + len(c2.keywords) == 2
                if ok:
                    a_s, a_c = argv(c2, 0, "schema"), argv(c2, 1, "config_dict")
                    ok = a_s is not None and a_c is not None and norm(a_s) == "schema" and str(norm(a_c)) in CONF
                shown = str([norm(e)[:160] for e in effs])
        good = good and ok
    ctx.check(good, key(init, "one plugin per class"), f"self.plugins must be [cls(schema=schema, config_dict=config_dict or {{}}) for cls in plugins_types or []] - a list, in configuration order, nothing filtered: {shown[:200]}",
              init.loc(), okmsg="self.plugins = one instance per configured class, in order, built from (schema, config_dict or {})")
    base = repo.func("plugins.base:Plugin.__init__")
    stores = {norm(st.targets[0]): norm(st.value) for st in ast.walk(base.node) if isinstance(st, ast.Assign) and len(st.targets) == 1}
    stores.update({norm(st.target): norm(st.value) for st in ast.walk(base.node) if isinstance(st, ast.AnnAssign) and st.value is not None})
    ctx.check(real_params(base)[:2] == ["schema", "config_dict"] and stores.get("self.schema") == "schema" and stores.get("self.config_dict") == "config_dict" and
              all(st in base.node.body for st in ast.walk(base.node) if isinstance(st, (ast.Assign, ast.AnnAssign))), key(base, "keeps schema and config"),
              f"Plugin.__init__(schema, config_dict) must store both, unconditionally: {stores}", base.loc(), okmsg="Plugin keeps schema and config_dict")
    n = 0
    for ci in repo.all_classes():
        if not ci.module.relpath.startswith("ariadne_codegen/contrib/") or not any(norm(b) in ("Plugin",) for b in ci.node.bases):
            continue
        own = ci.methods.get("__init__")
        if own is None:
            continue
        n += 1
        reads = sorted({norm(a) for fi in ci.methods.values() for a in ast.walk(fi.node) if isinstance(a, ast.Attribute) and norm(a) in ("self.schema", "self.config_dict") and isinstance(a.ctx, ast.Load)})
        sup = [(i, st) for i, st in enumerate(own.node.body) if isinstance(st, ast.Expr) and isinstance(st.value, ast.Call) and norm(st.value.func) in ("super().__init__", "Plugin.__init__")]
        p2 = real_params(own)
        ok = True
        why = ""
        if reads or sup:
            ok = len(sup) == 1
            if ok:
                i, st = sup[0]
                c = st.value
                off = 1 if norm(c.func) == "Plugin.__init__" else 0
                a_s, a_c = argv(c, off, "schema"), argv(c, off + 1, "config_dict")
                ok = a_s is not None and a_c is not None and len(p2) >= 2 and norm(a_s) == p2[0] and norm(a_c) == p2[1]
                why = f"super().__init__ gets ({norm(a_s) if a_s is not None else None}, {norm(a_c) if a_c is not None else None})"
                first_read = min([j for j, s2 in enumerate(own.node.body) if any(isinstance(a, ast.Attribute) and norm(a) in ("self.schema", "self.config_dict") and isinstance(a.ctx, ast.Load) for a in ast.walk(s2))], default=None)
                if ok and first_read is not None and first_read < i:
                    ok = False
                    why = "self.schema / self.config_dict read before the base was initialised"
            else:
                why = f"{len(sup)} unconditional super().__init__ calls"
        ctx.check(ok, key(own, "base initialised"), f"{ci.qualname}.__init__ must hand its schema and config_dict to Plugin.__init__ (once, unconditionally, before reading them; reads: {reads}): {why}", own.loc(),
                  okmsg=f"{ci.qualname}: base initialised with its own (schema, config_dict){' before it reads ' + ', '.join(reads) if reads else ''}")
    ctx.check(n >= 3, "contrib::plugins with a constructor", f"bundled plugins defining __init__: {n}", "ariadne_codegen/contrib", okmsg=f"{n} bundled plugins define __init__")


_LIB_MODULES = ("TYPING_MODULE", "PYDANTIC_MODULE", "'typing'", "'pydantic'")
_NAME_EMITTERS = ("generate_name", "generate_annotation_name", "ast.Name")
_GENERATORS = ("client_generators.client:ClientGenerator", "client_generators.custom_fields:CustomFieldsGenerator", "client_generators.custom_operation:CustomOperationGenerator",
               "client_generators.input_types:InputTypesGenerator", "client_generators.result_types:ResultTypesGenerator")


def _lib_imports(ci) -> Set[str]:
    got: Set[str] = set()
    for fi in ci.methods.values():
        for c in ast.walk(fi.node):
            if isinstance(c, ast.Call) and dotted(c.func) == "generate_import_from":
                names, frm = argv(c, 0, "names"), argv(c, 1, "from_")
                if isinstance(names, (ast.List, ast.Tuple)) and frm is not None and norm(frm) in _LIB_MODULES:
                    got |= {str(norm(x)) for x in names.elts}
    return got


@rule("C04.R20", "a typing / pydantic name that a generator's code can emit (through any helper it reaches) is in the fixed import list of the module it writes", min_instances=25,
      also=["C01", "C03", "C05", "C06", "C07", "C12", "C13", "C14"])
def c04_r20(ctx):
    from ..callgraph import CallGraph
    repo = ctx.repo
    cg = CallGraph(repo)
    # the library names generated modules import on the pinned tree (a name dropped from every import list must not leave the universe)
    universe: Set[str] = {"'AsyncIterator'", "'Dict'", "'Field'", "'PlainSerializer'", "'List'", "'BeforeValidator'", "'Literal'", "'BaseModel'", "'Any'", "'Union'", "'Annotated'", "'Optional'"}
    per: Dict[str, Set[str]] = {}
    for gk in _GENERATORS:
        per[gk] = _lib_imports(repo.cls(gk))
        universe |= per[gk]
    ctx.check(len(universe) >= 10, "generators::library names", f"typing / pydantic names imported by some generated module: {sorted(universe)}", "ariadne_codegen/client_generators",
              okmsg=f"{len(universe)} typing / pydantic names are imported by generated modules")
    for gk in _GENERATORS:
        ci = repo.cls(gk)
        reach = cg.reach(ci.methods.values())
        emitted: Dict[str, str] = {}
        for fi in reach.values():
            for c in ast.walk(fi.node):
                if isinstance(c, ast.Call) and dotted(c.func) in _NAME_EMITTERS:
                    a = argv(c, 0, "id" if dotted(c.func) == "ast.Name" else "name")
                    t = str(norm(strip_pre(a))) if a is not None else ""
                    if t in universe:
                        emitted.setdefault(t, f"{fi.qualname} ({fi.loc(c)})")
        for t, where in sorted(emitted.items()):
            ctx.check(t in per[gk], f"{gk.split(':')[1]}::emits {t}", f"{ci.qualname} can emit the name {t} (in {where}) but the module it writes does not import it: NameError when the generated module is imported",
                      ci.loc(), okmsg=f"{ci.qualname}: {t} emitted by {where.split(' (')[0]} and imported")


@rule("C09.R6", "the names a module exports are the names of exactly the classes it writes (after pruning), and forward references are rebuilt for the same classes", min_instances=4, also=["C04", "C17"])
def c09_r6(ctx):
    repo = ctx.repo
    for gk, has_rebuild in (("client_generators.input_types:InputTypesGenerator.generate", True), ("client_generators.enums:EnumsGenerator.generate", False)):
        g = repo.func(gk)
        outs = [o for o in Interp(g, lambda e: None).run() if o.kind == "return"]
        stores = [st.value for st in ast.walk(g.node) if (isinstance(st, ast.Assign) and any(norm(t) == "self._generated_public_names" for t in st.targets)) or
                  (isinstance(st, ast.AnnAssign) and st.value is not None and norm(st.target) == "self._generated_public_names")]
        good = bool(outs) and len(stores) == 1
        shown = ""
        for o in outs:
            if not good:
                break
            cs = comp_struct(strip_pre(subst(stores[0], o.env, deep=True)))
            body = o.value
            for _ in range(6):  # the module may have gone through the plugin hook: generate_module(...) is what was written
                body = strip_pre(subst(body, o.env, deep=True)) if body is not None else None
                if isinstance(body, ast.Call) and dotted(body.func).endswith("generate_inputs_module") or isinstance(body, ast.Call) and dotted(body.func).endswith("generate_enums_module"):
                    body = allargs(body)[0] if allargs(body) else None
                else:
                    break
            bt = str(norm(body)) if body is not None else ""
            shown = f"exported {cs}, module {bt[:140]}"
            ok = cs is not None and str(cs[0]) == "$0.name" and len(cs[1]) == 1 and not cs[1][0][1]
            if ok:
                src = str(cs[1][0][0])
                ok = src.startswith("self._filter_class_defs(") and bt.startswith("generate_module(body=") and f"+ {src}" in bt
                if ok and has_rebuild:
                    # model_rebuild() calls are emitted for the same classes
                    ok = f"for _c0x0 in {src} if model_has_forward_refs(" in bt or f"in {src} if model_has_forward_refs" in bt
            good = good and ok
        ctx.check(good, key(g, "exported = written"), f"self._generated_public_names must be [c.name for c in <the filtered classes written to the module>]: {shown}", g.loc(),
                  okmsg=f"{g.qualname}: exported names are those of the filtered classes written to the module")
    for gk in ("client_generators.input_types:InputTypesGenerator.get_generated_public_names", "client_generators.enums:EnumsGenerator.get_generated_public_names"):
        fi = repo.func(gk)
        rets = [norm(r.value) for r in ast.walk(fi.node) if isinstance(r, ast.Return) and r.value is not None]
        ctx.check(rets in (["self._generated_public_names"], ["list(self._generated_public_names)"]), key(fi, "returns the recorded names"), f"returns {rets}", fi.loc(), okmsg=f"{fi.qualname} returns the recorded names")


@rule("C16.R9", "the schema target format is decided from the last suffix of the file name - the part the validator checked - lower-cased, without the dot", min_instances=3, also=["C17"])
def c16_r9(ctx):
    repo = ctx.repo

    def suffix_use(fi, subject):
        outs = [o for o in Interp(fi, lambda e: None).run()]
        texts = []
        for st in ast.walk(fi.node):
            for a in ast.walk(st) if isinstance(st, (ast.Return, ast.Assign, ast.AnnAssign)) else []:
                if isinstance(a, ast.Attribute) and isinstance(a.value, ast.Call) and dotted(a.value.func) in ("Path", "PurePath", "pathlib.Path") and a.value.args and norm(a.value.args[0]) == subject:
                    texts.append(a.attr)
        return texts, outs
    tf = repo.func("settings:GraphQLSchemaSettings.target_file_format")
    attrs, _ = suffix_use(tf, "self.target_file_path")
    rets = [str(norm(r.value)) for r in ast.walk(tf.node) if isinstance(r, ast.Return) and r.value is not None]
    strip_ok = lambda t: (".lower()" in t) and ("[1:]" in t or "lstrip('.')" in t or "removeprefix('.')" in t)
    ctx.check(attrs == ["suffix"] and len(rets) == 1 and strip_ok(rets[0]), key(tf, "last suffix"), f"target_file_format must be Path(self.target_file_path).suffix, lower-cased, dot removed: {rets}", tf.loc(),
              okmsg="target_file_format = last suffix of target_file_path, lower-cased, without the dot")
    va = repo.func("settings:assert_string_is_valid_schema_target_filename")
    p0 = real_params(va)[0]
    attrs2, _ = suffix_use(va, p0)
    ctx.check(attrs2 and set(attrs2) == {"suffix"}, key(va, "last suffix"), f"the validator must look at Path({p0}).suffix: {attrs2}", va.loc(), okmsg="the file-name validator checks the last suffix")
    users = []
    for fi in repo.all_functions():
        for c in ast.walk(fi.node):
            if isinstance(c, ast.Compare) and "target_file_format" in norm(c.left) and len(c.ops) == 1:
                users.append((fi, c))
    ok = bool(users) and all(isinstance(c.ops[0], (ast.Eq, ast.NotEq)) and norm(c.comparators[0]) == "'py'" for _, c in users)
    ctx.check(ok and len(users) >= 2, "settings::target_file_format compared", f"the format is compared with 'py' in {[(f.qualname, norm(c)) for f, c in users]}", tf.loc(),
              okmsg=f"{len(users)} places compare the format with 'py'")


@rule("C12.R5", "each operation gets the method flavour of the configured client: add_method receives the package generator's async flag, which is the constructor's parameter", min_instances=3,
      also=["C11", "C13", "C02", "C04"])
def c12_r5(ctx):
    repo = ctx.repo
    ao = repo.func(PGEN + "add_operation")
    calls = [c for c in ast.walk(ao.node) if isinstance(c, ast.Call) and norm(c.func) == "self.client_generator.add_method"]
    ctx.check(len(calls) == 1, key(ao, "one method per operation"), f"add_operation calls add_method {len(calls)} times", ao.loc(), okmsg="add_operation adds exactly one client method")
    if calls:
        a = kw(calls[0], "async_")
        ctx.check(a is not None and norm(a) == "self.async_client", key(ao, "flavour"), f"add_method(async_=...) must be the generator's own flag self.async_client, got {norm(a) if a is not None else None}", ao.loc(calls[0]),
                  okmsg="add_method(async_=self.async_client)")
    init = repo.func(PGEN + "__init__")
    vals = [norm(st.value) for st in ast.walk(init.node) if (isinstance(st, ast.Assign) and any(norm(t) == "self.async_client" for t in st.targets)) or
            (isinstance(st, ast.AnnAssign) and st.value is not None and norm(st.target) == "self.async_client")]
    ctx.check(vals == ["async_client"], key(init, "flag stored"), f"self.async_client is assigned {vals}; it must be the constructor's parameter", init.loc(), okmsg="self.async_client = async_client")


@rule("C04.R21", "what one step records is what a later step reads: a result class is exported the moment it is created (once), and every operation's unpacked fragments are accumulated for the fragments module",
      min_instances=4, also=["C01", "C08", "C09", "C12"])
def c04_r21(ctx):
    repo = ctx.repo
    ptd = repo.func(RT + "_parse_type_definition")
    p0 = real_params(ptd)[0]
    eff = lambda c: isinstance(c.func, ast.Attribute) and c.func.attr in ("append", "add", "extend", "remove", "clear") and norm(c.func.value) == "self._public_names"
    for known in (False, True):
        def atom(e, known=known):
            t = str(norm(strip_pre(e)))
            if t == f"{p0} in self._public_names":
                return known
            if t == f"{p0} not in self._public_names":
                return not known
            return None
        outs = [o for o in Interp(ptd, atom, is_effect=eff, max_paths=400).run() if o.kind == "return"]
        good = bool(outs)
        for o in outs:
            effs = [str(norm(strip_pre(e))) for e in o.effects]
            if known:
                good = good and not effs and norm(strip_pre(o.value)) in ("[]", "list()")
            else:
                good = good and effs == [f"self._public_names.append({p0})"]
        ctx.check(good, key(ptd, f"already exported={known}"), f"[class name {'already' if known else 'not yet'} exported] " +
                  ("nothing may be generated or recorded a second time" if known else f"the class name must be recorded in self._public_names exactly once: {[o.text()[:100] for o in outs][:1]}"), ptd.loc(),
                  okmsg=f"_parse_type_definition: {'second request -> nothing' if known else 'new class -> name recorded once'}")
    gp = repo.func(RT + "get_generated_public_names")
    rets = [norm(r.value) for r in ast.walk(gp.node) if isinstance(r, ast.Return) and r.value is not None]
    ctx.check(rets in (["self._public_names"], ["list(self._public_names)"]), key(gp, "returns the recorded names"), f"returns {rets}", gp.loc(), okmsg="get_generated_public_names returns the recorded names")
    ao = repo.func(PGEN + "add_operation")
    stores = [st for st in ast.walk(ao.node) if (isinstance(st, ast.Assign) and any(norm(t) == "self._unpacked_fragments" for t in st.targets)) or
              (isinstance(st, ast.AugAssign) and norm(st.target) == "self._unpacked_fragments")]
    upd = [c for c in ast.walk(ao.node) if isinstance(c, ast.Call) and isinstance(c.func, ast.Attribute) and c.func.attr in ("update", "add") and norm(c.func.value) == "self._unpacked_fragments"]
    src = ".get_unpacked_fragments()"
    ok = False
    for st in stores:
        t = str(norm(st.value))
        if isinstance(st, ast.AugAssign):
            ok = ok or (isinstance(st.op, ast.BitOr) and src in t)
        else:
            ok = ok or ("self._unpacked_fragments" in t and src in t and (".union(" in t or " | " in t) and ".intersection(" not in t and " & " not in t and ".difference(" not in t)
    for c in upd:
        ok = ok or (c.func.attr == "update" and any(src in norm(a) for a in c.args))
    ctx.check(ok and len(stores) + len(upd) == 1, key(ao, "unpacked fragments accumulated"), "add_operation must add the operation's unpacked fragments to self._unpacked_fragments (union with what earlier operations recorded): "
              f"{[norm(st)[:120] for st in stores] + [norm(c)[:120] for c in upd]}", ao.loc(), okmsg="add_operation: self._unpacked_fragments |= the operation's unpacked fragments")
