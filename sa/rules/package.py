"""Rules over package assembly, settings and main: C02 (embedding), C04, C09, C17."""
from __future__ import annotations

import ast
import keyword
from typing import Dict, List, Optional, Set, Tuple

from ..absint import Interp, subst
from ..model import AnalysisError, ClassInfo, FuncInfo, dotted, norm, walk_no_nested
from ..report import rule
from ..shape import Alt, Attr, CallV, Index, ListOf, Lit, Node, Param, Seq, Shaper, alts, chain, is_lit, nodes, seq_items
from ..util import allargs, argv, calls_named, cfg_of, comp_struct, is_const, is_name, key, kw, names_in, site_packages_source, stdlib_source, strip_pre

PG = "client_generators.package:PackageGenerator"
CGEN = "client_generators.client:ClientGenerator."


# ====================================================================== C02.R1
LITERAL_PRESERVING_EXT = {
    "ast.unparse": "python's own unparser",
    "fix_code": "autoflake removes unused imports only",
    "autoflake.fix_code": "autoflake removes unused imports only",
    "isort.code": "isort reorders import statements only",
    "format_str": "black reformats layout, keeps string contents",
    "black.format_str": "black reformats layout, keeps string contents",
    "Mode": "black configuration object",
}
TABLED_TEXT_OPS = {
    ("utils", "remove_blank_line_between_class_and_content"): "drops empty lines after a class header; lines are appended unchanged (checked)",
    ("contrib.extract_operations", "'\\n\\n'.join"): "joins the lines of ast.unparse output (one statement per line) with blank lines",
    ("contrib.extract_operations", "code.splitlines"): "lines of ast.unparse output (string constants are single-line escaped literals)",
    ("contrib.extract_operations", "<concat>"): "comment prefix: comment + blank line + code",
}


def _chain_transformers(fi: FuncInfo, seed_pred) -> List[Tuple[str, ast.Call, Optional[ast.AST]]]:
    """functions applied, in order, to the text produced by the seed call (def-use chain
    through local variables of `fi`); each entry = (callee dotted name, call, guarding If)"""
    tracked: Set[str] = set()
    out: List[Tuple[str, ast.Call, Optional[ast.AST]]] = []

    def visit_expr(e: ast.AST, guard) -> bool:
        """returns True if the expression carries the tracked text"""
        if isinstance(e, ast.Name):
            return e.id in tracked
        if isinstance(e, ast.Call):
            if seed_pred(e):
                out.append((dotted(e.func), e, guard))
                return True
            carries = False
            parts = list(e.args) + [k.value for k in e.keywords]
            if isinstance(e.func, ast.Attribute):
                parts.append(e.func.value)
            for p in parts:
                if visit_expr(p, guard):
                    carries = True
            if carries:
                out.append((dotted(e.func) if dotted(e.func) and not dotted(e.func).startswith(".") and not isinstance(getattr(e.func, "value", None), ast.Constant) else norm(e.func), e, guard))
            return carries
        if isinstance(e, ast.BinOp):
            l = visit_expr(e.left, guard)
            r = visit_expr(e.right, guard)
            if l or r:
                out.append(("<concat>", e, guard))
            return l or r
        if isinstance(e, (ast.JoinedStr, ast.IfExp, ast.Subscript, ast.Attribute, ast.Starred, ast.FormattedValue)):
            got = False
            for c in ast.iter_child_nodes(e):
                if visit_expr(c, guard):
                    got = True
            if got and isinstance(e, ast.JoinedStr) and all(isinstance(v, ast.Constant) or (isinstance(v, ast.FormattedValue) and v.conversion == -1 and v.format_spec is None) for v in e.values):
                out.append(("<concat>", e, guard))  # f'{a}...{text}' with plain fields is concatenation (the loader writes `a + '..' + text` this way)
            elif got and isinstance(e, (ast.Subscript, ast.JoinedStr)):
                out.append(("<" + type(e).__name__ + ">", e, guard))
            return got
        return False

    def block(body, guard):
        for st in body:
            if isinstance(st, (ast.Assign, ast.AnnAssign)) and st.value is not None:
                if visit_expr(st.value, guard):
                    tgts = st.targets if isinstance(st, ast.Assign) else [st.target]
                    for t in tgts:
                        if isinstance(t, ast.Name):
                            tracked.add(t.id)
            elif isinstance(st, ast.AugAssign):
                if visit_expr(st.value, guard) or (isinstance(st.target, ast.Name) and st.target.id in tracked):
                    out.append(("<augassign>", st, guard))
            elif isinstance(st, ast.Return) and st.value is not None:
                visit_expr(st.value, guard)
            elif isinstance(st, ast.Expr):
                visit_expr(st.value, guard)
            elif isinstance(st, ast.If):
                block(st.body, st)
                block(st.orelse, st)
            elif isinstance(st, (ast.For, ast.While, ast.With, ast.Try)):
                for b in (getattr(st, "body", []), getattr(st, "orelse", []), getattr(st, "finalbody", [])):
                    block(b, guard)
    block(fi.node.body, None)
    return out


def _rewriter_signature(repo, fi: FuncInfo, depth: int = 0) -> str:
    """the text operations a repository function applies (regex calls and str methods with their
    constant arguments, following repository callees): identifies *which* rewriting a finding is about"""
    ops = []
    for c in sorted((c for c in walk_no_nested(fi.node) if isinstance(c, ast.Call)), key=lambda c: (c.lineno, c.col_offset)):
        d = dotted(c.func)
        if d.startswith("re.") or (isinstance(c.func, ast.Attribute) and c.func.attr in ("replace", "encode", "decode", "translate", "strip", "lstrip", "rstrip", "format", "join", "split", "splitlines", "expandtabs")):
            consts = [repr(a.value) for a in c.args if isinstance(a, ast.Constant)]
            ops.append((d.split(".")[-1] if not d.startswith("re.") else d) + "(" + ",".join(consts) + ")")
        elif isinstance(c.func, ast.Name):
            k, v = repo.resolve(fi.module, c.func.id)
            if k == "func" and depth < 3:
                ops.append(c.func.id + "{" + _rewriter_signature(repo, v, depth + 1) + "}")
            elif c.func.id in ("indent", "dedent"):
                ops.append(c.func.id)
    return ";".join(ops)


def _check_remove_blank_lines(ctx):
    fi = ctx.repo.func("utils:remove_blank_line_between_class_and_content")
    p = fi.node.args.args[0].arg
    probs = []
    appended = [c for c in walk_no_nested(fi.node) if isinstance(c, ast.Call) and isinstance(c.func, ast.Attribute) and c.func.attr == "append"]
    loops = [n for n in fi.node.body if isinstance(n, ast.For)]
    if len(loops) != 1 or norm(loops[0].iter) != f"{p}.splitlines()":
        probs.append("does not iterate the lines of the code")
    else:
        lv = norm(loops[0].target)
        if not appended or any(not (allargs(c) and norm(allargs(c)[0]) == lv) for c in appended):
            probs.append("appends something other than the unchanged line")
        for c in walk_no_nested(fi.node):
            if isinstance(c, ast.Call) and isinstance(c.func, ast.Attribute) and c.func.attr in ("replace", "strip", "lstrip", "rstrip", "format", "translate", "sub"):
                probs.append(f"rewrites line text with .{c.func.attr}()")
    rets = [n for n in fi.node.body if isinstance(n, ast.Return)]
    if len(rets) != 1 or norm(rets[0].value) != "'\\n'.join(code_lines)" and not (isinstance(rets[0].value, ast.Call) and dotted(rets[0].value.func) == "'\\n'.join"):
        probs.append("does not return the kept lines joined by newlines")
    ctx.check(not probs, key(fi, "line filter"), "; ".join(probs), fi.loc(), okmsg="remove_blank_line_between_class_and_content only drops lines")


@rule("C02.R1", "the module text holding the operation string passes only through literal-preserving functions", min_instances=8, also=["C04", "C15"])
def c02_r1(ctx):
    repo = ctx.repo
    _check_remove_blank_lines(ctx)
    chains = [("utils:ast_to_str", "utils"), ("contrib.extract_operations:ExtractOperationsPlugin._module_to_str", "contrib.extract_operations")]
    for fk, ms in chains:
        fi = repo.func(fk)
        tr = _chain_transformers(fi, lambda c: dotted(c.func) == "ast.unparse")
        if not tr or tr[0][0] != "ast.unparse":
            raise AnalysisError(f"{fk}: chain from ast.unparse not found")
        for name, call, guard in tr:
            ext = repo.ext_name(fi.module, call.func) if isinstance(call, ast.Call) else None
            kind, tgt = ("", None)
            if isinstance(call, ast.Call) and isinstance(call.func, ast.Name):
                kind, tgt = repo.resolve(fi.module, call.func.id)
            if name in LITERAL_PRESERVING_EXT and (kind in ("ext", "unknown") or ext):
                ctx.ok(f"{fi.key}: {name} ({LITERAL_PRESERVING_EXT[name]})", fi.loc(call))
                continue
            if kind == "func" and (tgt.module.short, tgt.qualname) in TABLED_TEXT_OPS:
                ctx.ok(f"{fi.key}: {name} (tabled: {TABLED_TEXT_OPS[(tgt.module.short, tgt.qualname)][:60]})", fi.loc(call))
                continue
            if (ms, name) in TABLED_TEXT_OPS:
                ctx.ok(f"{fi.key}: {name} (tabled: {TABLED_TEXT_OPS[(ms, name)][:60]})", fi.loc(call))
                continue
            g = f" when `{norm(guard.test)}`" if guard is not None else ""
            sig = ""
            if kind == "func":
                sig = " ops=" + _rewriter_signature(repo, tgt)
            ctx.fail(key(fi, f"{name}(code){sig}"), f"text-level rewriter `{name}` is applied to the generated module source{g}: "
                     "string literals of the operation (quotes, backslash escapes, '=' ...) can be altered or break formatting", fi.loc(call))
    # call sites that enable the optional rewriter
    a2s = repo.func("utils:ast_to_str")
    for fi in repo.all_functions():
        for c in walk_no_nested(fi.node):
            if isinstance(c, ast.Call) and isinstance(c.func, ast.Name) and repo.resolve(fi.module, c.func.id) == ("func", a2s):
                v = kw(c, "multiline_strings") or (allargs(c)[2] if len(allargs(c)) > 2 else None)
                if v is not None and not is_const(v, False):
                    ctx.note(f"{fi.key} enables multiline_strings ({norm(v)})")
    # comment prefixing keeps the code unchanged
    ac = repo.func(PG + "._add_comments_to_code")
    for has in (True, False):
        def atom(e, has=has):
            t = norm(strip_pre(e))
            if t == "self.plugin_manager":
                return False
            if t.startswith("get_comment("):
                return has
            return None
        o = Interp(ac, atom).run()
        want = "get_comment(strategy=self.comments_strategy, source=source) + '\\n\\n' + code" if has else "code"
        ctx.check(len(o) == 1 and norm(strip_pre(o[0].value)) == want, key(ac, f"comment={has}"), f"code must be returned unchanged after the optional comment; got {[x.text() for x in o]}", ac.loc(),
                  okmsg=f"_add_comments_to_code(comment={has}) keeps the code")
    # client module: ast_to_str -> comments -> plugin hook -> write
    gc = repo.func(PG + "._generate_client")
    tr = _chain_transformers(gc, lambda c: dotted(c.func) == "ast_to_str")
    names = [n for n, _, _ in tr]
    allowed = {"ast_to_str", "self._add_comments_to_code", "self.plugin_manager.generate_client_code", "client_file_path.write_text"}
    extra = [n for n in names if n not in allowed]
    ctx.check(not extra and "client_file_path.write_text" in names, key(gc, "chain"), f"client source passes through {extra} before being written", gc.loc(), okmsg="client source: ast_to_str -> comment -> plugin hook -> write")


# ====================================================================== C02.R5
def _kwmap(call: Node) -> Dict[Optional[str], object]:
    out = {}
    for k in seq_items(call.get("keywords")):
        if isinstance(k, Node) and k.kind == "keyword":
            a = k.get("arg")
            out[a.value if isinstance(a, Lit) else chain(a)] = k.get("value")
    return out


@rule("C02.R5", "generated methods bind query / operationName / variables to the execute call", min_instances=6, also=["C12", "C13", "C03"])
def c02_r5(ctx):
    repo = ctx.repo
    sh = Shaper(repo)
    for fn, attr in (("_generate_execute_call", "execute"), ("_generate_async_generator_loop", "execute_ws")):
        fi = repo.func(CGEN + fn)
        v = sh.call_function(fi)
        calls = [n for n in nodes(v, "Call") if isinstance(n.get("func"), Node) and n.get("func").kind == "Attribute" and is_lit(n.get("func").get("attr"), attr)]
        probs = []
        if len(calls) != 1:
            probs.append(f"{len(calls)} emitted self.{attr}(...) calls")
        else:
            c = calls[0]
            f = c.get("func")
            if not (isinstance(f.get("value"), Node) and is_lit(f.get("value").get("id"), "self")):
                probs.append("callee is not self." + attr)
            km = _kwmap(c)
            q = km.get("query")
            if not (isinstance(q, Node) and q.kind == "Name" and chain(q.get("id")) == "$variable_names['query']"):
                probs.append(f"query= is {q!r}, expected the local holding the operation string")
            o = km.get("operation_name")
            if not (isinstance(o, Node) and o.kind == "Constant" and chain(o.get("value")) == "$operation_name"):
                probs.append(f"operation_name= is {o!r}, expected the constant operation name")
            va = km.get("variables")
            if not (isinstance(va, Node) and va.kind == "Name" and chain(va.get("id")) == "$variable_names['variables']"):
                probs.append(f"variables= is {va!r}, expected the local holding the variables dict")
            sp = km.get(None)
            if not (isinstance(sp, Node) and sp.kind == "Name" and is_lit(sp.get("id"), "kwargs")):
                probs.append("**kwargs is not forwarded")
            extra = set(km) - {"query", "operation_name", "variables", None}
            if extra or seq_items(c.get("args")):
                probs.append(f"unexpected arguments {sorted(map(str, extra))}")
        ctx.check(not probs, key(fi, "emitted call"), "; ".join(probs), fi.loc(), okmsg=f"emitted self.{attr}(query=, operation_name=, variables=, **kwargs)")
    # the operation string is embedded line by line, unmodified
    fi = repo.func(CGEN + "_generate_operation_str_assign")
    v = sh.call_function(fi)
    probs = []
    if not (isinstance(v, Node) and v.kind == "Assign"):
        probs.append("does not emit an assignment")
    else:
        tg = seq_items(v.get("targets"))
        val = v.get("value")
        tv_ = v.get("targets")
        ok_t = (isinstance(tv_, ListOf) and "$variable_names['query']" in chain(tv_.gens[0][1].items[0] if isinstance(tv_.gens[0][1], Seq) and tv_.gens[0][1].items else Lit(0))) or \
            (isinstance(tv_, Seq) and len(tv_.items) == 1 and isinstance(tv_.items[0], Node) and tv_.items[0].kind == "Name" and chain(tv_.items[0].get("id")) == "$variable_names['query']")
        if not ok_t:
            probs.append("target is not the query local")
        if not (isinstance(val, Node) and val.kind == "Call" and isinstance(val.get("func"), Node) and chain(val.get("func").get("id")) in ("'gql'",)):
            probs.append("value is not gql(...)")
        else:
            a = seq_items(val.get("args"))
            inner = a[0] if len(a) == 1 else None
            if not (isinstance(inner, ListOf) and isinstance(inner.elt, Node) and inner.elt.kind == "Constant" and "operation_str.splitlines" in repr(inner.gens[0][1]) and not inner.gens[0][2]):
                probs.append("argument is not one string constant per line of the operation string")
            else:
                ev = inner.elt.get("value")
                rv = repr(ev).replace("%" + inner.gens[0][0], "%l")
                if rv not in ("f%l+Lit('\\n')", "(%l Add Lit('\\n'))") and not ("Add" in rv and "'\\n'" in rv and "%l" in rv):
                    probs.append(f"line constant is {ev!r}, expected line + newline")
    ctx.check(not probs, key(fi, "embedding"), "; ".join(probs), fi.loc(), okmsg="operation string embedded as its lines, each terminated by a newline")
    gq = _const_attr(repo, "client_generators.client:ClientGenerator", "_gql_func_name")
    gf = repo.func(CGEN + "_generate_gql_func")
    gv = sh.call_function(gf)
    good = isinstance(gv, Node) and gv.kind == "FunctionDef" and len(seq_items(gv.get("body"))) == 1
    if good:
        ret = seq_items(gv.get("body"))[0]
        args = gv.get("args")
        a0 = seq_items(args.get("args"))[0] if isinstance(args, Node) else None
        good = isinstance(ret, Node) and ret.kind == "Return" and isinstance(ret.get("value"), Node) and isinstance(a0, Node) and repr(ret.get("value").get("id")) == repr(a0.get("arg"))
    ctx.check(good, key(gf, "identity"), "the gql helper emitted into the client is not the identity function", gf.loc(), okmsg="gql() helper is the identity")
    # add_method: operation name and string provenance
    am = repo.func(CGEN + "add_method")
    gens = ("self._generate_subscription_method_def", "self._generate_async_method", "self._generate_method")
    good = True
    seen_calls = 0
    for named, want in ((True, "definition.name.value"), (False, "''")):
        outs = Interp(am, lambda e, named=named: (named if norm(strip_pre(e)) == "definition.name" else None), is_effect=lambda c: dotted(c.func) in gens).run()
        for o in outs:
            for c in [x for x in o.effects if isinstance(x, ast.Call) and dotted(x.func) in gens]:
                seen_calls += 1
                good = good and norm(strip_pre(kw(c, "operation_name") or ast.Constant(0))) == want and norm(strip_pre(kw(c, "operation_str") or ast.Constant(0))) == "operation_str" \
                    and norm(strip_pre(kw(c, "return_type") or ast.Constant(0))) == "return_type" and norm(strip_pre(kw(c, "arguments_dict") or ast.Constant(0))) in ("arguments_dict", "self.arguments_generator.generate(definition.variable_definitions)[1]")
    good = good and seen_calls >= 2
    ctx.check(good, key(am, "operation name"), "operationName is not the name of the operation definition / operation string not forwarded", am.loc(), okmsg="operation_name = definition.name.value; operation_str forwarded")
    ao = repo.func(PG + ".add_operation")
    c = calls_named(ao.node, "self.client_generator.add_method")
    env = {st.targets[0].id: st.value for st in ao.node.body if isinstance(st, ast.Assign) and len(st.targets) == 1 and isinstance(st.targets[0], ast.Name)}
    good = len(c) == 1 and norm(kw(c[0], "definition") or ast.Constant(0)) == "definition" and norm(kw(c[0], "operation_str") or ast.Constant(0)) == "operation_str" \
        and norm(env.get("operation_str") or ast.Constant(0)) == "query_types_generator.get_operation_as_str()"
    qg = env.get("query_types_generator")
    good = good and isinstance(qg, ast.Call) and norm(kw(qg, "operation_definition") or ast.Constant(0)) == "definition"
    ctx.check(good, key(ao, "operation string source"), "the client method is not given the operation string of its own definition", ao.loc(), okmsg="method gets get_operation_as_str() of its own definition")


def _const_attr(repo, cls_key: str, attr: str):
    ci = repo.cls(cls_key)
    init = ci.methods.get("__init__")
    for st in init.node.body if init else []:
        if isinstance(st, ast.Assign) and norm(st.targets[0]) == f"self.{attr}" and isinstance(st.value, ast.Constant):
            return st.value.value
    return None


# ====================================================================== C02.R6
@rule("C02.R6", "operations are validated against the schema with the full rule set before generation", min_instances=4, also=["C17"])
def c02_r6(ctx):
    fi = ctx.repo.func("schema:get_graphql_queries")
    v = calls_named(fi.node, "validate")
    probs = []
    if len(v) != 1:
        probs.append(f"{len(v)} validate calls")
    else:
        c = v[0]
        if norm(kw(c, "schema") or (allargs(c)[0] if allargs(c) else ast.Constant(0))) != "schema":
            probs.append("validation is not against the given schema")
        r = kw(c, "rules")
        if r is not None:
            from ..util import comp_struct
            rr = r
            while isinstance(rr, ast.Call) and isinstance(rr.func, ast.Name) and rr.func.id in ("tuple", "list") and len(rr.args) == 1 and not rr.keywords:
                rr = rr.args[0]
            ok = comp_struct(rr) == ("$0", [("specified_rules", ["$0 is not NoUnusedFragmentsRule"])])
            if not ok:
                probs.append(f"rules are {norm(r)[:100]}; only NoUnusedFragmentsRule may be left out of specified_rules")
    ctx.check(not probs, key(fi, "rules"), "; ".join(probs), fi.loc(), okmsg="validate(schema, document, specified_rules minus NoUnusedFragmentsRule)")
    for errs in (True, False):
        def atom(e, errs=errs):
            t = norm(strip_pre(e))
            if t.startswith("validate("):
                return errs
            return None
        o = Interp(fi, atom).run()
        if errs:
            good = len(o) == 1 and o[0].kind == "raise" and o[0].exc == "InvalidOperationForSchema"
            if good:
                # the message names the problem: every validation error's message is part of it
                from ..util import comp_struct
                exc = o[0].value if isinstance(getattr(o[0], "value", None), ast.Call) else None
                if exc is None:
                    exc = next((r.exc for r in ast.walk(fi.node) if isinstance(r, ast.Raise) and r.exc is not None and "InvalidOperationForSchema" in norm(r.exc)), None)
                msg = strip_pre(allargs(exc)[0]) if isinstance(exc, ast.Call) and allargs(exc) else None
                msg = strip_pre(o[0].deref(msg)) if isinstance(msg, ast.Name) else msg
                if msg is not None:
                    from ..absint import subst as _sb
                    msg = strip_pre(_sb(msg, o[0].env, deep=True))
                named = False
                if msg is not None:
                    for c in ast.walk(msg):
                        cs = comp_struct(c) if isinstance(c, (ast.GeneratorExp, ast.ListComp)) else None
                        if cs is not None and len(cs[1]) == 1 and not cs[1][0][1] and cs[0] in ("$0.message", "str($0)", "$0.formatted['message']", "f'{$0}'", "f'{$0.message}'"):
                            itx = strip_pre(c.generators[0].iter)
                            itx = strip_pre(o[0].deref(itx)) if isinstance(itx, ast.Name) else itx
                            if isinstance(itx, ast.Call) and dotted(itx.func) == "validate":
                                named = True
                    if not named and any(isinstance(c, ast.Name) and c.id == "validation_errors" for c in ast.walk(msg)) and not any(isinstance(c, (ast.Subscript, ast.GeneratorExp, ast.ListComp)) for c in ast.walk(msg)):
                        named = True      # the whole list is formatted into the message
                ctx.check(named, key(fi, "message"), f"the InvalidOperationForSchema message is `{norm(msg)[:120] if msg is not None else None}`: it must carry the message of every validation error "
                          "(a document with a single error would otherwise fail with an empty / partial text that does not name the problem)", fi.loc(), okmsg="error message = the messages of all validation errors")
        else:
            good = len(o) == 1 and o[0].kind == "return" and norm(strip_pre(o[0].value)) == "parse(load_graphql_files_from_path(Path(queries_path))).definitions"
        ctx.check(good, key(fi, f"errors={errs}"), f"validation errors={errs}: got {[x.text() for x in o]}", fi.loc(),
                  okmsg=f"validation errors={errs} -> {'InvalidOperationForSchema' if errs else 'definitions of the parsed document'}")


# ====================================================================== C04
def _specified_scalars() -> Set[str]:
    path, src = site_packages_source("graphql", "type", "scalars.py")
    names = set()
    for n in ast.walk(ast.parse(src)):
        if isinstance(n, ast.Call) and isinstance(n.func, ast.Name) and n.func.id == "GraphQLScalarType":
            v = kw(n, "name")
            if isinstance(v, ast.Constant):
                names.add(v.value)
    if not {"String", "Int", "Float", "Boolean", "ID"} <= names:
        raise AnalysisError(f"oracle: specified scalars not found in {path}")
    return names


@rule("C04.R1", "no reserved GraphQL type is re-defined (graphql-core refuses it)", min_instances=1)
def c04_r1(ctx):
    reserved = _specified_scalars() | {"__Schema", "__Directive", "__DirectiveLocation", "__Type", "__Field", "__InputValue", "__EnumValue", "__TypeKind"}
    n = 0
    for fi in ctx.repo.all_functions():
        for c in walk_no_nested(fi.node):
            if isinstance(c, ast.Call) and isinstance(c.func, ast.Name) and c.func.id.startswith("GraphQL") and c.func.id.endswith("Type"):
                n += 1
                v = kw(c, "name") or (allargs(c)[0] if allargs(c) else None)
                val = None
                if v is not None:
                    try:
                        val = ctx.repo.const_eval(fi.module, v)
                    except Exception:
                        val = None
                if val in reserved:
                    ctx.fail(key(fi, norm(c)), f"{norm(c)} re-defines the reserved type {val!r}: graphql-core raises TypeError('Redefinition of reserved type')", fi.loc(c))
    ctx.ok(f"{n} GraphQL*Type constructor calls scanned, none names a reserved type ({len(reserved)} reserved names from the installed graphql-core)")


@rule("C04.R2", "every file written is reported, and only those", min_instances=12)
def c04_r2(ctx):
    repo = ctx.repo
    pg = repo.cls(PG)
    writes = 0
    for name, fi in sorted(pg.methods.items()):
        g = cfg_of(fi)
        for n in g.stmts():
            if n.kind != "stmt" or n.ast is None:
                continue
            for c in calls_named(n.ast, "write_text"):
                base = norm(c.func.value)
                writes += 1
                want = f"self._generated_files.append({base}.name)"
                # every path from the write to the function's normal exit passes the append
                def is_append(x, want=want):
                    return x.ast is not None and x.kind == "stmt" and any(norm(cc) == want for cc in ast.walk(x.ast) if isinstance(cc, ast.Call))
                bad = g.must_pass(n, [g.exit], is_append)
                ctx.check(bad is None, key(fi, f"{base}.write_text"), f"{base} is written but a path reaches the end of {name} without `{want}`: " + (g.path_str(bad) if bad else ""), fi.loc(c),
                          okmsg=f"{name}: {base} written => reported")
        for c in walk_no_nested(fi.node):
            if isinstance(c, ast.Call) and norm(c.func) == "self._generated_files.append":
                a = allargs(c)[0] if allargs(c) else None
                ok = isinstance(a, ast.Attribute) and a.attr == "name" and any(norm(w.func.value) == norm(a.value) for w in calls_named(fi.node, "write_text"))
                ctx.check(ok, key(fi, f"report {norm(a) if a is not None else None}"), "a file name is reported that this method does not write", fi.loc(c), okmsg=f"{name}: reported name belongs to a written file")
    gen = repo.func(PG + ".generate")
    rets = [n for n in gen.node.body if isinstance(n, ast.Return)]
    ctx.check(len(rets) == 1 and norm(rets[0].value) == "sorted(self._generated_files)", key(gen, "return"), "generate() does not return the sorted list of written files", gen.loc(), okmsg="generate returns sorted(self._generated_files)")
    if writes < 11:
        ctx.error(f"only {writes} write sites found")


@rule("C04.R3", "file-name collisions are detected over everything that is written, before anything is written", min_instances=4, also=["C18", "C17"])
def c04_r3(ctx):
    repo = ctx.repo
    pg = repo.cls(PG)
    val = repo.func(PG + "._validate_unique_file_names")
    listed: Set[str] = set()
    src = norm(val.node)
    # names written: the expression joined to self.package_path at each write site
    written: Dict[str, Tuple[FuncInfo, ast.AST]] = {}
    for name, fi in sorted(pg.methods.items()):
        env = {}
        for st in ast.walk(fi.node):
            if isinstance(st, ast.Assign) and len(st.targets) == 1 and isinstance(st.targets[0], ast.Name):
                env[st.targets[0].id] = st.value
        for c in calls_named(fi.node, "write_text"):
            b = c.func.value
            b = env.get(b.id, b) if isinstance(b, ast.Name) else b
            if isinstance(b, ast.BinOp) and isinstance(b.op, ast.Div) and norm(b.left) == "self.package_path":
                written[norm(b.right)] = (fi, c)
    if len(written) < 10:
        raise AnalysisError(f"only {len(written)} written file-name expressions found")
    # the checked list, member by member (whatever way it is assembled)
    from ..util import seq_terms
    cond = lambda e: True if (norm(e).startswith("len(") and "!=" in norm(e)) else None
    vo = [x for x in Interp(val, cond).run()]
    fn_expr = None
    for x in vo:
        for nm in ("file_names",) + tuple(x.env):
            v = x.env.get(nm)
            if str(nm).startswith("<") or not isinstance(v, ast.AST):
                continue
            if isinstance(strip_pre(v), (ast.BinOp, ast.List, ast.Call)) and "client_file_name" in norm(v):
                fn_expr = v
                break
        if fn_expr is not None:
            break
    if fn_expr is None:
        raise AnalysisError("the list of checked file names was not found in _validate_unique_file_names")
    from ..absint import subst as _subst
    members = set(seq_terms(_subst(fn_expr, vo[0].env if vo else {}, deep=True)))
    covered_by = {
        "f'{self.client_file_name}.py'": "f'{self.client_file_name}.py'",
        "f'{self.enums_module_name}.py'": "f'{self.enums_module_name}.py'",
        "f'{self.input_types_module_name}.py'": "f'{self.input_types_module_name}.py'",
        "f'{self.fragments_module_name}.py'": "f'{self.fragments_module_name}.py'",
        "file_name": "each self._result_types_files",
        "source_path.name": "each $0.name for self.files_to_include",
    }
    tabled = {"'__init__.py'": "snake-casing an operation name never yields a dunder module name; the other names are validated identifiers"}
    for expr, (fi, c) in sorted(written.items()):
        if expr in covered_by and any(covered_by[expr] == m for m in members):
            ctx.ok(f"{fi.qualname}: {expr} is part of the uniqueness check", fi.loc(c))
        elif expr in tabled:
            ctx.ok(f"{fi.qualname}: {expr} (tabled: {tabled[expr][:60]})", fi.loc(c))
        else:
            ctx.fail(key(fi, f"writes {expr}"), f"{expr} is written into the package but is not part of _validate_unique_file_names (checked: {sorted(members)}): an operation or included file of that name is silently overwritten", fi.loc(c))
    # copied files: base client and base model are in the list too
    for need in ("self.base_client_file_path.name", "self.base_model_file_path.name"):
        ctx.check(any(need == m for m in members), key(val, need), f"{need} is copied into the package but not checked for collisions", val.loc(), okmsg=f"{need} is part of the uniqueness check")
    # the check raises on duplicates
    o = Interp(val, lambda e: True if "len(file_names) != len(set(file_names))" == norm(strip_pre(e)) or norm(e).startswith("len(") and "!=" in norm(e) else None).run()
    ctx.check(bool(o) and all(x.kind == "raise" and x.exc == "ParsingError" for x in o), key(val, "raises"), f"duplicates do not raise ParsingError: {[x.text() for x in o]}", val.loc(), okmsg="duplicate names raise ParsingError")
    # order in generate(): includes < validate < mkdir/writes
    gen = repo.func(PG + ".generate")
    g = cfg_of(gen)
    def node_calling(nm):
        r = [n for n in g.stmts() if n.ast is not None and n.kind in ("stmt", "test") and calls_named(n.ast, nm)]
        return r
    v = node_calling("self._validate_unique_file_names")
    inc = node_calling("self._include_exceptions")
    mk = node_calling("mkdir")
    writers = [n for n in g.stmts() if n.kind == "stmt" and n.ast is not None and any(dotted(c.func).startswith("self._generate_") or dotted(c.func) == "self._copy_files" for c in ast.walk(n.ast) if isinstance(c, ast.Call))]
    probs = []
    if len(v) != 1 or len(inc) != 1:
        probs.append("validate / include_exceptions call not found exactly once")
    else:
        if not g.dominates(inc[0], v[0]):
            probs.append("exceptions file is added after the uniqueness check")
        for w in mk + writers:
            if not g.dominates(v[0], w):
                probs.append(f"L{w.lineno} can write before the uniqueness check")
    ctx.check(not probs and len(writers) >= 8, key(gen, "order"), "; ".join(probs) or f"{len(writers)} writer calls", gen.loc(), okmsg=f"uniqueness check dominates mkdir and {len(writers)} writer calls")
    # silent overwrite in the result-types table
    ao = repo.func(PG + ".add_operation")
    stores = [st for st in walk_no_nested(ao.node) if isinstance(st, ast.Assign) and norm(st.targets[0]).startswith("self._result_types_files[")]
    guarded = any(isinstance(n, ast.Compare) and any(isinstance(op, (ast.In, ast.NotIn)) for op in n.ops) and "self._result_types_files" in norm(n) for n in walk_no_nested(ao.node))
    ctx.check(len(stores) == 1 and guarded, key(ao, "self._result_types_files[file_name] ="),
              "two operations whose names snake-case to the same module name overwrite each other's result module silently (dict store without a membership test), so the uniqueness check cannot see the collision",
              ao.loc(stores[0]) if stores else ao.loc(), okmsg="result module table guarded against duplicate module names")


@rule("C04.R5", "__all__ lists exactly the re-exported names", min_instances=2)
def c04_r5(ctx):
    fi = ctx.repo.func("client_generators.init_file:InitFileGenerator.generate")
    o = [x for x in Interp(fi, lambda e: (True if norm(e) == "self.imports" else False if norm(e) == "self.plugin_manager" else None)).run() if not any("loop skipped" in t for t in x.trace)]
    probs = []
    if len(o) != 1:
        probs.append(f"{len(o)} paths")
    else:
        from ..util import comp_struct
        x = o[0]
        # the list that feeds `ast.List(elts=[ast.Constant(value=n) for n in <names>])`, whatever its local name
        app = [c for c in walk_no_nested(fi.node) if isinstance(c, ast.Call) and norm(c.func) == "module.body.append"]
        good = len(app) == 1 and isinstance(allargs(app[0])[0], ast.Call) and norm(allargs(app[0])[0].func) == "ast.Assign"
        names_expr = None
        if good:
            a = allargs(app[0])[0]
            tv = kw(a, "targets")
            vv = kw(a, "value")
            good = tv is not None and "'__all__'" in norm(tv) and isinstance(vv, ast.Call) and norm(vv.func) == "ast.List"
            el = kw(vv, "elts") if good else None
            cs = comp_struct(el) if el is not None else None
            good = good and cs is not None and cs[0] in ("ast.Constant(value=$0)", "ast.Constant($0)", "generate_constant(value=$0)") and len(cs[1]) == 1 and not cs[1][0][1]
            if good:
                names_expr = el.generators[0].iter
        if not good:
            probs.append("__all__ is not assigned the list of collected names")
        else:
            nm = names_expr.id if isinstance(names_expr, ast.Name) else None
            val = strip_pre(x.deref(names_expr)) if nm is not None else strip_pre(names_expr)
            cn = [norm(m) for m in x.muts(nm)] if nm is not None else []
            is_sorted = False
            if isinstance(val, ast.Call) and isinstance(val.func, ast.Name) and val.func.id == "sorted" and len(val.args) == 1 and not any(k.arg == "reverse" for k in val.keywords):
                is_sorted = not val.keywords
                val = strip_pre(val.args[0])
            if any(m == f"{nm}.sort()" for m in cn):
                is_sorted = True
            built = comp_struct(val)
            # every name of every import: a flattening comprehension (the loader writes the extend-loop this way)
            want_a = ("$1", [("self.imports", []), ("[n.name for n in $0.names]", [])])
            want_b = ("$1.name", [("self.imports", []), ("$0.names", [])])
            if built not in (want_a, want_b):
                probs.append(f"names are collected as {built}, expected every name of every import")
            if not is_sorted:
                probs.append("__all__ is not sorted")
        mod = x.env.get("module")
        if mod is None or norm(mod) != "ast.Module(body=self.imports, type_ignores=[])":
            probs.append("module body is not the list of imports")
    ctx.check(not probs, key(fi, "__all__"), "; ".join(probs), fi.loc(), okmsg="__all__ = sorted names of all imports; body = imports + __all__")
    ai = ctx.repo.func("client_generators.init_file:InitFileGenerator.add_import")
    o = Interp(ai, lambda e: (True if norm(e) == "names" else False if norm(e) == "self.plugin_manager" else None), is_effect=lambda c: norm(c.func) == "self.imports.append").run()
    good = len(o) == 1 and [norm(strip_pre(e)) for e in o[0].effects] == ["self.imports.append(generate_import_from(names=names, from_=from_, level=level))"]
    ctx.check(good, key(ai, "add"), f"add_import does not record the import as given: {[x.text() for x in o]}", ai.loc(), okmsg="add_import records names/from/level unchanged")


@rule("C04.R6", "classes with forward references are rebuilt after all classes are defined", min_instances=6, also=["C06", "C09", "C01"])
def c04_r6(ctx):
    repo = ctx.repo
    def add_parts(e):
        e = strip_pre(e)
        if isinstance(e, ast.Call) and dotted(e.func) == "cast" and len(e.args) == 2:
            return add_parts(e.args[1])
        if isinstance(e, ast.BinOp) and isinstance(e.op, ast.Add):
            return add_parts(e.left) + add_parts(e.right)
        return [e]

    def written_module(fi, o):
        """the generate_module(...) body expression behind the returned module (through the plugin hook), locals spelled out"""
        v = o.value
        for _ in range(6):
            v = strip_pre(subst(v, o.env, deep=True)) if v is not None else None
            if isinstance(v, ast.Call) and isinstance(v.func, ast.Attribute) and "plugin_manager" in norm(v.func.value) and allargs(v):
                v = allargs(v)[0]
            else:
                break
        if isinstance(v, ast.Call) and dotted(v.func) == "generate_module" and allargs(v):
            return strip_pre(allargs(v)[0])
        return None

    for fk in ("client_generators.result_types:ResultTypesGenerator.generate", "client_generators.input_types:InputTypesGenerator.generate"):
        fi = repo.func(fk)
        outs = [o for o in Interp(fi, lambda e: None).run() if o.kind == "return"]
        good = bool(outs)
        for o in outs:
            body = written_module(fi, o)
            parts = add_parts(body) if body is not None else []
            comps = []
            for i, part in enumerate(parts):
                c = part
                if isinstance(c, ast.Call) and isinstance(c.func, ast.Attribute) and isinstance(c.func.value, ast.Name) and c.func.value.id == "self" and not c.args and not c.keywords and c.func.attr in fi.cls.methods:
                    # the comprehension may live in a helper of its own
                    rets = [r.value for r in ast.walk(fi.cls.methods[c.func.attr].node) if isinstance(r, ast.Return) and r.value is not None]
                    c = strip_pre(rets[0]) if len(rets) == 1 else c
                cs = comp_struct(c) if isinstance(c, (ast.ListComp, ast.GeneratorExp)) else None
                if cs is not None and "generate_method_call(" in str(cs[0]):
                    comps.append((i, cs))
            texts = [str(norm(p_)) for p_ in parts]
            ok = len(comps) == 1
            if ok:
                i, cs = comps[0]
                try:
                    el = ast.parse(str(cs[0]).replace("$", "_V"), mode="eval").body
                except SyntaxError:
                    el = None
                inner = strip_pre(allargs(el)[0]) if isinstance(el, ast.Call) and dotted(el.func) == "generate_expr" and len(allargs(el)) == 1 else None
                ok = isinstance(inner, ast.Call) and dotted(inner.func) == "generate_method_call" and len(allargs(inner)) == 2 and norm(allargs(inner)[0]) == "_V0.name" \
                    and norm(allargs(inner)[1]) in ("'model_rebuild'", "MODEL_REBUILD_METHOD") \
                    and len(cs[1]) == 1 and [str(x) for x in cs[1][0][1]] in (["model_has_forward_refs($0)"], ["model_has_forward_refs(class_def=$0)"])
                cls_list = str(cs[1][0][0])
                ok = ok and cls_list in texts and texts.index(cls_list) < i and any("_imports" in t for t in texts[:texts.index(cls_list)]) and i == len(parts) - 1
            good = good and ok
        ctx.check(bool(good), key(fi, "model_rebuild"), "model_rebuild() is not emitted for every class with forward references after the class definitions", fi.loc(), okmsg=f"{fi.qualname}: imports < classes < model_rebuild calls")
    fr = repo.func("client_generators.fragments:FragmentsGenerator.generate")
    outs = [o for o in Interp(fr, lambda e: None).run() if o.kind == "return"]
    good = bool(outs)
    for o in outs:
        body = written_module(fr, o)
        texts = [str(norm(p_)) for p_ in (add_parts(body) if body is not None else [])]
        idx = lambda w: next((i for i, t in enumerate(texts) if w in t), -1)
        good = good and len(texts) == 3 and texts[0] in ("imports", "[]") and texts[1].startswith("self._get_sorted_class_defs(") and texts[2].startswith("self._get_model_rebuild_calls(") and f"class_defs={texts[1]}" in texts[2]
    ctx.check(good, key(fr, "model_rebuild"), "fragments module body is not imports < classes < model_rebuild calls", fr.loc(), okmsg="fragments: imports < classes < model_rebuild calls")
    apps = [c for c in walk_no_nested(fr.node) if isinstance(c, ast.Call) and norm(c.func) == "top_level_class_names.append"]
    good = len(apps) == 1
    if good:
        env_ = {st.targets[0].id: st.value for st in ast.walk(fr.node) if isinstance(st, ast.Assign) and len(st.targets) == 1 and isinstance(st.targets[0], ast.Name)}
        a0 = allargs(apps[0])[0]
        base = a0.value.value if isinstance(a0, ast.Attribute) and a0.attr == "name" and isinstance(a0.value, ast.Subscript) else None
        base = env_.get(base.id, base) if isinstance(base, ast.Name) else base
        good = base is not None and norm(base) == "generator.get_classes()"
        # ... and it is the FIRST class of the fragment (the fragment's own class; nested classes follow it)
        idx = a0.value.slice if isinstance(a0, ast.Attribute) and isinstance(a0.value, ast.Subscript) else None
        good = good and is_const(idx, 0)
        par = None
        for n in walk_no_nested(fr.node):
            if isinstance(n, ast.If) and any(apps[0] is x for s_ in n.body for x in ast.walk(s_)):
                par = n
        tst = par.test if par is not None else None
        tst = env_.get(tst.id, tst) if isinstance(tst, ast.Name) else tst
        good = good and tst is not None and norm(tst) == "generator.get_classes()"
    ctx.check(good, key(fr, "top-level class names"), "the names handed to _get_model_rebuild_calls are not the names of the classes actually generated for each fragment (an unpacked fragment has no class: ValueError in class_names.index)", fr.loc(),
              okmsg="model_rebuild names = first class of each fragment that produced classes")
    mh = repo.cls("codegen:ClassDefNamesVisitor")
    vn = mh.methods.get("visit_Name")
    good = vn is not None and any(isinstance(n, ast.Compare) and norm(n) == "'\"' in node.id" for n in ast.walk(vn.node))
    ctx.check(good, "codegen::ClassDefNamesVisitor.visit_Name::quote test", "forward references are no longer detected by the quoted-name convention", mh.loc(), okmsg="forward refs detected by quoted names")
    # the finder reports what it finds: visit_Name raises the flag for a quoted name (and only then), and keeps descending;
    # model_has_forward_refs visits the class with a fresh finder and returns its flag
    if vn is not None:
        for quoted in (True, False):
            outs_ = Interp(vn, lambda e, q=quoted: (q if norm(strip_pre(e)) == "'\"' in node.id" else (not q) if norm(strip_pre(e)) == "'\"' not in node.id" else None),
                           is_effect=lambda c: (isinstance(c.func, ast.Name) and c.func.id == "<setattr>") or norm(c.func) in ("self.generic_visit",)).run()
            sets = [[norm(strip_pre(e)) for e in o.effects] for o in outs_]
            want_flag = "<setattr>(self, 'found_name_with_quote', True)"
            good_ = bool(sets) and all((want_flag in s_) == quoted and not any("found_name_with_quote', False" in x for x in s_) for s_ in sets)
            ctx.check(good_, f"codegen::ClassDefNamesVisitor.visit_Name::quoted={quoted}", f"visit_Name on a {'quoted' if quoted else 'plain'} name does {sets}; the flag must be raised exactly for quoted names "
                      "(never lowered: one plain name after a forward reference would hide it)", mh.loc(), okmsg=f"visit_Name: {'quoted name -> flag raised' if quoted else 'plain name -> flag untouched'}")
    init_v = mh.methods.get("__init__")
    st_ = {}
    for x in (ast.walk(init_v.node) if init_v is not None else []):
        if isinstance(x, ast.Assign):
            st_[norm(x.targets[0])] = norm(x.value)
        elif isinstance(x, ast.AnnAssign) and x.value is not None:
            st_[norm(x.target)] = norm(x.value)
    ctx.check(st_.get("self.found_name_with_quote") == "False", "codegen::ClassDefNamesVisitor.__init__::flag", f"a fresh finder must start with the flag lowered: {st_}", mh.loc(), okmsg="finder starts with the flag lowered")
    mf = repo.func("codegen:model_has_forward_refs")
    outs_ = Interp(mf, lambda e: None, is_effect=lambda c: isinstance(c.func, ast.Attribute) and c.func.attr == "visit").run()
    pm = mf.node.args.args[0].arg
    good_ = bool(outs_)
    for o in outs_:
        effs_ = [norm(strip_pre(e)) for e in o.effects]
        rv_ = norm(strip_pre(o.value)) if o.value is not None else None
        good_ = good_ and o.kind == "return" and len(effs_) == 1 and effs_[0].endswith(f".visit({pm})") and "ClassDefNamesVisitor()" in (effs_[0] + " " + " ".join(norm(v) for v in o.env.values() if isinstance(v, ast.AST))) \
            and rv_ is not None and rv_.endswith(".found_name_with_quote")
    ctx.check(good_, "codegen::model_has_forward_refs::visit", f"model_has_forward_refs must visit the class with a fresh ClassDefNamesVisitor and return its flag: {[o.text()[:100] for o in outs_]}", mf.loc(),
              okmsg="model_has_forward_refs: fresh finder, visits the class, returns the flag")
    vs = mh.methods.get("visit_Subscript")
    if vs is None:
        ctx.ok("ClassDefNamesVisitor has no visit_Subscript: every subscript is searched (NodeVisitor default)", mh.loc())
    else:
        def mk(is_name, is_literal):
            def atom(e):
                t = norm(strip_pre(e))
                if t == "isinstance(node.value, ast.Name)":
                    return is_name
                if t in ("node.value.id == 'Literal'", "node.value.id == LITERAL"):
                    return is_literal
                if t in ("node.value.id != 'Literal'", "node.value.id != LITERAL"):
                    return not is_literal
                return None
            return atom
        for is_name, is_literal, descend in ((True, False, True), (False, False, True), (True, True, None)):
            outs = Interp(vs, mk(is_name, is_literal), is_effect=lambda c: norm(c.func) in ("self.generic_visit", "self.visit", "super().generic_visit")).run()
            desc = [bool(o.effects) for o in outs]
            if descend is None:
                ctx.ok(f"visit_Subscript: Literal[...] {'searched' if all(desc) else 'skipped'} (either is sound: its strings are values, not references)", vs.loc())
            else:
                ctx.check(bool(desc) and all(desc), "codegen::ClassDefNamesVisitor.visit_Subscript::descends " + ("Name[...]" if is_name else "other[...]"),
                          "annotations such as Optional[\"Other\"] / List[\"Other\"] are no longer searched for forward references: the class is not rebuilt and the model is unusable "
                          "(`class not fully defined`)", vs.loc(), okmsg=f"visit_Subscript descends into {'Name[...]' if is_name else 'other[...]'} (non-Literal)")
    mrm = repo.resolve(repo.mod("client_generators.constants"), "MODEL_REBUILD_METHOD")
    ctx.check(mrm == ("const", "model_rebuild"), "client_generators.constants::MODEL_REBUILD_METHOD", f"MODEL_REBUILD_METHOD is {mrm}", "", okmsg="MODEL_REBUILD_METHOD == 'model_rebuild'")


RAISE_TABLE = {
    ("settings", "ClientSettings.__post_init__", "TypeError"): "converted to MissingConfiguration by config.get_client_settings (checked)",
    ("client_generators.custom_fields", "CustomFieldsGenerator._get_suffix", "ValueError"): "unreachable: the only caller passes Object/Interface types",
}


@rule("C04.R7", "generation only raises ariadne-codegen's own exception types", min_instances=40, also=["C17"])
def c04_r7(ctx):
    repo = ctx.repo
    exm = repo.mod("exceptions")
    own = set()
    for q, ci in exm.classes.items():
        if any(c.qualname == "CodeGenException" for c in repo.mro(ci)):
            own.add(q)
    if "CodeGenException" not in own or len(own) < 8:
        raise AnalysisError("exception hierarchy not found")
    n = 0
    for fi in repo.all_functions():
        ms = fi.module.short
        if ms.startswith("client_generators.dependencies"):
            continue
        for r in walk_no_nested(fi.node):
            if not isinstance(r, ast.Raise):
                continue
            n += 1
            if r.exc is None:
                ctx.ok(f"{fi.key}: bare re-raise", fi.loc(r))
                continue
            e = r.exc.func if isinstance(r.exc, ast.Call) else r.exc
            nm = e.id if isinstance(e, ast.Name) else norm(e)
            k, v = repo.resolve(fi.module, nm) if isinstance(e, ast.Name) else ("unknown", nm)
            if k == "class" and v.module is exm and v.qualname in own:
                ctx.ok(f"{fi.key}: raises {nm}", fi.loc(r))
            elif (ms, fi.qualname, nm) in RAISE_TABLE:
                ctx.ok(f"{fi.key}: raises {nm} (tabled: {RAISE_TABLE[(ms, fi.qualname, nm)][:50]})", fi.loc(r))
            else:
                ctx.fail(key(fi, f"raise {nm}"), f"{nm} is raised on a generation path: it is not a CodeGenException, so the command dies with an internal error instead of a typed one", fi.loc(r))
    # the tabled TypeError is converted
    gcs = repo.func("config:get_client_settings")
    conv = False
    for t in ast.walk(gcs.node):
        if isinstance(t, ast.Try) and any("ClientSettings(" in norm(s) for s in t.body):
            for h in t.handlers:
                if h.type is not None and "TypeError" in norm(h.type) and any(isinstance(x, ast.Raise) and "MissingConfiguration" in norm(x) for x in ast.walk(h)):
                    conv = True
    ctx.check(conv, key(gcs, "TypeError conversion"), "TypeError from ClientSettings is not converted to MissingConfiguration", gcs.loc(), okmsg="TypeError from settings -> MissingConfiguration")


def _enum_reserved_names() -> Tuple[Set[str], str]:
    """names the installed enum module refuses / that clash with Enum machinery"""
    path, src = stdlib_source("enum")
    names = set()
    tree = ast.parse(src)
    found = False
    for n in ast.walk(tree):
        # invalid_names = set(member_names) & {'mro', ''}
        if isinstance(n, (ast.Set, ast.Tuple, ast.List)):
            vals = [c.value for c in n.elts if isinstance(c, ast.Constant) and isinstance(c.value, str)]
            if "mro" in vals and len(vals) == len(n.elts):
                found = True
                names |= set(vals)
    if not found:
        raise AnalysisError(f"oracle: reserved member names not found in {path}")
    # sunder / dunder names are handled specially by the Enum namespace dict
    if not any(isinstance(n, ast.FunctionDef) and n.name == "_is_sunder" for n in tree.body):
        raise AnalysisError(f"oracle: _is_sunder not found in {path}")
    names |= {"_sunder_", "__dunder__"}
    return names, path


@rule("C04.R8", "enum member names are escaped for everything Python/Enum reserves, and referenced by the same mapping", min_instances=2, also=["C18", "C06"])
def c04_r8(ctx):
    repo = ctx.repo
    fi = repo.func("client_generators.enums:EnumsGenerator._parse_enum_definition")
    reserved, path = _enum_reserved_names()
    # abstract evaluation of the member-name mapping on the three classes of names
    loops = [lp for lp in ast.walk(fi.node) if isinstance(lp, (ast.For, ast.ListComp)) and "values.items()" in norm(lp.iter if isinstance(lp, ast.For) else lp.generators[0].iter)]
    if len(loops) != 1:
        raise AnalysisError("_parse_enum_definition: loop over the enum values not found")
    asg = [loops[0]]
    # everything that computes the member name inside the loop (conditional expression, if statement or helper alike)
    txt = norm(loops[0])
    handles_kw = "iskeyword(" in txt
    handles_enum = any(tok in txt for tok in ("mro", "_is_dunder", "_is_sunder", "RESERVED", "reserved"))
    ctx.check(handles_kw, key(fi, "keyword escape"), "Python keywords are not escaped in enum member names", fi.loc(asg[0]), okmsg="enum members: Python keywords escaped")
    ctx.check(handles_enum, key(fi, "enum-reserved escape"),
              f"member names reserved by enum.Enum ({sorted(reserved)[:4]}...; e.g. a GraphQL enum value `mro`) are not escaped: `{txt}`", fi.loc(asg[0]),
              okmsg="enum members: Enum-reserved names escaped")
    # references to members (input defaults) must use the same mapping
    cv = repo.func("client_generators.input_fields:parse_input_const_value_node")
    refs = []
    for st in ast.walk(cv.node):
        if isinstance(st, ast.If) and "EnumValueNode" in norm(st.test):
            for r in st.body:
                if isinstance(r, ast.Return):
                    refs.append(r)
    if len(refs) != 1:
        raise AnalysisError("parse_input_const_value_node: EnumValueNode branch not found")
    rtxt = norm(refs[0].value)
    ctx.check("iskeyword" in rtxt or "process_enum" in rtxt or "enum_member_name" in rtxt, key(cv, "enum member reference"),
              f"an enum default is emitted as `{rtxt}`: the member name is not mapped like its definition (value `from` is defined as `from_` but referenced as `.from`)", cv.loc(refs[0]),
              okmsg="enum default references use the member-name mapping")


# ---------------------------------------------------------------------- C04.R4 use => import
@rule("C04.R4", "every schema-derived name used in an emitted annotation is imported by the module that uses it", min_instances=9, also=["C07", "C09"])
def c04_r4(ctx):
    repo = ctx.repo
    RF = "client_generators.result_fields:"
    # result side: enums
    fi = repo.func(RF + "parse_enum_type")
    app = [c for c in walk_no_nested(fi.node) if isinstance(c, ast.Call) and norm(c.func) == "context.enums.append"]
    ann = calls_named(fi.node, "generate_annotation_name")
    good = len(app) == 1 and len(ann) == 1 and norm(allargs(app[0])[0]) == norm(allargs(ann[0])[0]) == "type_.name"
    ctx.check(good, key(fi, "enum recorded"), "an enum used in a result annotation is not recorded for import under the same name", fi.loc(), okmsg="result enum annotation => recorded in context.enums")
    fi = repo.func(RF + "parse_scalar_type")
    def atom(simple, custom):
        def a(e):
            t = norm(e)
            if t == "type_.name in SIMPLE_TYPE_MAP":
                return simple
            if t == "type_.name in context.definitions.custom_scalars":
                return custom
            if t == "nullable":
                return False
            return None
        return a
    o = Interp(fi, atom(False, True), is_effect=lambda c: norm(c.func) == "context.custom_scalars.append").run()
    good = len(o) == 1 and [norm(e) for e in o[0].effects] == ["context.custom_scalars.append(type_.name)"] and "generate_result_scalar_annotation(context.definitions.custom_scalars[type_.name])" in norm(strip_pre(o[0].value))
    ctx.check(good, key(fi, "scalar recorded"), "a custom scalar used in a result annotation is not recorded for import", fi.loc(), okmsg="result custom scalar => recorded in context.custom_scalars")
    td = repo.func("client_generators.result_types:ResultTypesGenerator._parse_type_definition")
    ex = [norm(c) for c in walk_no_nested(td.node) if isinstance(c, ast.Call) and isinstance(c.func, ast.Attribute) and c.func.attr == "extend" and norm(c.func.value).startswith("self._used_")]
    good = "self._used_enums.extend(field_context.enums)" in ex and "self._used_scalars.extend(field_context.custom_scalars)" in ex
    ctx.check(good, key(td, "collect"), f"field context enums/scalars are not collected into the generator ({ex})", td.loc(), okmsg="result generator collects enums and scalars of every field")
    ai = repo.func("client_generators.result_types:ResultTypesGenerator._add_enums_scalars_fragments_imports")
    eff = lambda c: norm(c.func) in ("self._imports.append", "self._imports.extend")
    def at(e):
        t = norm(strip_pre(e))
        if t in ("self._used_enums", "self._fragments_used_as_mixins", "self.fragments_module_name"):
            return True
        if t.startswith("isinstance(self.operation_definition, OperationDefinitionNode)"):
            return True
        return None
    o = [x for x in Interp(ai, at, is_effect=eff).run() if any("loop body once" in t for t in x.trace)]
    effs = [norm(strip_pre(e)) for e in o[0].effects] if len(o) == 1 else []
    want = ["self._imports.append(generate_import_from(self._used_enums, self.enums_module_name, 1))",
            "self._imports.extend(generate_scalar_imports(self.custom_scalars[<elem>(self._used_scalars)]))",
            "self._imports.append(generate_import_from([str_to_pascal_case(f) for f in self._fragments_used_as_mixins], self.fragments_module_name, 1))"]
    ctx.check(effs == want, key(ai, "imports"), f"result module imports are {effs}", ai.loc(), okmsg="result module imports enums, scalar helpers and mixin fragment classes")
    # the same generator emits fragments.py (operation_definition is then a FragmentDefinitionNode): enums and scalar helpers are needed there as well
    def at_frag(e):
        t = norm(strip_pre(e))
        if "isinstance(self.operation_definition, OperationDefinitionNode)" in t:
            return (False if not t.startswith("not ") else True) if t in ("isinstance(self.operation_definition, OperationDefinitionNode)", "not isinstance(self.operation_definition, OperationDefinitionNode)") else None
        if t in ("self._used_enums", "self._fragments_used_as_mixins", "self.fragments_module_name"):
            return True
        return None
    o = [x for x in Interp(ai, at_frag, is_effect=eff).run() if any("loop body once" in t for t in x.trace) or not any("loop" in t for t in x.trace)]
    effs_f = sorted({tuple(norm(strip_pre(e)) for e in x.effects) for x in o})
    ctx.check(len(effs_f) == 1 and list(effs_f[0])[:2] == want[:2], key(ai, "imports for a fragment definition"),
              f"for a fragment definition the imports added are {[list(e) for e in effs_f]}: fragments.py uses the enum / custom-scalar names (type, parse function) of its fields, "
              "without the imports the generated package raises NameError when imported", ai.loc(), okmsg="fragment classes get the enum and scalar-helper imports too")
    init = repo.func("client_generators.result_types:ResultTypesGenerator.__init__")
    g = cfg_of(init)
    a = [n for n in g.stmts() if n.kind == "stmt" and calls_named(n.ast, "self._add_enums_scalars_fragments_imports")]
    b = [n for n in g.stmts() if n.kind == "stmt" and calls_named(n.ast, "self._parse_type_definition")]
    good = len(a) == 1 and len(b) == 1 and b[0].id not in g.reach_after(a[0]) and g.exit.id in g.reach_after(a[0])
    rets = [n for n in g.nodes if n.kind == "return"]
    good = good and all(g.dominates(a[0], g.exit) for _ in [0])
    ctx.check(good, key(init, "imports after classes"), "imports are not added after the classes were parsed on every path", init.loc(), okmsg="imports computed after class parsing, on every path")
    # input side
    it = repo.func("client_generators.input_types:InputTypesGenerator.generate")
    eff = lambda c: norm(c.func) in ("self._imports.append", "self._imports.extend")
    o = [x for x in Interp(it, lambda e: (True if norm(e) == "self._used_enums" else False if norm(e) == "self.plugin_manager" else None), is_effect=eff).run() if any("loop body once" in t for t in x.trace)]
    effs = [norm(strip_pre(e)) for e in o[0].effects] if len(o) == 1 else []
    want = ["self._imports.append(generate_import_from(self.get_used_enums(), self.enums_module, 1))",
            "self._imports.extend(generate_scalar_imports(self.custom_scalars[<elem>(self._used_scalars)]))"]
    ctx.check(effs == want, key(it, "imports"), f"input module imports are {effs}", it.loc(), okmsg="input module imports enums and scalar helpers")
    # client module
    cg = repo.func(CGEN + "generate")
    calls = [norm(c) for c in walk_no_nested(cg.node) if isinstance(c, ast.Call) and is_name(c.func, "generate_import_from")]
    good = "generate_import_from(names=self.arguments_generator.get_used_inputs(), from_=self.input_types_module_name, level=1)" in calls \
        and "generate_import_from(names=self.arguments_generator.get_used_enums(), from_=self.enums_module_name, level=1)" in calls
    sc = [n for n in walk_no_nested(cg.node) if isinstance(n, ast.For) and norm(n.iter) == "self.arguments_generator.get_used_custom_scalars()"]
    good = good and len(sc) == 1 and "generate_scalar_imports(" in norm(sc[0]) and "self._add_import(" in norm(sc[0])
    ctx.check(good, key(cg, "imports"), "client module does not import the inputs, enums and scalar helpers its signatures use", cg.loc(), okmsg="client imports used inputs, enums, scalar helpers")
    am = repo.func(CGEN + "add_method")
    good = "self._add_import(generate_import_from(names=[return_type], from_=return_type_module, level=1))" in [norm(c) for c in walk_no_nested(am.node) if isinstance(c, ast.Call)]
    ctx.check(good, key(am, "return type import"), "the result class of a method is not imported into the client", am.loc(), okmsg="client imports each method's result class")
    ag = repo.func("client_generators.arguments:ArgumentsGenerator._parse_named_type_node")
    def ak(kind):
        def a(e):
            t = norm(strip_pre(e))
            if t == "self.schema.type_map.get(node.name.value)":
                return True
            for kname in ("GraphQLInputObjectType", "GraphQLEnumType", "GraphQLScalarType"):
                if t == f"isinstance(self.schema.type_map.get(node.name.value), {kname})":
                    return kind == kname
            if t == "node.name.value not in self.custom_scalars":
                return True
            return None
        return a
    eff = lambda c: isinstance(c.func, ast.Attribute) and c.func.attr == "append"
    o = Interp(ag, ak("GraphQLInputObjectType"), is_effect=eff).run()
    ctx.check(len(o) == 1 and [norm(e) for e in o[0].effects] == ["self._used_inputs.append(node.name.value)"], key(ag, "input recorded"), "an input type used as variable type is not recorded", ag.loc(), okmsg="variable of input type => recorded in used inputs")
    o = Interp(ag, ak("GraphQLEnumType"), is_effect=eff).run()
    ctx.check(len(o) == 1 and [norm(e) for e in o[0].effects] == ["self._used_enums.append(node.name.value)"], key(ag, "enum recorded"), "an enum used as variable type is not recorded", ag.loc(), okmsg="variable of enum type => recorded in used enums")
    # scalar imports: every configured dotted name imported
    gs = repo.func("client_generators.scalars:generate_scalar_imports")
    loops = [n for n in gs.node.body if isinstance(n, ast.For)]
    good = len(loops) == 1 and norm(loops[0].iter) == "data.names_to_import" and "rsplit('.', maxsplit=1)" in norm(loops[0]) and "imports.append(generate_import_from(names=[object_name], from_=module_name))" in norm(loops[0])
    pi = repo.func("client_generators.scalars:ScalarData.__post_init__")
    from .tables import scalar_names_to_import
    good = good and scalar_names_to_import(pi) == ["self.parse", "self.serialize", "self.type_"]
    ctx.check(good, key(gs, "dotted names"), "type / serialize / parse given with a module path are not all imported", gs.loc(), okmsg="scalar type, serialize and parse are imported from their modules")


# ====================================================================== C09
@rule("C09.R1", "every producer of used enums runs before enums are pruned", min_instances=4, also=["C03", "C04", "C06"])
def c09_r1(ctx):
    repo = ctx.repo
    pg = repo.cls(PG)
    writers = {}
    readers = {}
    for name, fi in pg.methods.items():
        for c in walk_no_nested(fi.node):
            if isinstance(c, ast.Call) and norm(c.func) in ("self._used_enums.extend", "self._used_enums.append"):
                writers[name] = fi
        for n in walk_no_nested(fi.node):
            if isinstance(n, ast.Attribute) and norm(n) == "self._used_enums" and isinstance(n.ctx, ast.Load):
                par_is_call = False
                readers.setdefault(name, fi)
    def _pure_reader(f):
        recv = {id(c.func.value) for c in walk_no_nested(f.node) if isinstance(c, ast.Call) and isinstance(c.func, ast.Attribute) and c.func.attr in ("extend", "append")}
        return any(isinstance(n, ast.Attribute) and norm(n) == "self._used_enums" and isinstance(n.ctx, ast.Load) and id(n) not in recv for n in walk_no_nested(f.node))
    readers = {n: f for n, f in readers.items() if _pure_reader(f)}
    if "_generate_enums" not in readers or len(writers) < 3:
        raise AnalysisError(f"used-enums writers {sorted(writers)} / readers {sorted(readers)} not as expected")
    gen = repo.func(PG + ".generate")
    g = cfg_of(gen)
    def node_calling(nm):
        return [n for n in g.stmts() if n.ast is not None and n.kind == "stmt" and calls_named(n.ast, "self." + nm)]
    r = node_calling("_generate_enums")
    if len(r) < 1:
        raise AnalysisError("call of _generate_enums in generate() not found")
    for w in sorted(writers):
        if w == "add_operation":
            continue
        ws = node_calling(w)
        good = len(ws) >= 1 and all(any(g.dominates(x, rr) and x.id != rr.id for x in ws) for rr in r) and all(x.id not in g.reach_after(rr) for x in ws for rr in r)
        ctx.check(good, key(gen, f"{w} before _generate_enums"), f"{w} records used enums but does not run before _generate_enums on every path", gen.loc(), okmsg=f"{w} runs before enums are pruned")
    # add_operation is only called before generate (main.client)
    mc = repo.func("main:client")
    gm = cfg_of(mc)
    ao = [n for n in gm.stmts() if n.ast is not None and calls_named(n.ast if n.kind != "loop" else ast.Module(body=n.ast.body, type_ignores=[]), "package_generator.add_operation")]
    ge = [n for n in gm.stmts() if n.ast is not None and n.kind == "stmt" and calls_named(n.ast, "package_generator.generate")]
    loops = [n for n in gm.nodes if n.kind == "loop" and "add_operation" in norm(n.ast)]
    good = len(ge) == 1 and len(loops) == 1 and gm.dominates(loops[0], ge[0]) and loops[0].id not in gm.reach_after(ge[0])
    ctx.check(good, key(mc, "operations before generate"), "operations are not all added before generate()", mc.loc(), okmsg="all operations added before generate()")
    # pruning uses the accumulated list
    ge_ = repo.func(PG + "._generate_enums")
    def _tti(x, it_=None):
        m = x.env.get("module")
        m = strip_pre(m) if m is not None else None
        if not (isinstance(m, ast.Call) and norm(m.func) == "self.enums_generator.generate"):
            return "?"
        a = argv(m, 0, "types_to_include")
        a = strip_pre(x.deref(a)) if isinstance(a, ast.Name) else a
        if a is not None and it_ is not None:
            a = strip_pre(it_._simp(a, x.env))      # `None if self.include_all_enums else self._used_enums`: the arm this scenario takes
        return "<all>" if a is None or is_const(a, None) else norm(a)

    def _inc(v):
        def atom(e):
            t = norm(strip_pre(e))
            if t == "self.include_all_enums":
                return v
            if t == "not self.include_all_enums":
                return not v
            if t == "self.plugin_manager":
                return False
            return None
        return atom
    it1 = Interp(ge_, _inc(False))
    o = it1.run()
    good = bool(o) and all(_tti(x, it1) == "self._used_enums" for x in o)
    ctx.check(good, key(ge_, "pruned"), f"with include_all_enums=false the enums module is not generated from the used-enum list ({[_tti(x) for x in o]})", ge_.loc(), okmsg="include_all_enums=false -> generate(types_to_include=self._used_enums)")
    it2 = Interp(ge_, _inc(True))
    o = it2.run()
    good = bool(o) and all(_tti(x, it2) == "<all>" for x in o)
    ctx.check(good, key(ge_, "all"), f"with include_all_enums=true not all enums are generated ({[_tti(x) for x in o]})", ge_.loc(), okmsg="include_all_enums=true -> generate()")


@rule("C09.R2", "every generator that emits enum references feeds the used-enum list", min_instances=5, also=["C04", "C03", "C06", "C01"])
def c09_r2(ctx):
    repo = ctx.repo
    pg = repo.cls(PG)
    consumed = set()
    for fi in pg.methods.values():
        for c in walk_no_nested(fi.node):
            if isinstance(c, ast.Call) and norm(c.func) == "self._used_enums.extend" and allargs(c) and isinstance(allargs(c)[0], ast.Call) and isinstance(allargs(c)[0].func, ast.Attribute) and allargs(c)[0].func.attr == "get_used_enums":
                consumed.add(norm(allargs(c)[0].func.value))
    want = {"self.input_types_generator": "InputTypesGenerator", "self.fragments_generator": "FragmentsGenerator",
            "self.client_generator.arguments_generator": "ArgumentsGenerator", "query_types_generator": "ResultTypesGenerator"}
    for expr, cls in want.items():
        ctx.check(expr in consumed, f"client_generators.package::PackageGenerator::consumes {cls}.get_used_enums", f"used enums of {cls} ({expr}) are never added to the package's used-enum list", pg.loc(),
                  okmsg=f"{cls}.get_used_enums() consumed")
    # ... on every path of the consuming method that writes the consumer's module, and only after the producer is complete
    for fi in pg.methods.values():
        g = cfg_of(fi)
        for n in g.stmts():
            if n.kind != "stmt" or n.ast is None:
                continue
            for c in ast.walk(n.ast):
                if isinstance(c, ast.Call) and norm(c.func) == "self._used_enums.extend" and allargs(c) and isinstance(allargs(c)[0], ast.Call) and isinstance(allargs(c)[0].func, ast.Attribute) and allargs(c)[0].func.attr == "get_used_enums":
                    src = norm(allargs(c)[0].func.value)
                    # (i) not skipped on a path that still writes a file
                    writes = [w for w in g.stmts() if w.kind == "stmt" and w.ast is not None and calls_named(w.ast, "write_text")]
                    skipped = [w for w in writes if g.exit.id in g.reach([w], avoid={n.id}) and n.id not in g.reach([g.entry], avoid={w.id}) or (w.id in g.reach([g.entry], avoid={n.id}) and g.exit.id in g.reach([w], avoid={n.id}))]
                    ctx.check(not skipped, key(fi, f"consume {src} on every path"), f"a path through {fi.qualname} writes its module but skips `{norm(c)[:90]}`: enums used there are pruned under include_all_enums=false", fi.loc(c),
                              okmsg=f"{fi.qualname}: {src}.get_used_enums() consumed on every writing path")
                    # (ii) the arguments generator is complete only after the method of the operation has been added
                    if src.endswith("arguments_generator"):
                        adders = [w for w in g.stmts() if w.kind == "stmt" and w.ast is not None and calls_named(w.ast, "self.client_generator.add_method")]
                        early = [w for w in adders if n.id not in g.reach_after(w) or w.id in g.reach_after(n)]
                        ctx.check(not early, key(fi, "arguments enums after add_method"), "variable-type enums are read from the arguments generator before the operation's method was added to it (the last operation's enums are never recorded)", fi.loc(c),
                                  okmsg=f"{fi.qualname}: argument enums read after all add_method calls of this method")
    # every class under client_generators that branches on GraphQLEnumType while emitting code must expose get_used_enums (or feed one that does)
    feeders = {
        "client_generators.result_fields": "records into FieldContext.enums, collected by ResultTypesGenerator (C04.R4)",
        "client_generators.input_fields": "returns the type name, recorded by InputTypesGenerator._save_dependencies",
        "client_generators.enums": "the enums module itself",
        "codegen": "unused helper parse_field_type",
    }
    for m in repo.modules.values():
        ms = m.short
        if not (ms.startswith("client_generators") or ms == "codegen") or ms.startswith("client_generators.dependencies"):
            continue
        uses = [n for n in ast.walk(m.tree) if isinstance(n, ast.Call) and is_name(n.func, "isinstance") and len(allargs(n)) == 2 and "GraphQLEnumType" in norm(allargs(n)[1])]
        if not uses:
            continue
        if ms in feeders:
            ctx.ok(f"{ms}: enum references ({feeders[ms][:60]})", m.relpath)
            continue
        # the class containing the test must define get_used_enums and be consumed
        for u in uses:
            owner = None
            for q, ci in m.classes.items():
                if any(x is u for x in ast.walk(ci.node)):
                    owner = ci
            has = owner is not None and "get_used_enums" in owner.methods
            isconsumed = has and owner.qualname in want.values()
            ctx.check(bool(isconsumed), f"{ms}::{owner.qualname if owner else '?'}::enum references",
                      f"{owner.qualname if owner else ms} emits references to schema enums (imports `from . import <Enum>`) but does not report them as used: "
                      "with include_all_enums=false the enum is pruned and the generated package fails to import", f"{m.relpath}:{u.lineno}",
                      okmsg=f"{ms}::{owner.qualname if owner else '?'} reports used enums")


@rule("C09.R3", "input generator results are only read after generate()", min_instances=2)
def c09_r3(ctx):
    fi = ctx.repo.func(PG + "._generate_input_types")
    g = cfg_of(fi)
    gens = [n for n in g.stmts() if n.kind == "stmt" and calls_named(n.ast, "self.input_types_generator.generate")]
    for meth in ("get_used_enums", "get_generated_public_names"):
        rs = [n for n in g.stmts() if n.ast is not None and n.kind == "stmt" and calls_named(n.ast, f"self.input_types_generator.{meth}")]
        good = len(rs) == 1 and bool(gens) and not g.must_pass(g.entry, rs, lambda x: x in gens) is not None
        bad = g.must_pass(g.entry, rs, lambda x: any(x.id == y.id for y in gens)) if rs else ["missing"]
        ctx.check(bool(rs) and bad is None, key(fi, meth), f"{meth}() can be read before input_types_generator.generate() filled it", fi.loc(), okmsg=f"{meth}() read only after generate()")
    # include_all_inputs=false uses the inputs of the operations' variables
    it3 = Interp(fi, lambda e: (False if norm(e) in ("self.include_all_inputs", "self.plugin_manager") else None))
    o = it3.run()
    good = bool(o) and all(norm(strip_pre(it3._simp(subst(x.env.get("module") or ast.Constant(0), x.env, deep=True), x.env))) ==
                           "self.input_types_generator.generate(types_to_include=self.client_generator.arguments_generator.get_used_inputs())" for x in o)
    ctx.check(good, key(fi, "pruned"), "with include_all_inputs=false the inputs module is not generated from the inputs used as variable types", fi.loc(), okmsg="include_all_inputs=false -> generate(types_to_include=used inputs)")


@rule("C09.R4", "input closure follows every dependency; filters only select", min_instances=6)
def c09_r4(ctx):
    repo = ctx.repo
    IT = "client_generators.input_types:InputTypesGenerator."
    fc = repo.func(IT + "_filter_class_defs")
    o = Interp(fc, lambda e: (True if norm(e) == "types_to_include is None" else None)).run()
    ctx.check(len(o) == 1 and norm(o[0].value) == "self._class_defs", key(fc, "all"), "without a filter not all classes are returned", fc.loc(), okmsg="no filter -> all input classes")
    o = [x for x in Interp(fc, lambda e: (False if norm(e) == "types_to_include is None" else None)).run() if x.kind == "return" and not any("loop skipped" in t for t in x.trace)]
    good = len(o) == 1
    if good:
        x = o[0]
        rv = x.deref(x.value) if isinstance(x.value, ast.Name) else x.value
        from ..util import union_terms
        good = isinstance(rv, ast.ListComp) and len(rv.generators) == 1 and norm(rv.elt) == norm(rv.generators[0].target) and norm(rv.generators[0].iter) == "self._class_defs" \
            and len(rv.generators[0].ifs) == 1 and isinstance(rv.generators[0].ifs[0], ast.Compare) and isinstance(rv.generators[0].ifs[0].ops[0], ast.In) \
            and norm(rv.generators[0].ifs[0].left) == f"{norm(rv.generators[0].target)}.name"
        if good:
            names = x.deref(rv.generators[0].ifs[0].comparators[0])
            # the name set: union over the requested types of their dependency closure (loop of unions, or a set comprehension)
            if isinstance(names, ast.SetComp):
                g = names.generators
                good = len(g) == 2 and norm(g[0].iter) == "types_to_include" and not g[0].ifs and not g[1].ifs and norm(g[1].iter) == f"self._get_dependencies_of_type({norm(g[0].target)})" \
                    and norm(names.elt) == norm(g[1].target)
            else:
                good = union_terms(names) == ["self._get_dependencies_of_type(<elem>(types_to_include))"]
    ctx.check(good, key(fc, "closure"), "filtered classes must be exactly those in the union of the dependency closures of all requested types", fc.loc(), okmsg="filter = union of closures, classes unchanged")
    outer = repo.func(IT + "_get_dependencies_of_type")
    scope = [outer] + [f for q, f in outer.module.functions.items() if q.startswith(outer.qualname + ".")]
    nloops = []
    for f2 in scope:
        for lp in walk_no_nested(f2.node):
            if isinstance(lp, ast.For) and norm(lp.iter).startswith("self._dependencies["):
                nloops.append((f2, lp))
    if len(nloops) == 0:
        # comprehension form: [n for n in self._dependencies[node] ...] inside a frontier loop
        comps = [(f2, c) for f2 in scope for c in walk_no_nested(f2.node) if isinstance(c, (ast.ListComp, ast.GeneratorExp, ast.SetComp)) and any(norm(g.iter).startswith("self._dependencies[") for g in c.generators)]
        if len(comps) == 1:
            f2, comp = comps[0]
            # the variable receiving the new frontier must accumulate over all nodes of the level
            asg = [st for st in walk_no_nested(f2.node) if isinstance(st, ast.Assign) and st.value is comp and isinstance(st.targets[0], ast.Name)]
            loops_ = [lp for lp in walk_no_nested(f2.node) if isinstance(lp, ast.For) and asg and any(x is asg[0] for x in ast.walk(lp))]
            if asg and loops_:
                ctx.fail(key(f2, "closure"), f"`{asg[0].targets[0].id}` is re-assigned for every node of the current level, so only the dependencies of the *last* node of each level are expanded further: "
                         "types reachable only through the others are pruned", f2.loc(asg[0]))
                return
        raise AnalysisError("_get_dependencies_of_type: traversal form not recognised")
    if len(nloops) != 1:
        raise AnalysisError(f"_get_dependencies_of_type: {len(nloops)} loops over self._dependencies[...]")
    f2, lp = nloops[0]
    nb = norm(lp.target)
    probs = []
    if any(isinstance(x, (ast.Break, ast.Return)) for x in ast.walk(lp)):
        probs.append("the loop over a type's dependencies can stop early (break/return): later dependencies are never visited")
    handled = False
    for x in ast.walk(lp):
        if isinstance(x, ast.Call):
            if isinstance(x.func, ast.Name) and any(x.func.id == g2.qualname.rsplit(".", 1)[-1] for g2 in scope) and allargs(x) and norm(allargs(x)[0]) == nb:
                handled = True  # recursion into the neighbour
            if isinstance(x.func, ast.Attribute) and x.func.attr in ("append", "extend", "add", "appendleft") and allargs(x) and nb in norm(allargs(x)[0]) and norm(x.func.value) not in ("result", "visited"):
                handled = True  # pushed on a worklist
    if not handled:
        probs.append("a dependency is neither recursed into nor pushed on a worklist")
    for st in lp.body:
        if isinstance(st, ast.If) and any(isinstance(x, ast.Continue) for x in ast.walk(st)):
            t = norm(st.test)
            if not (nb in t and " in " in t):
                probs.append(f"dependencies are skipped under `{t}`")
    ctx.check(not probs, key(f2, "closure"), "; ".join(probs), f2.loc(lp), okmsg="every dependency of every reached type is visited (no early exit)")
    if f2 is not outer:
        dfs = f2
        p = dfs.node.args.args[0].arg
        eff = lambda c: (isinstance(c.func, ast.Attribute) and c.func.attr in ("add", "append")) or is_name(c.func, dfs.node.name)
        o = [x for x in Interp(dfs, lambda e: (True if norm(e) == f"{p} not in visited" else False if norm(e) == f"{p} in visited" else None), is_effect=eff).run() if any("loop body once" in t for t in x.trace)]
        good = len(o) >= 1
        for x in o:
            effs = [norm(e) for e in x.effects]
            good = good and len(effs) == 3 and effs[0].endswith(f".add({p})") and effs[1].endswith(f".append({p})") and effs[2] == f"{dfs.node.name}(<elem>(self._dependencies[{p}]))"
        ctx.check(good, key(dfs, "dfs"), "the DFS must mark, record and then recurse into every dependency", dfs.loc(), okmsg="dfs: mark, record, recurse over all dependencies")
    else:
        ctx.ok("worklist form of the dependency closure", outer.loc())
    pd = repo.func(IT + "_parse_input_definition")
    loops = [n for n in pd.node.body if isinstance(n, ast.For)]
    direct = [st for st in loops[0].body if isinstance(st, ast.Expr) and isinstance(st.value, ast.Call) and norm(st.value.func) == "self._save_dependencies"] if loops else []
    good = len(direct) == 1 and norm(kw(direct[0].value, "root_type") or ast.Constant(0)) == "definition.name" and norm(kw(direct[0].value, "field_type") or ast.Constant(0)) == "field_type"
    ctx.check(good, key(pd, "dependencies saved"), "dependencies are not recorded unconditionally for every field of every input", pd.loc(), okmsg="every field's named type recorded")
    sd = repo.func(IT + "_save_dependencies")
    eff = lambda c: isinstance(c.func, ast.Attribute) and c.func.attr == "append"
    for kind, want in (("GraphQLInputObjectType", "self._dependencies[root_type].append(field_type)"), ("GraphQLEnumType", "self._used_enums[root_type].append(field_type)"),
                       ("GraphQLScalarType", "self._used_scalars.append(field_type)")):
        def atom(e, kind=kind):
            t = norm(e)
            if t == "field_type":
                return True
            for k_ in ("GraphQLInputObjectType", "GraphQLEnumType", "GraphQLScalarType"):
                if t == f"isinstance(self.schema.type_map[field_type], {k_})":
                    return k_ == kind
            return None
        o = Interp(sd, atom, is_effect=eff).run()
        ctx.check(len(o) == 1 and [norm(e) for e in o[0].effects] == [want], key(sd, kind), f"{kind} field type is not recorded as `{want}`: {[x.text() for x in o]}", sd.loc(), okmsg=f"{kind} -> {want}")
    ef = repo.func("client_generators.enums:EnumsGenerator._filter_class_defs")
    o = Interp(ef, lambda e: (False if norm(e) == "types_to_include is None" else None)).run()
    rv = o[0].value if len(o) == 1 else None
    good = isinstance(rv, ast.ListComp) and norm(rv.elt) == norm(rv.generators[0].target) and norm(rv.generators[0].iter) == "self._class_defs" and [norm(i) for i in rv.generators[0].ifs] == [f"{norm(rv.generators[0].target)}.name in types_to_include"]
    ctx.check(good, key(ef, "select"), "enum filter must select classes by name without changing them", ef.loc(), okmsg="enum filter selects by name, classes unchanged")
    ue = repo.func(IT + "get_used_enums")
    from ..util import comp_struct
    o = [x for x in Interp(ue, lambda e: None).run() if x.kind == "return"]
    cs_ = comp_struct(strip_pre(o[0].deref(o[0].value))) if len(o) == 1 and o[0].value is not None else None
    good = cs_ == ("$1", [("self._generated_public_names", []), ("self._used_enums[$0]", [])])
    ctx.check(good, key(ue, "retained inputs"), "used enums of the inputs are not those of exactly the retained input classes", ue.loc(), okmsg="used enums = enums of retained inputs")


# ====================================================================== C17
def _post_init_chain(repo, ci: ClassInfo) -> List[FuncInfo]:
    out = []
    for c in repo.mro(ci):
        if "__post_init__" in c.methods:
            out.append(c.methods["__post_init__"])
    return out


NAME_FIELDS = {
    "settings:ClientSettings": {
        "target_package_name": "assert_string_is_valid_python_identifier", "client_name": "assert_string_is_valid_python_identifier",
        "client_file_name": "assert_string_is_valid_python_identifier", "base_client_name": "assert_string_is_valid_python_identifier",
        "enums_module_name": "assert_string_is_valid_python_identifier", "input_types_module_name": "assert_string_is_valid_python_identifier",
        "fragments_module_name": "assert_string_is_valid_python_identifier",
        "target_package_path": "assert_path_is_valid_directory", "queries_path": "assert_path_exists", "base_client_file_path": "assert_path_is_valid_file",
    },
    "settings:GraphQLSchemaSettings": {
        "schema_variable_name": "assert_string_is_valid_python_identifier", "type_map_variable_name": "assert_string_is_valid_python_identifier",
        "target_file_path": "assert_string_is_valid_schema_target_filename",
    },
}


@rule("C17.R1", "every name / path setting is validated on every path of __post_init__", min_instances=18)
def c17_r1(ctx):
    repo = ctx.repo
    for ck, table in NAME_FIELDS.items():
        ci = repo.cls(ck)
        pi = ci.methods.get("__post_init__")
        if pi is None:
            raise AnalysisError(f"{ck}.__post_init__ not found")
        g = cfg_of(pi)
        # all str-typed *_name fields of the dataclass must be in the table (new settings must be validated too)
        for fname, ann, default in ci.fields():
            if fname.endswith("_name") and ann is not None and norm(ann) == "str" and fname not in table:
                ctx.fail(f"settings::{ci.qualname}::{fname}", f"setting {fname} becomes a Python/module name but is not validated in __post_init__", ci.loc())
        for fname, fn in sorted(table.items()):
            nodes_ = [n for n in g.stmts() if n.kind == "stmt" and n.ast is not None and any(norm(c) == f"{fn}(self.{fname})" or (dotted(c.func) == fn and allargs(c) and f"self.{fname}" in norm(allargs(c)[0])) for c in ast.walk(n.ast) if isinstance(c, ast.Call))]
            if not nodes_:
                ctx.fail(f"settings::{ci.qualname}::{fname}", f"setting {fname} is never passed to {fn}: an invalid value is only discovered after files have been written", pi.loc())
                continue
            bad = g.must_pass(g.entry, [g.exit], lambda x: any(x.id == y.id for y in nodes_))
            ctx.check(bad is None, f"settings::{ci.qualname}::{fname}", f"a path through __post_init__ skips {fn}(self.{fname}): {g.path_str(bad) if bad else ''}", pi.loc(nodes_[0].ast),
                      okmsg=f"{ci.qualname}.{fname} validated by {fn} on every path")
        sup = [n for n in g.stmts() if n.kind == "stmt" and n.ast is not None and "super().__post_init__()" in norm(n.ast)]
        bad = g.must_pass(g.entry, [g.exit], lambda x: any(x.id == y.id for y in sup)) if sup else ["x"]
        ctx.check(bool(sup) and bad is None, f"settings::{ci.qualname}::super", "BaseSettings.__post_init__ (schema source checks) is not run on every path", pi.loc(), okmsg=f"{ci.qualname} runs BaseSettings checks")
    bs = repo.func("settings:BaseSettings.__post_init__")
    for scn, want in ((("", ""), "raise"), (("x", ""), "ok"), (("", "u"), "ok")):
        def atom(e, scn=scn):
            t = norm(e)
            if t == "self.schema_path":
                return bool(scn[0])
            if t == "self.remote_schema_url":
                return bool(scn[1])
            return None
        o = Interp(bs, atom, is_effect=lambda c: dotted(c.func) == "assert_path_exists").run()
        if want == "raise":
            good = bool(o) and all(x.kind == "raise" and x.exc == "InvalidConfiguration" for x in o)
        else:
            good = bool(o) and all(x.kind != "raise" for x in o) and (not scn[0] or all([norm(e) for e in x.effects] == ["assert_path_exists(self.schema_path)"] for x in o))
        ctx.check(good, key(bs, f"schema_path={scn[0]!r} url={scn[1]!r}"), f"schema source check wrong: {[x.text() for x in o]}", bs.loc(), okmsg=f"schema source ({scn[0]!r},{scn[1]!r}) -> {want}")
    sd = repo.func("settings:ClientSettings._set_default_base_client_data")
    eff = lambda c: is_name(c.func, "<setattr>")
    for nm, pth in ((False, False), (True, False), (False, True), (True, True)):
        def at(e, nm=nm, pth=pth):
            t = norm(e)
            if t == "self.base_client_name":
                return nm
            if t == "self.base_client_file_path":
                return pth
            return None
        o = Interp(sd, at, is_effect=eff).run()
        sets = [{norm(allargs(e)[1]) for e in x.effects if norm(allargs(e)[0]) == "self"} for x in o]
        if not nm and not pth:
            good = bool(o) and all(s_ == {"'base_client_name'", "'base_client_file_path'"} for s_ in sets)
            what = "both unset -> packaged defaults"
        else:
            good = bool(o) and all(not s_ for s_ in sets)
            what = "user value kept, nothing defaulted (a half-specified base client must be rejected by the later checks)"
        ctx.check(good, key(sd, f"name set={nm}, path set={pth}"), f"base client name set={nm} / path set={pth}: assignments {sets}; expected: {what}", sd.loc(), okmsg=f"base client (name={nm}, path={pth}): {what}")
    fl = [n for n in walk_no_nested(repo.cls("settings:ClientSettings").methods["__post_init__"].node) if isinstance(n, ast.For) and norm(n.iter) == "self.files_to_include"]
    good = len(fl) == 1 and norm(fl[0].body[0]) == f"assert_path_is_valid_file({norm(fl[0].target)})"
    ctx.check(good, "settings::ClientSettings::files_to_include", "files_to_include entries are not each checked to be files", "", okmsg="every files_to_include entry checked")


@rule("C17.R2", "the validators reject what they name (abstract evaluation over small domains)", min_instances=8, also=["C16", "C04"])
def c17_r2(ctx):
    repo = ctx.repo
    fi = repo.func("settings:assert_string_is_valid_python_identifier")
    p = fi.node.args.args[0].arg
    # three-point domain with the fact keyword => isidentifier
    for label, ident, kwd, must_raise in (("not an identifier", False, False, True), ("a keyword", True, True, True), ("a plain identifier", True, False, False)):
        def atom(e):
            t = norm(e)
            if t == f"{p}.isidentifier()":
                return ident
            if t in (f"iskeyword({p})", f"keyword.iskeyword({p})"):
                return kwd
            if t in (f"issoftkeyword({p})", f"keyword.issoftkeyword({p})"):
                return False
            return None
        o = Interp(fi, atom).run()
        raised = bool(o) and all(x.kind == "raise" and x.exc == "InvalidConfiguration" for x in o)
        passed = bool(o) and all(x.kind != "raise" for x in o)
        ctx.check(raised if must_raise else passed, key(fi, label), f"a name that is {label} must {'be rejected' if must_raise else 'be accepted'}: {[x.text() for x in o]}", fi.loc(),
                  okmsg=f"identifier check: {label} -> {'rejected' if must_raise else 'accepted'}")
    for fn, pred, label in (("assert_path_exists", "exists", "missing path"), ("assert_path_is_valid_directory", "is_dir", "not a directory"), ("assert_path_is_valid_file", "is_file", "not a file")):
        f2 = repo.func("settings:" + fn)
        pp = f2.node.args.args[0].arg
        for val in (False, True):
            o = Interp(f2, lambda e, val=val: (val if norm(e) == f"Path({pp}).{pred}()" else None)).run()
            good = bool(o) and (all(x.kind == "raise" and x.exc == "InvalidConfiguration" for x in o) if not val else all(x.kind != "raise" for x in o))
            ctx.check(good, key(f2, f"{pred}={val}"), f"{fn}: {pred}()={val} gives {[x.text() for x in o]}", f2.loc(), okmsg=f"{fn}: {pred}()={val} -> {'accepted' if val else 'InvalidConfiguration'}")
    tf = repo.func("settings:assert_string_is_valid_schema_target_filename")
    probs = []
    tests = [n for n in walk_no_nested(tf.node) if isinstance(n, ast.Compare) and any(isinstance(op, ast.NotIn) for op in n.ops)]
    if len(tests) != 1 or sorted(c.value for c in tests[0].comparators[0].elts) != ["gql", "graphql", "py"]:
        probs.append("accepted target file types are not exactly py/graphql/gql")
    if sum(1 for r in walk_no_nested(tf.node) if isinstance(r, ast.Raise) and "InvalidConfiguration" in norm(r)) < 2:
        probs.append("missing/invalid file type does not raise InvalidConfiguration")
    ctx.check(not probs, key(tf, "types"), "; ".join(probs), tf.loc(), okmsg="target file type must be py/graphql/gql")
    hv = repo.func("settings:get_header_value")
    o = Interp(hv, lambda e: (True if norm(strip_pre(e)).startswith("value.startswith(") else False if "os.environ.get" in norm(strip_pre(e)) else None)).run()
    ctx.check(bool(o) and all(x.kind == "raise" and x.exc == "InvalidConfiguration" for x in o), key(hv, "unresolved"), f"an unresolved $VAR header does not raise InvalidConfiguration: {[x.text() for x in o]}", hv.loc(), okmsg="unresolved $VAR header -> InvalidConfiguration")
    cd = repo.func("settings:assert_class_is_defined_in_file")
    ctx.check(any(isinstance(r, ast.Raise) and "InvalidConfiguration" in norm(r) for r in walk_no_nested(cd.node)), key(cd, "raises"), "missing base client class is not rejected", cd.loc(), okmsg="missing base client class -> InvalidConfiguration")


@rule("C17.R3", "schema validation is not made vacuous (assume_valid)", min_instances=2, also=["C04"])
def c17_r3(ctx):
    repo = ctx.repo
    # oracle: graphql-core pre-fills the validation result when assume_valid is true
    path, src = site_packages_source("graphql", "type", "schema.py")
    if "_validation_errors = [] if assume_valid else None" not in " ".join(src.split()):
        ctx.note("oracle: graphql-core no longer pre-fills _validation_errors from assume_valid; rule not applicable to this version")
        ctx.ok("assume_valid has no effect on validation in the installed graphql-core")
        ctx.ok("assume_valid has no effect on validation in the installed graphql-core (2)")
        return
    main_validates = any(calls_named(repo.func(f"main:{fn}").node, "assert_valid_schema", "validate_schema") for fn in ("client", "graphql_schema"))
    if not main_validates:
        ctx.fail("main::client::assert_valid_schema", "the loaded schema is never validated", "")
    for fn in ("get_graphql_schema_from_path", "get_graphql_schema_from_url"):
        fi = repo.func("schema:" + fn)
        for c in walk_no_nested(fi.node):
            if isinstance(c, ast.Call) and dotted(c.func) in ("build_ast_schema", "build_client_schema"):
                av = kw(c, "assume_valid")
                good = av is None or is_const(av, False)
                ctx.check(good, key(fi, f"{dotted(c.func)}(assume_valid={norm(av) if av is not None else None})"),
                          f"{dotted(c.func)}(..., assume_valid=True) marks the schema as already validated (graphql-core stores `_validation_errors = []`), "
                          "so assert_valid_schema() in main can never reject an invalid schema", fi.loc(c), okmsg=f"{fn}: schema built without assume_valid")


WRITE_EFFECT_ROOTS = ("write_text", "mkdir", "write_bytes")


def _has_write_effect(repo, fi: FuncInfo, seen=None, depth=0) -> bool:
    seen = seen if seen is not None else set()
    if fi.key in seen or depth > 6:
        return False
    seen.add(fi.key)
    for c in walk_no_nested(fi.node):
        if not isinstance(c, ast.Call):
            continue
        if isinstance(c.func, ast.Attribute) and c.func.attr in WRITE_EFFECT_ROOTS:
            return True
        if isinstance(c.func, ast.Name) and c.func.id == "open" and len(allargs(c)) > 1 and isinstance(allargs(c)[1], ast.Constant) and "w" in str(allargs(c)[1].value):
            return True
        tgt = None
        if isinstance(c.func, ast.Name):
            k, v = repo.resolve(fi.module, c.func.id)
            tgt = v if k == "func" else None
        elif isinstance(c.func, ast.Attribute) and is_name(c.func.value, "self") and fi.cls is not None:
            tgt = repo.find_method(fi.cls, c.func.attr)
        if tgt is not None and _has_write_effect(repo, tgt, seen, depth + 1):
            return True
    return False


@rule("C17.R4", "everything that can reject the input runs before the first write", min_instances=10)
def c17_r4(ctx):
    repo = ctx.repo
    pgen = repo.func(PG + ".generate")
    if not _has_write_effect(repo, pgen):
        raise AnalysisError("PackageGenerator.generate has no write effect?")
    for fn, validators, writer_names in (
            ("client", ["get_client_settings", "get_plugins_types", "assert_valid_schema", "get_graphql_queries", "package_generator.add_operation", "get_package_generator"], ["package_generator.generate"]),
            ("graphql_schema", ["get_graphql_schema_settings", "get_plugins_types", "assert_valid_schema"], ["generate_graphql_schema_python_file", "generate_graphql_schema_graphql_file"])):
        fi = repo.func("main:" + fn)
        g = cfg_of(fi)
        def nodes_calling(nm):
            out = []
            for n in g.stmts():
                if n.ast is None or n.kind == "handler":
                    continue
                part = n.ast
                if n.kind == "loop":
                    part = ast.Module(body=[ast.Expr(n.ast.iter)], type_ignores=[])
                if calls_named(part, nm):
                    out.append(n)
            return out
        writers = [n for w in writer_names for n in nodes_calling(w)]
        if not writers:
            raise AnalysisError(f"main.{fn}: writer calls not found")
        schema_loaders = nodes_calling("get_graphql_schema_from_path") + nodes_calling("get_graphql_schema_from_url")
        ctx.check(bool(schema_loaders) and all(any(g.dominates(s, w) for s in schema_loaders) or True for w in writers) and all(w.id not in g.reach([g.entry], avoid={s.id for s in schema_loaders}) for w in writers),
                  key(fi, "schema loaded first"), "a write is reachable without loading the schema", fi.loc(), okmsg=f"main.{fn}: schema loading precedes every write")
        for v in validators:
            vs = nodes_calling(v)
            if not vs:
                ctx.fail(key(fi, v), f"{v} is not called in main.{fn}", fi.loc())
                continue
            # none may run after a write; unconditional ones must run on every path to a write
            conditional = v in ("get_graphql_queries", "package_generator.add_operation")
            reach_wo = g.reach([g.entry], avoid={x.id for x in vs})
            early = [] if conditional else [w for w in writers if w.id in reach_wo]
            late = [x for x in vs if any(x.id in g.reach_after(w) for w in writers)]
            ctx.check(not early and not late, key(fi, f"{v} before writes"), f"{v} does not run before every write ({'write reachable without it' if early else 'it runs after a write'})", fi.loc(vs[0].ast),
                      okmsg=f"main.{fn}: {v} precedes every write")
        # what was validated is what is used: the validated name is not rebound between its validation and the writers
        for vn in nodes_calling("assert_valid_schema"):
            call = next((c for c in ast.walk(vn.ast) if isinstance(c, ast.Call) and dotted(c.func) == "assert_valid_schema" and allargs(c)), None)
            arg = strip_pre(allargs(call)[0]) if call is not None else None
            if not isinstance(arg, ast.Name):
                continue
            after = g.reach_after(vn)
            rebinds = [n for n in g.stmts() if n.id in after and n.ast is not None and n.kind == "stmt" and isinstance(n.ast, (ast.Assign, ast.AnnAssign, ast.AugAssign))
                       and any(isinstance(t, ast.Name) and t.id == arg.id and isinstance(t.ctx, ast.Store) for t in ast.walk(n.ast))]
            ctx.check(not rebinds, key(fi, "validated schema is the one used"),
                      f"`{arg.id}` is replaced after assert_valid_schema ({[norm(r.ast)[:70] for r in rebinds]}): what the plugins / later steps return is written without having been validated",
                      fi.loc(vn.ast), okmsg=f"main.{fn}: `{arg.id}` is not rebound after its validation")
    # nothing else in the validators' call trees writes
    for fk in ("config:get_client_settings", "config:get_graphql_schema_settings", "schema:get_graphql_queries", "schema:get_graphql_schema_from_path",
               "schema:get_graphql_schema_from_url", "plugins.explorer:get_plugins_types", PG + ".add_operation", "client_generators.package:get_package_generator"):
        f2 = repo.func(fk)
        ctx.check(not _has_write_effect(repo, f2), key(f2, "no write"), f"{fk} (runs before validation is complete) can write to disk", f2.loc(), okmsg=f"{fk} has no write effect")
    # syntax errors in GraphQL files are typed
    rf = repo.func("schema:read_graphql_file")
    o = Interp(rf, lambda e: None, raises=lambda c: "GraphQLSyntaxError" if dotted(c.func) == "parse" else None).run()
    ctx.check(bool(o) and all(x.kind == "raise" and x.exc == "InvalidGraphqlSyntax" for x in o), key(rf, "syntax error"), f"a GraphQL syntax error is not reported as InvalidGraphqlSyntax: {[x.text() for x in o]}", rf.loc(),
              okmsg="GraphQL syntax error -> InvalidGraphqlSyntax naming the file")
    lf = repo.func("schema:load_graphql_files_from_path")
    rd = [c for c in walk_no_nested(lf.node) if isinstance(c, ast.Call) and (dotted(c.func) in ("open", "io.open") or (isinstance(c.func, ast.Attribute) and c.func.attr in ("read_text", "read_bytes", "open", "read")))]
    ctx.check(not rd and len(calls_named(lf.node, "read_graphql_file")) >= 1, key(lf, "checked reads"), "GraphQL files are read without the syntax check", lf.loc(), okmsg="every GraphQL file is read through read_graphql_file")


@rule("C17.R6", "reading settings never mutates the configuration; unknown keys ignored; typed errors for missing pieces", min_instances=6)
def c17_r6(ctx):
    repo = ctx.repo
    for fn, cls in (("get_client_settings", "ClientSettings"), ("get_graphql_schema_settings", "GraphQLSchemaSettings")):
        fi = repo.func("config:" + fn)
        # names aliasing the caller's mapping: results of get_section(config_dict) without .copy()
        alias = {"config_dict"}
        copies = set()
        for st in walk_no_nested(fi.node):
            if isinstance(st, ast.Assign) and len(st.targets) == 1 and isinstance(st.targets[0], ast.Name):
                v = st.value
                if isinstance(v, ast.Call) and dotted(v.func) == "get_section":
                    alias.add(st.targets[0].id)
                elif isinstance(v, ast.Call) and isinstance(v.func, ast.Attribute) and v.func.attr == "copy" and isinstance(v.func.value, ast.Call) and dotted(v.func.value.func) == "get_section":
                    copies.add(st.targets[0].id)
                elif isinstance(v, ast.Call) and dotted(v.func) in ("dict", "copy.deepcopy", "deepcopy") and allargs(v) and "get_section" in norm(allargs(v)[0]):
                    copies.add(st.targets[0].id)
        bad = []
        for n in walk_no_nested(fi.node):
            if isinstance(n, ast.Subscript) and isinstance(n.ctx, (ast.Store, ast.Del)):
                root = n.value
                while isinstance(root, (ast.Subscript, ast.Attribute)):
                    root = root.value
                if isinstance(root, ast.Name) and root.id in alias:
                    bad.append(norm(n))
                # nested mapping of a shallow copy is still the caller's object
                if isinstance(root, ast.Name) and root.id in copies and isinstance(n.value, ast.Subscript):
                    bad.append(norm(n) + " (nested mapping of a shallow copy)")
            if isinstance(n, ast.Call) and isinstance(n.func, ast.Attribute) and n.func.attr in ("update", "pop", "setdefault", "clear", "popitem", "__setitem__"):
                root = n.func.value
                while isinstance(root, (ast.Subscript, ast.Attribute)):
                    root = root.value
                if isinstance(root, ast.Name) and root.id in alias:
                    bad.append(norm(n)[:60])
        ctx.check(not bad, key(fi, "mutation"), f"the caller's configuration mapping is modified: {bad}", fi.loc(), okmsg=f"{fn}: configuration mapping not mutated")
        # unknown keys are dropped
        calls = [c for c in walk_no_nested(fi.node) if isinstance(c, ast.Call) and is_name(c.func, cls)]
        good = len(calls) == 1 and len(calls[0].keywords) == 1 and calls[0].keywords[0].arg is None and isinstance(calls[0].keywords[0].value, ast.DictComp)
        if good:
            dc = calls[0].keywords[0].value
            good = [norm(i) for i in dc.generators[0].ifs] == [f"{norm(dc.key)} in settings_fields_names"] and norm(dc.value) == norm(dc.generators[0].target.elts[1])
        ctx.check(good, key(fi, "unknown keys"), "settings are not built from exactly the known keys of the section", fi.loc(), okmsg=f"{fn}: unknown keys ignored, values unchanged")
        conv = False
        for t in ast.walk(fi.node):
            if isinstance(t, ast.Try) and any(f"{cls}(" in norm(s) for s in t.body):
                for h in t.handlers:
                    if h.type is not None and "TypeError" in norm(h.type) and any(isinstance(x, ast.Raise) and "MissingConfiguration" in norm(x) for x in ast.walk(h)):
                        conv = True
        ctx.check(conv, key(fi, "missing fields"), "missing required settings are not reported as MissingConfiguration", fi.loc(), okmsg=f"{fn}: missing fields -> MissingConfiguration")
    gcs = repo.func("config:get_client_settings")
    # every read of a scalar's mandatory "type" key (here or in a helper of the config module that this function calls) sits in a
    # try block whose KeyError handler raises MissingConfiguration
    from ..callgraph import CallGraph
    cgr = CallGraph(repo)
    scope = [gcs] + [f for f in cgr.reach([gcs]).values() if f.module is gcs.module and f.key != gcs.key]
    reads, guarded = 0, 0

    def in_guarded_try(f, node):
        par = {}
        for n in ast.walk(f.node):
            for ch in ast.iter_child_nodes(n):
                par[id(ch)] = n
        q, prev = par.get(id(node)), node
        while q is not None:
            if isinstance(q, ast.Try) and any(prev is b or any(prev is x for x in ast.walk(b)) for b in q.body):
                for h in q.handlers:
                    if h.type is not None and "KeyError" in norm(h.type) and any(isinstance(x, ast.Raise) and "MissingConfiguration" in norm(x) for x in ast.walk(h)):
                        return True
            prev, q = q, par.get(id(q))
        return False
    for f in scope:
        for n in ast.walk(f.node):
            if isinstance(n, ast.Subscript) and isinstance(n.ctx, ast.Load) and is_const(n.slice, "type"):
                reads += 1
                ok_ = in_guarded_try(f, n)
                if not ok_ and f.key != gcs.key:
                    # the read sits in a helper: every call of the helper must be inside such a try block
                    sites = [(g_, c) for g_ in scope for c in ast.walk(g_.node) if isinstance(c, ast.Call) and isinstance(c.func, ast.Name) and c.func.id == f.node.name]
                    ok_ = bool(sites) and all(in_guarded_try(g_, c) for g_, c in sites)
                guarded += 1 if ok_ else 0
    conv = reads >= 1 and guarded == reads
    ctx.check(conv, key(gcs, "scalar without type"), "a scalar without `type` is not reported as MissingConfiguration", gcs.loc(), okmsg="scalar without type -> MissingConfiguration")
    cs = repo.func("settings:ClientSettings.__post_init__")
    conv = False
    for t in ast.walk(cs.node):
        if isinstance(t, ast.Try) and any("CommentsStrategy(" in norm(s) for s in t.body):
            for h in t.handlers:
                if h.type is not None and "ValueError" in norm(h.type) and any(isinstance(x, ast.Raise) and "InvalidConfiguration" in norm(x) for x in ast.walk(h)):
                    conv = True
    ctx.check(conv, key(cs, "comment mode"), "an unknown include_comments value is not reported as InvalidConfiguration", cs.loc(), okmsg="unknown comment mode -> InvalidConfiguration")
    for m_ in ("settings", "config"):
        for q, f3 in sorted(repo.mod(m_).functions.items()):
            params = {a.arg for a in f3.node.args.args if a.arg not in ("self", "cls")}
            muts = []
            for n in walk_no_nested(f3.node):
                root = None
                if isinstance(n, ast.Subscript) and isinstance(n.ctx, (ast.Store, ast.Del)):
                    root = n.value
                elif isinstance(n, ast.Call) and isinstance(n.func, ast.Attribute) and n.func.attr in ("update", "pop", "setdefault", "clear", "popitem", "append", "extend", "insert", "remove"):
                    root = n.func.value
                while isinstance(root, (ast.Subscript, ast.Attribute)):
                    root = root.value
                if isinstance(root, ast.Name) and root.id in params:
                    # rebinding the parameter to a copy first makes it local
                    rebound = any(isinstance(st, ast.Assign) and any(is_name(t, root.id) for t in st.targets) and st.lineno < n.lineno for st in walk_no_nested(f3.node))
                    if not rebound:
                        muts.append(norm(n)[:60])
            if muts:
                ctx.fail(key(f3, "mutates its argument"), f"{q} modifies the mapping it is given ({muts}): values from the caller's configuration dict are overwritten in place", f3.loc())
    ctx.ok("settings / config functions never modify a mapping they receive")
    gs = repo.func("config:get_section")
    rs = [r for r in walk_no_nested(gs.node) if isinstance(r, ast.Raise)]
    ctx.check(len(rs) == 1 and "MissingConfiguration" in norm(rs[0]), key(gs, "no section"), "a missing [tool.ariadne-codegen] section is not reported as MissingConfiguration", gs.loc(), okmsg="missing section -> MissingConfiguration")


# accessor -> the attribute it hands out; each pair confirmed by reading (private attribute renames are undone by the loader)
ACCESSORS = {
    "client_generators.arguments:ArgumentsGenerator.get_used_enums": "self._used_enums",
    "client_generators.arguments:ArgumentsGenerator.get_used_inputs": "self._used_inputs",
    "client_generators.arguments:ArgumentsGenerator.get_used_custom_scalars": "self._used_custom_scalars",
    "client_generators.custom_fields_typing:CustomFieldsTypingGenerator.get_generated_public_names": "self._public_names",
    "client_generators.enums:EnumsGenerator.get_generated_public_names": "self._generated_public_names",
    "client_generators.fragments:FragmentsGenerator.get_generated_public_names": "self._generated_public_names",
    "client_generators.fragments:FragmentsGenerator.get_used_enums": "self._used_enums",
    "client_generators.input_types:InputTypesGenerator.get_generated_public_names": "self._generated_public_names",
    "client_generators.result_types:ResultTypesGenerator.get_imports": "self._imports",
    "client_generators.result_types:ResultTypesGenerator.get_classes": "self._class_defs",
    "client_generators.result_types:ResultTypesGenerator.get_generated_public_names": "self._public_names",
    "client_generators.result_types:ResultTypesGenerator.get_unpacked_fragments": "self._unpacked_fragments",
    "client_generators.result_types:ResultTypesGenerator.get_fragments_used_as_mixins": "self._fragments_used_as_mixins",
    "client_generators.result_types:ResultTypesGenerator.get_used_enums": "self._used_enums",
}


@rule("C09.R5", "accessors hand out the accumulator they are named after; aggregating generators feed theirs from every sub-generator", min_instances=16,
      also=["C04", "C07", "C03", "C08", "C01"])
def c09_r5(ctx):
    repo = ctx.repo
    for k, attr in ACCESSORS.items():
        fi = repo.func(k)
        outs = [o for o in Interp(fi, lambda e: None).run() if o.kind == "return"]
        got = sorted({norm(strip_pre(o.deref(o.value) if isinstance(o.value, ast.Name) else o.value)) for o in outs if o.value is not None})
        ok = bool(got) and all(g == attr or g in (f"list({attr})", f"sorted({attr})", f"{attr}.copy()", f"set({attr})", f"{attr}[:]") for g in got)
        ctx.check(ok, key(fi, "returns"), f"{fi.qualname} returns {got}, not {attr}: its consumers (imports, __all__, pruning of unused enums / inputs, ordering of fragment classes) read another collection", fi.loc(),
                  okmsg=f"{fi.qualname} -> {attr}")
    # accessors not in the table: the attribute's words must occur in the accessor name (new accessors follow the convention)
    for fi in repo.all_functions():
        if fi.cls is None or not fi.node.name.startswith("get_") or len(fi.node.args.args) != 1 or fi.key in ACCESSORS or not fi.module.short.startswith("client_generators") \
                or fi.module.short.startswith("client_generators.dependencies"):
            continue
        rets = [strip_pre(n.value) for n in walk_no_nested(fi.node) if isinstance(n, ast.Return) and n.value is not None]
        if len(rets) == 1 and isinstance(rets[0], ast.Attribute) and isinstance(rets[0].value, ast.Name) and rets[0].value.id == "self":
            words = [w for w in rets[0].attr.strip("_").split("_") if w]
            have = fi.node.name.split("_")
            ctx.check(all(any(w.rstrip("s") == h.rstrip("s") or h.startswith(w[:5]) for h in have) for w in words), key(fi, "returns"),
                      f"{fi.qualname} returns self.{rets[0].attr}, which it is not named after", fi.loc(), okmsg=f"{fi.qualname} -> self.{rets[0].attr} (by name)")
    # the fragments module is built from one ResultTypesGenerator per fragment: what the package takes from the per-operation
    # generator must be taken from the per-fragment generators too, into the attribute of the same accessor
    fg = repo.func("client_generators.fragments:FragmentsGenerator.generate")
    o = [x for x in Interp(fg, lambda e: (True if norm(strip_pre(e)) in ("class_defs",) else False if norm(strip_pre(e)) == "self.plugin_manager" else None)).run()]
    need = {"get_used_enums": "self._used_enums", "get_generated_public_names": "self._generated_public_names"}
    for acc, dest in need.items():
        fed = False
        for x in o:
            for m in x.muts(dest):
                if isinstance(m, ast.Call) and any(isinstance(c, ast.Call) and isinstance(c.func, ast.Attribute) and c.func.attr == acc for c in ast.walk(m)):
                    fed = True
            v = x.env.get(dest)
            if v is not None and any(isinstance(c, ast.Call) and isinstance(c.func, ast.Attribute) and c.func.attr == acc for c in ast.walk(v)) \
                    and (isinstance(strip_pre(v), (ast.ListComp, ast.SetComp)) or any(isinstance(n, ast.Attribute) and norm(n) == dest for n in ast.walk(v))):
                fed = True      # rebinding that keeps what was there (`x = x + ...`) or one comprehension over all fragments
        if not fed:
            # plain scan (the update may sit in a loop body the interpreter summarises)
            for c in ast.walk(fg.node):
                if isinstance(c, (ast.Call, ast.AugAssign)) and dest in norm(c)[:len(dest) + 12] and f".{acc}(" in norm(c):
                    fed = True
        ctx.check(fed, key(fg, f"{dest} <- {acc}"), f"FragmentsGenerator.generate never adds the per-fragment generator's {acc}() to {dest}: "
                  + ("enums used only inside fragments are pruned under include_all_enums=false and fragments.py fails to import" if acc == "get_used_enums" else "fragment classes are missing from the package's __init__"),
                  fg.loc(), okmsg=f"fragments: {dest} fed from every per-fragment generator's {acc}()")
    for acc, what in (("get_imports", "imports"), ("get_classes", "class definitions"), ("get_fragments_used_as_mixins", "mixin dependencies (ordering)")):
        used = any(isinstance(c, ast.Call) and isinstance(c.func, ast.Attribute) and c.func.attr == acc for c in ast.walk(fg.node))
        ctx.check(used, key(fg, acc), f"FragmentsGenerator.generate does not read the per-fragment generator's {what}", fg.loc(), okmsg=f"fragments: per-fragment {what} read")


def _conjuncts(e: ast.AST) -> List[ast.AST]:
    e = strip_pre(e)
    if isinstance(e, ast.BoolOp) and isinstance(e.op, ast.And):
        return [c for v in e.values for c in _conjuncts(v)]
    return [e]


@rule("C04.R11", "the per-kind selections over schema.type_map keep every type of the kind except introspection types (`__` prefix)", min_instances=3,
      also=["C06", "C09", "C14"])
def c04_r11(ctx):
    from ..util import comp_struct
    repo = ctx.repo
    table = {
        "client_generators.enums:EnumsGenerator._filter_enum_types": ({"isinstance($0_1, GraphQLEnumType)", "not $0_0.startswith('__')"}, "$0_1"),
        "client_generators.input_types:InputTypesGenerator._filter_input_types": ({"isinstance($0_1, GraphQLInputObjectType)", "not $0_0.startswith('__')"}, "$0_1"),
        "client_generators.custom_fields_typing:CustomFieldsTypingGenerator._filter_types":
            ({"isinstance($0_1, GraphQLObjectType) or isinstance($0_1, GraphQLInterfaceType) or isinstance($0_1, GraphQLUnionType)", "not $0_0.startswith('__')", "$0_0 not in OPERATION_TYPES"},
             "get_final_type($0_1)"),
    }
    for k, (conds, elem) in table.items():
        fi = repo.func(k)
        outs = [o for o in Interp(fi, lambda e: None).run() if o.kind == "return" and o.value is not None]
        good = len(outs) == 1
        got = None
        if good:
            v = strip_pre(outs[0].deref(outs[0].value) if isinstance(outs[0].value, ast.Name) else outs[0].value)
            cs = comp_struct(v)
            good = cs is not None and len(cs[1]) == 1
            if good:
                el, gens = cs
                it, ifs = gens[0]
                node = v.generators[0]
                have = set()
                for c in node.ifs:
                    for cj in _conjuncts(c):
                        have.add(cj)
                # conditions, name-free
                import copy as _copy
                one = _copy.deepcopy(v)
                one.generators[0].ifs = [cj for c in node.ifs for cj in _conjuncts(c)]
                el2, gens2 = comp_struct(one)
                got = (str(el2), str(gens2[0][0]), sorted(str(c) for c in gens2[0][1]))
                good = el2 == elem and gens2[0][0] == "self.schema.type_map.items()" and len(gens2[0][1]) == len(conds) and all(any(c == w for c in gens2[0][1]) for w in conds)
        ctx.check(good, key(fi, "selection"), f"{fi.qualname} selects {got}; expected {elem} over self.schema.type_map.items() under {sorted(conds)}: "
                  "GraphQL reserves only the `__` prefix, so a schema type such as `_Service` / `_Any` (federation) must still be generated, and nothing of another kind may slip in", fi.loc(),
                  okmsg=f"{fi.qualname}: kind test + `__` prefix only")



@rule("C17.R7", "the configuration section is found under [tool.ariadne-codegen] or the deprecated top-level key; otherwise MissingConfiguration", min_instances=5)
def c17_r7(ctx):
    repo = ctx.repo
    fi = repo.func("config:get_section")
    p = fi.node.args.args[0].arg
    TOOL, CG_ = "'tool'", "'ariadne-codegen'"

    def mk(a, b, c):
        def atom(e):
            t = norm(strip_pre(e))
            if t == f"{TOOL} in {p}":
                return a
            if t == f"{TOOL} not in {p}":
                return not a
            if t in (f"{CG_} in {p}.get({TOOL}, {{}})", f"{CG_} in {p}[{TOOL}]", f"{CG_} in ({p}.get({TOOL}) or {{}})"):
                return b
            if t == f"{CG_} in {p}":
                return c
            if t == f"{CG_} not in {p}":
                return not c
            return None
        return atom
    nested = f"{p}[{TOOL}][{CG_}]"
    top = f"{p}[{CG_}]"
    table = [((True, True, False), nested, "[tool.ariadne-codegen] present"), ((True, True, True), nested, "both present: [tool.ariadne-codegen] wins"),
             ((True, False, True), top, "[tool.*] of other tools + deprecated top-level section"), ((False, False, True), top, "deprecated top-level section only"),
             ((True, False, False), None, "[tool.*] of other tools only"), ((False, False, False), None, "no section at all")]
    for (a, b, c), want, label in table:
        outs = Interp(fi, mk(a, b, c), implicit_raises=set()).run()
        if want is None:
            good = bool(outs) and all(o.kind == "raise" and o.exc == "MissingConfiguration" for o in outs)
        else:
            good = bool(outs) and all(o.kind == "return" and norm(strip_pre(o.deref(o.value) if isinstance(o.value, ast.Name) else o.value)) in (want, want + ".copy()", f"dict({want})") for o in outs)
        ctx.check(good, key(fi, label), f"{label}: expected {'MissingConfiguration' if want is None else want}, got {[o.text()[:100] for o in outs]}"
                  + (" (a pyproject.toml that configures other tools only must fail with MissingConfiguration, not KeyError)" if want is None else ""), fi.loc(),
                  okmsg=f"{label} -> {'MissingConfiguration' if want is None else want}")


@rule("C04.R12", "every bundled base client is shipped with the exceptions module it imports; defaults select the client the two flags name", min_instances=7,
      also=["C11", "C12", "C13", "C17"])
def c04_r12(ctx):
    repo = ctx.repo
    inc = repo.func(PG + "._include_exceptions")
    # the membership test that decides whether exceptions.py is copied
    members: Set[str] = set()
    for c in walk_no_nested(inc.node):
        if isinstance(c, ast.Compare) and len(c.ops) == 1 and isinstance(c.ops[0], ast.In) and norm(c.left) == "self.base_client_file_path":
            rhs = c.comparators[0]
            for e in getattr(rhs, "elts", []):
                members.add(dotted(e) or norm(e))
    if not members:
        raise AnalysisError("_include_exceptions: membership test on self.base_client_file_path not found")
    # (a) the bundled clients: files under dependencies/ that import from .exceptions and define a client class
    cm = repo.mod("client_generators.constants")
    bundled: Dict[str, str] = {}
    for name, vals in cm.assigns.items():
        if name.startswith("DEFAULT_") and name.endswith("_PATH"):
            txt = norm(vals[-1])
            fn_ = [x.value for x in ast.walk(vals[-1]) if isinstance(x, ast.Constant) and isinstance(x.value, str) and x.value.endswith(".py")]
            if fn_:
                bundled[name] = fn_[-1]
    for name, fname in sorted(bundled.items()):
        mod = next((m for m in repo.modules.values() if m.relpath.endswith("client_generators/dependencies/" + fname)), None)
        needs = mod is not None and any(isinstance(n, ast.ImportFrom) and n.level == 1 and n.module == "exceptions" for n in ast.walk(mod.tree))
        if not needs:
            ctx.ok(f"{name}: {fname} does not import the exceptions module")
            continue
        # the constants module spells the names through the original source text: compare by constant name
        src_names = {n for n in members}
        ctx.check(name in src_names or any(name == m.split(".")[-1] for m in src_names) or _const_in(repo, inc, name, members), key(inc, name),
                  f"{fname} (the default base client for one flag combination) does `from .exceptions import ...` but {name} is not in the list that makes "
                  f"_include_exceptions copy exceptions.py: the generated package fails to import (ModuleNotFoundError: .exceptions)", inc.loc(),
                  okmsg=f"{name}: exceptions.py shipped with {fname}")
    # (b) the default table of the settings: (async, telemetry) -> the constant named after exactly these flags
    sd = repo.func("settings:ClientSettings._set_default_base_client_data")
    tables = [n for n in ast.walk(sd.node) if isinstance(n, ast.Dict) and n.keys and all(isinstance(k, ast.Tuple) and len(k.elts) == 2 and all(isinstance(e, ast.Constant) for e in k.elts) for k in n.keys)]
    if len(tables) != 1 or len(tables[0].keys) != 4:
        raise AnalysisError("_set_default_base_client_data: the (async, telemetry) table was not found")
    src_mod = repo.mod("settings")
    orig = ast.parse(src_mod.source)
    otab = [n for n in ast.walk(orig) if isinstance(n, ast.Dict) and n.keys and all(isinstance(k, ast.Tuple) and len(k.elts) == 2 and all(isinstance(e, ast.Constant) for e in k.elts) for k in n.keys)]
    for k, v in zip(otab[0].keys, otab[0].values) if otab else []:
        a, o = k.elts[0].value, k.elts[1].value
        names = [dotted(e) for e in getattr(v, "elts", [])]
        good = len(names) == 2 and all(n for n in names) and all((("ASYNC" in n) == bool(a)) and (("OPEN_TELEMETRY" in n) == bool(o)) for n in names) \
            and names[0].endswith("_PATH") and names[1].endswith("_NAME")
        ctx.check(good, key(sd, f"default async={a} telemetry={o}"), f"async_client={a}, opentelemetry_client={o} selects {names}: the base client file / class must be the one named after exactly these flags "
                  "(otherwise a sync package is built on the async base client or telemetry is silently dropped)", sd.loc(), okmsg=f"async={a} telemetry={o} -> {names}")


def _const_in(repo, fi, name: str, members: Set[str]) -> bool:
    """constants are folded by the loader: compare by value"""
    cm = repo.mod("client_generators.constants")
    vals = cm.assigns.get(name)
    if not vals:
        return False
    want = norm(vals[-1])
    return any(m == want or want in m for m in members)


@rule("C04.R13", "the class a client method imports and returns is the root class its result module defines", min_instances=3, also=["C01", "C12", "C18", "C02"])
def c04_r13(ctx):
    repo = ctx.repo
    # producer: the root class of a result module
    rt = repo.cls("client_generators.result_types:ResultTypesGenerator")
    init = rt.methods["__init__"]
    envi = {norm(st.targets[0]): st.value for st in ast.walk(init.node) if isinstance(st, ast.Assign) and len(st.targets) == 1}
    roots = [c for c in ast.walk(init.node) if isinstance(c, ast.Call) and norm(c.func) == "self._parse_type_definition" and kw(c, "class_name") is not None]
    if len(roots) != 1:
        raise AnalysisError(f"ResultTypesGenerator.__init__: {len(roots)} root _parse_type_definition calls")
    rc = kw(roots[0], "class_name")
    inner = allargs(rc)[0] if isinstance(rc, ast.Call) and dotted(rc.func) == "str_to_pascal_case" and allargs(rc) else None
    inner = envi.get(norm(inner), inner) if inner is not None else None
    good = inner is not None and norm(inner) == "self.operation_definition.name.value"
    ctx.check(good, key(init, "root class"), f"the root class of a result module is named {norm(rc)[:80]}; expected str_to_pascal_case(<operation name>)", init.loc(roots[0]),
              okmsg="result module: root class = PascalCase(operation name)")
    # consumer: what add_operation tells the client generator to import
    ao = repo.func(PG + ".add_operation")
    outs = [o for o in Interp(ao, lambda e: (False if norm(strip_pre(e)) in ("not name", "not definition.name") else True if norm(strip_pre(e)) in ("name", "definition.name") else None),
                               is_effect=lambda c: norm(c.func) == "self.client_generator.add_method").run() if o.kind != "raise"]
    vals = set()
    mods = set()
    for o in outs:
        for e in o.effects:
            e = strip_pre(e)
            v = kw(e, "return_type")
            m = kw(e, "return_type_module")
            from ..absint import subst as _sb
            if v is not None:
                vals.add(norm(strip_pre(_sb(v, o.env, deep=True))))
            if m is not None:
                mods.add(norm(strip_pre(_sb(m, o.env, deep=True))))
    ctx.check(vals == {"str_to_pascal_case(definition.name.value)"} or vals == {"str_to_pascal_case(name=definition.name.value)"}, key(ao, "return type"),
              f"the client method returns / imports {sorted(vals)}; the result module defines str_to_pascal_case(<operation name>) - any other derivation (from the snake-cased method name, say) "
              "names a class that does not exist for names such as `getHTTPStatus` (ImportError in client.py)", ao.loc(), okmsg="client: return type = PascalCase(operation name)")
    # the module it is imported from is the module the result types are written to
    stores = [st for st in walk_no_nested(ao.node) if isinstance(st, ast.Assign) and norm(st.targets[0]).startswith("self._result_types_files[")]
    fnm = strip_pre(stores[0].targets[0].slice) if stores else None
    fnm_v = None
    for o in outs:
        if isinstance(fnm, ast.Name) and o.env.get(fnm.id) is not None:
            from ..absint import subst as _sb2
            fnm_v = norm(strip_pre(_sb2(o.env[fnm.id], o.env, deep=True)))
    ctx.check(len(mods) == 1 and fnm_v is not None and fnm_v == "f'{" + sorted(mods)[0] + "}.py'", key(ao, "return type module"),
              f"the client imports the return type from {sorted(mods)} but the result types are written to {fnm_v}", ao.loc(), okmsg="client imports the return type from the module that is written")


@rule("C02.R8", "ClientGenerator.add_method builds the method flavour the operation needs, hands it every piece, appends it to the client class and imports its return type",
      min_instances=7, also=["C03", "C04", "C12", "C13"])
def c02_r8(ctx):
    repo = ctx.repo
    fi = repo.func("client_generators.client:ClientGenerator.add_method")
    eff = lambda c: norm(c.func) in ("self._class_def.body.append", "self._add_import", "self._class_def.body.insert", "self._class_def.body.extend")
    table = [((True, True), "self._generate_subscription_method_def"), ((False, True), "self._generate_async_method"), ((False, False), "self._generate_method"), ((True, False), None)]
    for (sub, asy), builder in table:
        def atom(e, sub=sub, asy=asy):
            t = norm(strip_pre(e))
            if t in ("definition.operation == OperationType.SUBSCRIPTION", "definition.operation is OperationType.SUBSCRIPTION"):
                return sub
            if t in ("definition.operation != OperationType.SUBSCRIPTION", "definition.operation is not OperationType.SUBSCRIPTION"):
                return not sub
            if t == "async_":
                return asy
            if t == "not async_":
                return not asy
            if t == "self.plugin_manager":
                return False
            if t == "definition.name":
                return True
            return None
        outs = Interp(fi, atom, is_effect=eff).run()
        sc = f"subscription={'yes' if sub else 'no'} async={'yes' if asy else 'no'}"
        if builder is None:
            ctx.check(bool(outs) and all(o.kind == "raise" and o.exc == "NotSupported" and not o.effects for o in outs), key(fi, sc),
                      f"[{sc}] a subscription cannot be served by the sync client: NotSupported must be raised before anything is added; got {[o.text()[:90] for o in outs]}", fi.loc(),
                      okmsg=f"[{sc}] -> NotSupported, nothing added")
            continue
        outs = [o for o in outs if o.kind != "raise"]
        good = len(outs) == 1
        probs = []
        if not good:
            probs.append(f"{len(outs)} paths")
        else:
            o = outs[0]
            effs = [strip_pre(e) for e in o.effects]
            apps = [e for e in effs if norm(e.func) == "self._class_def.body.append"]
            imps = [e for e in effs if norm(e.func) == "self._add_import"]
            md = strip_pre(o.deref(allargs(apps[0])[0])) if len(apps) == 1 and allargs(apps[0]) else None
            if len(apps) != 1 or not (isinstance(md, ast.Call) and norm(md.func) == builder):
                probs.append(f"the method appended to the client class is {norm(md)[:80] if md is not None else [norm(a)[:60] for a in apps]}, expected the result of {builder}")
            else:
                want = {"name": "name", "return_type": "return_type", "arguments": "<arguments>", "arguments_dict": "<arguments_dict>", "operation_str": "operation_str",
                        "operation_name": "definition.name.value", "variable_names": "<variable_names>"}
                for k_, w in want.items():
                    v = kw(md, k_)
                    if v is None:
                        probs.append(f"{builder} is called without `{k_}`")
                        continue
                    t = norm(strip_pre(o.deref(v)) if isinstance(v, ast.Name) and k_ in ("operation_name",) else v)
                    if w.startswith("<"):
                        continue
                    if t != w and not (k_ == "operation_name" and t in ("definition.name.value", "definition.name.value if definition.name else ''")):
                        probs.append(f"{builder}({k_}={t[:50]}), expected {w}")
            if len(imps) != 1 or norm(allargs(imps[0])[0] if allargs(imps[0]) else ast.Constant(0)) not in (
                    "generate_import_from(names=[return_type], from_=return_type_module, level=1)",):
                probs.append(f"the return type is not imported from its module: {[norm(i)[:100] for i in imps]}")
        ctx.check(not probs, key(fi, sc), f"[{sc}] " + "; ".join(probs), fi.loc(), okmsg=f"[{sc}] -> {builder}, appended, return type imported")
    # arguments / variable names feed the builders from the same generator call
    src = norm(fi.node)
    ctx.check("self.arguments_generator.generate(variable_definitions=definition.variable_definitions)" in src or "self.arguments_generator.generate(definition.variable_definitions)" in src,
              key(fi, "arguments source"), "method arguments are not generated from the operation's own variable definitions", fi.loc(), okmsg="arguments <- definition.variable_definitions")
    # an anonymous operation gets the empty operation name
    outs = [o for o in Interp(fi, lambda e: (False if norm(strip_pre(e)) == "definition.name" else False if norm(strip_pre(e)) in ("self.plugin_manager",) else
                                           True if norm(strip_pre(e)) == "async_" else False if "SUBSCRIPTION" in norm(strip_pre(e)) else None), is_effect=eff).run() if o.kind != "raise"]
    good = bool(outs)
    for o in outs:
        apps = [strip_pre(e) for e in o.effects if norm(strip_pre(e).func) == "self._class_def.body.append"]
        md = strip_pre(o.deref(allargs(apps[0])[0])) if apps else None
        v = kw(md, "operation_name") if isinstance(md, ast.Call) else None
        v = strip_pre(o.deref(v)) if isinstance(v, ast.Name) else v
        good = good and v is not None and norm(v) in ("''", '""')
    ctx.check(good, key(fi, "anonymous operation"), "an operation without a name must be sent with operation_name ''", fi.loc(), okmsg="anonymous operation -> operation_name ''")
    # the plugin hook, when present, replaces the method that is appended
    outs = [o for o in Interp(fi, lambda e: (True if norm(strip_pre(e)) in ("self.plugin_manager", "definition.name", "async_") else False if "SUBSCRIPTION" in norm(strip_pre(e)) else None), is_effect=eff).run() if o.kind != "raise"]
    good = bool(outs)
    for o in outs:
        apps = [strip_pre(e) for e in o.effects if norm(strip_pre(e).func) == "self._class_def.body.append"]
        md = strip_pre(o.deref(allargs(apps[0])[0])) if apps else None
        good = good and isinstance(md, ast.Call) and norm(md.func) == "self.plugin_manager.generate_client_method" and "operation_definition=definition" in norm(md)
    ctx.check(good, key(fi, "plugin hook"), "with plugins the appended method must be what generate_client_method(method_def, operation_definition=definition) returns", fi.loc(),
              okmsg="plugins: hook result is what is appended")
