"""configuration options are threaded unchanged: when a function (or the class of a method) holds an option and calls
something that takes the option of the same name, it passes its own value.

The rule instances are call sites of the resolved call graph (sa.callgraph), not text: callee parameter positions come
from the callee's signature, keywords and positions are both read, constructors resolve to __init__.  An option
silently dropped (callee falls back to its default) or replaced is the usual way one generator ends up configured
differently from its siblings (names converted in one module and not in the other, a scalar typed in results and Any in
inputs, the wrong type-map variable in one constructor)."""
from __future__ import annotations

import ast
from typing import Dict, List, Optional, Set, Tuple

from ..callgraph import CallGraph
from ..model import AnalysisError, FuncInfo, norm
from ..report import rule
from ..util import key, strip_pre

# (caller qualname, callee qualname, option) -> reason: call sites that deliberately pass something else, confirmed by reading
EXCEPTIONS = {
    ("PackageGenerator.add_operation", "process_name", "convert_to_snake_case"):
        "operation names become module and method names: always snake-cased, whatever the option says for fields",
    ("ArgumentGenerator.generate_arguments", "process_name", "plugin_manager"):
        "custom-operation argument names were never offered to plugins (upstream behaviour; no property names this hook)",
    ("CustomFieldsGenerator._generate_class_def_body", "process_name", "plugin_manager"):
        "custom-operation field names were never offered to plugins (upstream behaviour)",
}

_CG: Dict[int, CallGraph] = {}


def _cg(repo) -> CallGraph:
    if id(repo) not in _CG:
        _CG.clear()
        _CG[id(repo)] = CallGraph(repo)
    return _CG[id(repo)]


def _params(fi: FuncInfo) -> Tuple[List[str], List[str]]:
    a = fi.node.args
    ps = [x.arg for x in a.posonlyargs + a.args]
    if fi.cls is not None and ps and ps[0] in ("self", "cls") and not any(norm(d) == "staticmethod" for d in fi.node.decorator_list):
        ps = ps[1:]
    return ps, [x.arg for x in a.kwonlyargs]


def _self_attrs(repo, ci) -> Dict[str, List[ast.AST]]:
    out: Dict[str, List[ast.AST]] = {}
    for c in reversed(repo.mro(ci)):
        for nm in ("__init__", "__post_init__"):
            m = c.methods.get(nm)
            if m is None:
                continue
            for st in ast.walk(m.node):
                if isinstance(st, (ast.Assign, ast.AnnAssign)) and st.value is not None:
                    for t in (st.targets if isinstance(st, ast.Assign) else [st.target]):
                        if isinstance(t, ast.Attribute) and isinstance(t.value, ast.Name) and t.value.id == "self":
                            out.setdefault(t.attr, []).append(st.value)
        for name, _ann, _ in c.fields():
            out.setdefault(name, [])
    return out


def _mentions(e: ast.AST, texts: List[str]) -> bool:
    """the value is the caller's option or derived from it (`opt or {}`, `dict(opt)`, `opt if opt else ...`)"""
    for n in ast.walk(strip_pre(e)):
        if isinstance(n, (ast.Name, ast.Attribute)) and norm(n) in texts:
            return True
    return False


def threaded(ctx, options: Set[str], why: Dict[str, str]):
    repo = ctx.repo
    cg = _cg(repo)
    n = 0
    for fi in repo.all_functions():
        cps, ckw = _params(fi)
        have = set(cps) | set(ckw)
        # a local of the same name, bound once in the function, counts as holding the option (main.client builds the plugin manager)
        bound: Dict[str, int] = {}
        for st in ast.walk(fi.node):
            if isinstance(st, ast.Assign):
                for t in st.targets:
                    if isinstance(t, ast.Name):
                        bound[t.id] = bound.get(t.id, 0) + 1
        have |= {n_ for n_, k_ in bound.items() if k_ >= 1 and n_ in options}
        sat = _self_attrs(repo, fi.cls) if fi.cls is not None and cps is not None and fi.node.args.args and fi.node.args.args[0].arg == "self" else {}
        for c, targets in cg.callees(fi):
            for t in targets:
                if t.node.name == "__post_init__":
                    continue
                ps, kwo = _params(t)
                for i, p in enumerate(ps + kwo):
                    if p not in options or not (p in have or p in sat):
                        continue
                    if fi.node.name in ("__init__", "__post_init__") and p not in have and p not in sat:
                        continue
                    val = None
                    for k in c.keywords:
                        if k.arg == p:
                            val = k.value
                    starred = any(isinstance(a, ast.Starred) for a in c.args) or any(k.arg is None for k in c.keywords)
                    if val is None and i < len(ps) and i < len(c.args) and not any(isinstance(a, ast.Starred) for a in c.args[:i + 1]):
                        val = c.args[i]
                    if val is None and starred:
                        continue  # forwarded wholesale through * / **: not decidable per option here
                    exp = ([p] if p in have else []) + ([f"self.{p}"] if p in sat else [])
                    ex = EXCEPTIONS.get((fi.qualname, t.qualname, p))
                    n += 1
                    kk = key(fi, f"{t.qualname}({p}=)")
                    if ex is not None:
                        ctx.ok(f"{fi.qualname} -> {t.qualname}: {p} (tabled: {ex[:70]})", fi.loc(c))
                        continue
                    if val is None:
                        ctx.fail(kk, f"{fi.qualname} holds `{p}` ({' / '.join(exp)}) but calls {t.qualname} without it, so the callee falls back to its default: {why.get(p, '')}", fi.loc(c))
                    elif not _mentions(val, exp):
                        ctx.fail(kk, f"{fi.qualname} holds `{p}` ({' / '.join(exp)}) but passes `{norm(val)[:80]}` to {t.qualname}: {why.get(p, '')}", fi.loc(c))
                    else:
                        ctx.ok(f"{fi.qualname} -> {t.qualname}: {p}={norm(val)[:60]}", fi.loc(c))
    # constructors keep what they are given: self.P is (derived from) the parameter P
    for ci in repo.all_classes():
        init = ci.methods.get("__init__")
        if init is None:
            continue
        ps, kwo = _params(init)
        stored = _self_attrs(repo, ci)
        for p in ps + kwo:
            if p in options and p in stored and any(isinstance(st, (ast.Assign, ast.AnnAssign)) and any(norm(t) == f"self.{p}" for t in (st.targets if isinstance(st, ast.Assign) else [st.target])) for st in ast.walk(init.node)):
                n += 1
                ctx.check(any(_mentions(v, [p]) for v in stored[p]), key(init, f"self.{p}"), f"{ci.node.name}.__init__ stores `{' / '.join(norm(v)[:60] for v in stored[p])}` as self.{p}, not its `{p}` argument: {why.get(p, '')}", init.loc(),
                          okmsg=f"{ci.node.name}.__init__ keeps {p}")
    return n


WHY = {
    "type_map_name": "lazy references between types are emitted as <type map variable>[name]; another name makes the generated schema module fail at import (NameError)",
    "schema_variable_name": "the configured schema variable is not the one defined by the generated module",
    "custom_scalars": "a configured scalar is typed / parsed / serialised in one place and treated as Any in the other",
    "convert_to_snake_case": "field names are converted in one generated module and kept verbatim in another, so models and payload keys disagree",
    "plugin_manager": "plugin hooks do not fire for this part of the package",
    "fragments_definitions": "fragment spreads cannot be resolved for this part of the package",
    "async_client": "sync and async flavours are mixed in one client",
    "config_dict": "plugins that read their own section of the configuration (ExtractOperations, ShorterResults module names) see an empty configuration",
}


@rule("C16.R6", "the type-map / schema variable names are threaded unchanged through every schema-module generator", min_instances=20)
def c16_r6(ctx):
    threaded(ctx, {"type_map_name", "schema_variable_name"}, WHY)


@rule("C07.R6", "custom_scalars reaches every generator that types, parses or serialises values", min_instances=12, also=["C03", "C05", "C06"])
def c07_r6(ctx):
    threaded(ctx, {"custom_scalars"}, WHY)


@rule("C18.R9", "convert_to_snake_case reaches every generator that names fields, arguments or members", min_instances=12, also=["C01", "C03", "C06", "C14"])
def c18_r9(ctx):
    threaded(ctx, {"convert_to_snake_case"}, WHY)


@rule("C15.R10", "the plugin manager reaches every generator that fires hooks", min_instances=24)
def c15_r10(ctx):
    threaded(ctx, {"plugin_manager", "config_dict"}, WHY)


@rule("C04.R10", "module names, imports and fragment tables given to the package generator reach the generators that emit imports", min_instances=45,
      also=["C01", "C08", "C09", "C02", "C12"])
def c04_r10(ctx):
    threaded(ctx, {"base_model_import", "enums_module_name", "fragments_module_name", "input_types_module_name", "fragments_definitions", "schema", "async_client",
                   "default_optional_fields_to_any", "include_typename", "scalars_module_name", "unset_import", "upload_import", "operation_definition"}, WHY)


# callee parameter -> attribute of the settings object that configures it, where the two are spelled differently
# (confirmed by reading main.py / package.get_package_generator; identity pairs need no entry)
SETTINGS_RENAMES = {
    ("*", "custom_scalars"): "scalars",
    ("PackageGenerator.__init__", "package_name"): "target_package_name",
    ("PackageGenerator.__init__", "target_path"): "target_package_path",
    ("PackageGenerator.__init__", "comments_strategy"): "include_comments",
    ("PackageGenerator.__init__", "queries_source"): "queries_path",
    ("generate_graphql_schema_python_file", "type_map_name"): "type_map_variable_name",
    ("get_graphql_schema_from_url", "url"): "remote_schema_url",
    ("get_graphql_schema_from_url", "headers"): "remote_schema_headers",
    ("get_graphql_schema_from_url", "verify_ssl"): "remote_schema_verify_ssl",
    ("get_plugins_types", "plugins_strs"): "plugins",
    ("ClientGenerator.__init__", "name"): "client_name",
    ("ClientGenerator.__init__", "base_client"): "base_client_name",
    ("InputTypesGenerator.__init__", "enums_module"): "enums_module_name",
}


def _settings_fields(repo) -> Set[str]:
    out: Set[str] = set()
    for cn in ("ClientSettings", "GraphQLSchemaSettings", "BaseSettings"):
        ci = repo.cls("settings:" + cn)
        for c in repo.mro(ci):
            for name, _ann, _ in c.fields():
                out.add(name)
    return out


@rule("C17.R8", "every setting reaches the parameter it configures (same name, or the tabled rename), at every constructor / loader call of the entry points", min_instances=40,
      also=["C01", "C03", "C04", "C05", "C06", "C07", "C08", "C09", "C10", "C11", "C12", "C13", "C14", "C15", "C16", "C18", "C19"])
def c17_r8(ctx):
    repo = ctx.repo
    cg = _cg(repo)
    fields = _settings_fields(repo)
    n = 0
    for fi in repo.all_functions():
        a = fi.node.args
        has = any(x.arg == "settings" for x in a.posonlyargs + a.args + a.kwonlyargs) or any(
            isinstance(st, ast.Assign) and any(isinstance(t, ast.Name) and t.id == "settings" for t in st.targets) for st in ast.walk(fi.node))
        if not has or fi.module.short.startswith("client_generators.dependencies"):
            continue
        for c, targets in cg.callees(fi):
            for t in targets:
                if t.node.name == "__post_init__" or t.module.short == "settings":
                    continue
                ps, kwo = _params(t)
                for i, p in enumerate(ps + kwo):
                    attr = SETTINGS_RENAMES.get((t.qualname, p)) or SETTINGS_RENAMES.get(("*", p)) or (p if p in fields else None)
                    if attr is None or attr not in fields:
                        continue
                    val = None
                    for k in c.keywords:
                        if k.arg == p:
                            val = k.value
                    if val is None and i < len(ps) and i < len(c.args) and not any(isinstance(x, ast.Starred) for x in c.args[:i + 1]):
                        val = c.args[i]
                    if val is None and (any(isinstance(x, ast.Starred) for x in c.args) or any(k.arg is None for k in c.keywords)):
                        continue
                    # a value that is itself built from other settings (a nested constructor) is judged at that constructor
                    reads = {n_.attr for n_ in ast.walk(val) if isinstance(n_, ast.Attribute) and isinstance(n_.value, ast.Name) and n_.value.id == "settings"} if val is not None else set()
                    n += 1
                    kk = key(fi, f"{t.qualname}({p}=)")
                    if val is None:
                        ctx.fail(kk, f"{fi.qualname} configures {t.qualname} but does not pass `{p}` (settings.{attr}): the generator silently runs with its default instead of the user's setting", fi.loc(c))
                    elif attr not in reads and not (isinstance(val, ast.Name) and val.id not in ("settings",)):
                        ctx.fail(kk, f"{fi.qualname} passes `{norm(val)[:70]}` as `{p}` of {t.qualname}; it is configured by settings.{attr}", fi.loc(c))
                    else:
                        ctx.ok(f"{fi.qualname} -> {t.qualname}: {p} <- settings.{attr}", fi.loc(c))
    return n


# ====================================================================== parameter defaults
_DEFAULTS = None
_ANCHORS = None


def _defaults_table() -> Dict[str, Dict[str, str]]:
    global _DEFAULTS
    if _DEFAULTS is None:
        import json
        import os
        _DEFAULTS = json.load(open(os.path.join(os.path.dirname(os.path.dirname(os.path.abspath(__file__))), "defaults.json")))
    return _DEFAULTS


def _anchor_files(prop: str) -> List[str]:
    """source files the property is anchored in (properties.jsonl), as fnmatch patterns"""
    global _ANCHORS
    if _ANCHORS is None:
        import json
        import os
        import re
        _ANCHORS = {}
        root = os.path.dirname(os.path.dirname(os.path.dirname(os.path.abspath(__file__))))
        for line in open(os.path.join(root, "properties.jsonl")):
            d = json.loads(line)
            files = set(f for f in d.get("anchors", {}).get("files", []) if isinstance(f, str))
            mech = d.get("anchors", {}).get("mechanism")
            for m_ in mech if isinstance(mech, list) else []:
                w = m_.get("where", "") if isinstance(m_, dict) else ""
                files |= set(re.findall(r"ariadne_codegen/[\\w/\\*\\.]+\\.py", w))
            _ANCHORS[d["id"]] = sorted(files)
    return _ANCHORS.get(prop, [])


@rule("C04.R16", "a parameter default that some call site relies on keeps its confirmed value (a flipped default silently reconfigures every caller that omits the argument)",
      min_instances=1, also=["C01", "C02", "C03", "C05", "C06", "C07", "C08", "C09", "C10", "C11", "C12", "C13", "C14", "C15", "C16", "C17", "C18", "C19"])
def c04_r16(ctx):
    import fnmatch
    repo = ctx.repo
    cg = _cg(repo)
    table = _defaults_table()
    pats = _anchor_files(ctx.prop)
    # which (function, parameter) pairs are omitted by at least one call site of the repository
    omitted: Dict[Tuple[str, str], List[Tuple[FuncInfo, ast.Call]]] = {}
    for fi in repo.all_functions():
        for c, targets in cg.callees(fi):
            if any(isinstance(a_, ast.Starred) for a_ in c.args) or any(k.arg is None for k in c.keywords):
                continue
            for t in targets:
                if t.key not in table:
                    continue
                ps, kwo = _params(t)
                given = {k.arg for k in c.keywords} | set(ps[:len(c.args)])
                for p in table[t.key]:
                    if p not in given:
                        omitted.setdefault((t.key, p), []).append((fi, c))
    n = 0
    for fkey, params in sorted(table.items()):
        short, q = fkey.split(":")
        m = repo.modules.get("ariadne_codegen." + short) or repo.modules.get(short)
        fi = m.functions.get(q) if m is not None else None
        if fi is None:
            continue            # moved / removed functions are the business of the rules anchored in them
        if ctx.prop != "C04" and pats and not any(fnmatch.fnmatch(fi.module.relpath, p_) for p_ in pats):
            continue
        a = fi.node.args
        pos = a.posonlyargs + a.args
        cur = {p.arg: str(norm(dv)) for p, dv in zip(pos[len(pos) - len(a.defaults):], a.defaults)}
        cur.update({p.arg: str(norm(dv)) for p, dv in zip(a.kwonlyargs, a.kw_defaults) if dv is not None})
        public_api = fi.module.short.startswith("client_generators.dependencies") and not fi.node.name.startswith("_")
        for p, want in sorted(params.items()):
            users = omitted.get((fkey, p), [])
            if not users and not public_api:
                continue        # every caller passes it: the default is dead
            n += 1
            got = cur.get(p, "<no default>")
            if got == want:
                ctx.ok(f"{fi.qualname}({p}={want}) - relied on by {len(users)} call site(s)" + (" and by users of the shipped client" if public_api else ""), fi.loc())
            else:
                who = users[0][0].qualname if users else "callers of the shipped runtime API"
                ctx.fail(key(fi, f"default {p}"), f"{fi.qualname}: default of `{p}` is {got}, confirmed value {want}; {len(users)} call site(s) omit the argument (e.g. {who}) and now run with the other value", fi.loc())
    if n == 0:
        ctx.ok("no relied-upon parameter default in the files this property is anchored in")
    return n


@rule("C04.R18", "a function annotated to return a value returns one on every path (no bare `return`, no `return None`, no falling off the end)", min_instances=5,
      also=["C01", "C02", "C03", "C05", "C06", "C07", "C08", "C09", "C10", "C11", "C12", "C13", "C14", "C15", "C16", "C17", "C18", "C19"])
def c04_r18(ctx):
    import fnmatch
    from ..util import cfg_of
    repo = ctx.repo
    pats = _anchor_files(ctx.prop)
    n = 0
    for fi in repo.all_functions():
        if ctx.prop != "C04" and pats and not any(fnmatch.fnmatch(fi.module.relpath, p_) for p_ in pats):
            continue
        ann = fi.node.returns
        if ann is None:
            continue
        at = ast.unparse(ann)
        if any(w in at for w in ("None", "Optional", "Any", "Generator", "Iterator", "NoReturn", "Never")):
            continue
        if any(isinstance(x, (ast.Yield, ast.YieldFrom)) for x in ast.walk(fi.node)):
            continue
        body = [s_ for s_ in fi.node.body if not (isinstance(s_, ast.Expr) and isinstance(s_.value, ast.Constant))]
        if not body or all(isinstance(s_, (ast.Pass, ast.Raise)) or (isinstance(s_, ast.Expr) and isinstance(s_.value, ast.Constant)) for s_ in body):
            continue            # stubs / abstract methods
        n += 1
        bad = []
        nested = {id(x) for f_ in ast.walk(fi.node) if f_ is not fi.node and isinstance(f_, (ast.FunctionDef, ast.AsyncFunctionDef, ast.Lambda)) for x in ast.walk(f_)}
        for r in ast.walk(fi.node):
            if isinstance(r, ast.Return) and id(r) not in nested and (r.value is None or (isinstance(r.value, ast.Constant) and r.value.value is None)):
                bad.append(f"`return{'' if r.value is None else ' None'}` at line {getattr(r, 'lineno', '?')}")
        try:
            g = cfg_of(fi)
            falls = [g.nodes[i] for i in g.pred().get(g.exit.id, []) if g.nodes[i].kind != "return"]
            reach = g.reach([g.entry])
            falls = [x for x in falls if x.id in reach]
            if falls:
                bad.append(f"falls off the end after line {falls[0].lineno}")
        except Exception:
            pass
        if bad:
            ctx.fail(key(fi, "returns a value"), f"{fi.qualname} is declared `-> {at}` but {'; '.join(bad[:2])}: callers get None where they use the result", fi.loc())
        else:
            ctx.ok(f"{fi.qualname} -> {at[:40]}: every path returns a value", fi.loc())
    if n == 0:
        ctx.ok("no function with a value-typed return annotation in the files this property is anchored in")


def _falsy_literal(e: ast.AST) -> bool:
    e = e.value if isinstance(e, ast.Starred) else e
    if isinstance(e, ast.Constant):
        return e.value is None or e.value is False or e.value == "" or e.value == 0 or e.value == b""
    if isinstance(e, (ast.List, ast.Tuple, ast.Set)):
        return not e.elts
    if isinstance(e, ast.Dict):
        return not e.keys
    if isinstance(e, ast.Call) and isinstance(e.func, ast.Name) and e.func.id in ("dict", "list", "set", "tuple", "frozenset", "str") and not e.args and not e.keywords:
        return True
    return False


@rule("C04.R19", "defaulting idioms keep the value they default: `x or <empty>` / `x if x else <empty>` - never `x and <empty>` or the arms swapped, which is empty whatever x is", min_instances=1,
      also=["C01", "C02", "C03", "C05", "C06", "C07", "C08", "C09", "C10", "C11", "C12", "C13", "C14", "C15", "C16", "C17", "C18", "C19"])
def c04_r19(ctx):
    import fnmatch
    repo = ctx.repo
    pats = _anchor_files(ctx.prop)
    n = 0
    for fi in repo.all_functions():
        if ctx.prop != "C04" and pats and not any(fnmatch.fnmatch(fi.module.relpath, p_) for p_ in pats):
            continue
        nested = {id(x) for f_ in ast.walk(fi.node) if f_ is not fi.node and isinstance(f_, (ast.FunctionDef, ast.AsyncFunctionDef)) for x in ast.walk(f_)}
        for e in ast.walk(fi.node):
            if id(e) in nested:
                continue
            if isinstance(e, ast.If) and len(e.body) == 1 and len(e.orelse) == 1 and all(isinstance(s_, (ast.Assign, ast.AnnAssign)) and s_.value is not None for s_ in (e.body[0], e.orelse[0])):
                # `T = a if t else b` in its statement form (the loader's normal form for conditional assignments)
                tg = lambda s_: norm(s_.target if isinstance(s_, ast.AnnAssign) else s_.targets[0])
                if tg(e.body[0]) == tg(e.orelse[0]):
                    e = ast.copy_location(ast.IfExp(test=e.test, body=e.body[0].value, orelse=e.orelse[0].value), e)
            if isinstance(e, ast.BoolOp) and _falsy_literal(e.values[-1]) and not any(_falsy_literal(v) for v in e.values[:-1]):
                n += 1
                what = norm(e)
                if isinstance(e.op, ast.And):
                    ctx.fail(key(fi, f"default {norm(e.values[0])[:40]}"), f"`{what[:100]}` is {norm(e.values[-1])} for every value of `{norm(e.values[0])[:60]}`: the value it should default is thrown away", fi.loc(e))
                else:
                    ctx.ok(f"{fi.qualname}: `{what[:80]}` keeps the value, defaults the missing one", fi.loc(e))
            elif isinstance(e, ast.IfExp) and (_falsy_literal(e.body) or _falsy_literal(e.orelse)) and not (_falsy_literal(e.body) and _falsy_literal(e.orelse)):
                t = e.test
                neg = False
                while isinstance(t, ast.UnaryOp) and isinstance(t.op, ast.Not):
                    t, neg = t.operand, not neg
                if isinstance(t, ast.Compare) and len(t.ops) == 1 and isinstance(t.ops[0], (ast.Is, ast.IsNot)) and isinstance(t.comparators[0], ast.Constant) and t.comparators[0].value is None:
                    neg = neg != isinstance(t.ops[0], ast.Is)
                    t = t.left
                kept, lit = (e.orelse, e.body) if _falsy_literal(e.body) else (e.body, e.orelse)
                if norm(t) != norm(kept):
                    continue        # not the defaulting idiom (`a if flag else None`)
                n += 1
                # value is present (test true, not negated) -> must yield the kept arm
                yields_kept_when_present = (kept is e.body) != neg
                if yields_kept_when_present:
                    ctx.ok(f"{fi.qualname}: `{norm(e)[:80]}` keeps the value, defaults the missing one", fi.loc(e))
                else:
                    ctx.fail(key(fi, f"default {norm(kept)[:40]}"), f"`{norm(e)[:100]}` yields {norm(lit)} exactly when `{norm(kept)[:60]}` is present, and the missing value otherwise: arms swapped", fi.loc(e))
    if n == 0:
        ctx.ok("no defaulting idiom in the files this property is anchored in")
