"""C10: generation is deterministic and idempotent (sufficient condition by order-taint)."""
from __future__ import annotations

import ast
from typing import Dict, List, Optional, Tuple

from ..model import FuncInfo, dotted, norm, walk_no_nested
from ..report import rule
from ..settypes import SetKinds
from ..util import allargs, key, strip_pre

EXCLUDE_PREFIX = ("client_generators.dependencies",)  # runtime files copied verbatim, not part of generation

# Ordered uses of unordered collections that were triaged by reading and found to
# feed only order-insensitive sinks.  Keyed by (module, function, iterated expression).
# The reason is re-checked structurally where a `check` is named.
TABLE: Dict[Tuple[str, str, str], Dict[str, str]] = {
    ("client_generators.fragments", "FragmentsGenerator.generate", "self._fragments_names"): {
        "reason": "per-fragment results go to dicts read by sorted names, import lists (isort), public names (import names / sorted __all__), "
                  "used-enum membership lists, and top_level_class_names which is re-sorted by class position",
        "check": "fragments_generate_sinks"},
    ("client_generators.result_types", "ResultTypesGenerator._get_all_related_fragments", "self._fragments_used_as_mixins"): {
        "reason": "loop only unions into a set", "check": "loop_builds_set"},
    ("client_generators.result_types", "ResultTypesGenerator._get_typename_values", "set(possible_types_names) - set(types_names)"): {
        "reason": "values feed generate_typename_annotation, which sorts them", "check": "typename_sorted"},
    ("client_generators.result_types", "ResultTypesGenerator._add_enums_scalars_fragments_imports", "self._fragments_used_as_mixins"): {
        "reason": "names of one ImportFrom statement; isort orders imported names", "check": "import_names"},
    ("contrib.client_forward_refs", "ClientForwardRefsPlugin._add_forward_ref_imports", "self.input_and_return_types"): {
        "reason": "ImportFrom statements under `if TYPE_CHECKING:`; isort orders statements and names inside the block", "check": "import_names"},
    ("contrib.shorter_results", "ShorterResultsPlugin.generate_client_module", "self.extended_imports[stmt.module]"): {
        "reason": "extends the names of an ImportFrom statement; isort orders imported names", "check": "import_names"},
    ("contrib.shorter_results", "ShorterResultsPlugin.generate_client_module", "alias"): {
        "reason": "names of one ImportFrom statement; isort orders imported names", "check": "import_names"},
}


def _ordered_uses(fi: FuncInfo, sk: SetKinds):
    """yield (node, iterated expr, how) for every ordered consumption of an unordered collection"""
    env = sk.local_kinds(fi)
    out = []

    def kind(e):
        return sk.expr_kind(e, fi, env)

    for n in walk_no_nested(fi.node):
        if isinstance(n, (ast.For, ast.AsyncFor)):
            if kind(n.iter) in ("set", "fsorder"):
                out.append((n, n.iter, "for"))
        elif isinstance(n, (ast.ListComp, ast.GeneratorExp, ast.DictComp, ast.SetComp)):
            for g in n.generators:
                if kind(g.iter) in ("set", "fsorder"):
                    out.append((n, g.iter, "comp-set" if isinstance(n, ast.SetComp) else "comp"))
        elif isinstance(n, ast.Call):
            d = dotted(n.func)
            if isinstance(n.func, ast.Name) and n.func.id in ("list", "tuple", "enumerate", "iter", "next", "zip", "reversed", "map", "filter") :
                for a in n.args:
                    if kind(a) in ("set", "fsorder"):
                        out.append((n, a, n.func.id))
            elif isinstance(n.func, ast.Attribute) and n.func.attr in ("join", "extend") and allargs(n) and kind(allargs(n)[0]) in ("set", "fsorder"):
                out.append((n, allargs(n)[0], n.func.attr))
            for a in n.args:
                if isinstance(a, ast.Starred) and kind(a.value) in ("set", "fsorder"):
                    out.append((n, a.value, "star"))
        elif isinstance(n, (ast.List, ast.Tuple)):
            for a in n.elts:
                if isinstance(a, ast.Starred) and kind(a.value) in ("set", "fsorder"):
                    out.append((n, a.value, "star"))
        elif isinstance(n, ast.BinOp) and isinstance(n.op, ast.Add):
            pass
    return out, env


def _parents(root: ast.AST) -> Dict[int, ast.AST]:
    p = {}
    for n in ast.walk(root):
        for c in ast.iter_child_nodes(n):
            p[id(c)] = n
    return p


INSENSITIVE_CALLS = {"sorted", "set", "frozenset", "any", "all", "len", "sum", "min", "max"}
SET_METHODS = {"union", "update", "intersection", "intersection_update", "difference", "difference_update", "symmetric_difference", "issubset", "issuperset", "isdisjoint"}


def _flows_insensitive(fi: FuncInfo, e: ast.AST, parents, depth: int) -> bool:
    if depth > 6:
        return False
    par = parents.get(id(e))
    if isinstance(par, ast.Call):
        if isinstance(par.func, ast.Name) and par.func.id in INSENSITIVE_CALLS and e in par.args:
            return True
        if isinstance(par.func, ast.Attribute) and par.func.attr in SET_METHODS and e in par.args:
            return True
        if isinstance(par.func, ast.Name) and par.func.id in ("list", "tuple", "iter", "reversed") and e in par.args:
            return _flows_insensitive(fi, par, parents, depth + 1)
        return False
    if isinstance(par, ast.Starred):
        gp = parents.get(id(par))
        if isinstance(gp, ast.Call) and ((isinstance(gp.func, ast.Attribute) and gp.func.attr in SET_METHODS) or (isinstance(gp.func, ast.Name) and gp.func.id in ("set", "frozenset"))):
            return True
        if isinstance(gp, (ast.List, ast.Tuple, ast.Set)):
            return isinstance(gp, ast.Set) or _flows_insensitive(fi, gp, parents, depth + 1)
        return False
    if isinstance(par, ast.BinOp) and isinstance(par.op, (ast.Add, ast.BitOr, ast.BitAnd, ast.Sub)):
        return _flows_insensitive(fi, par, parents, depth + 1)
    if isinstance(par, ast.comprehension) and par.iter is e:
        comp = parents.get(id(par))
        if isinstance(comp, ast.SetComp):
            return True
        return comp is not None and _flows_insensitive(fi, comp, parents, depth + 1)
    if isinstance(par, (ast.Assign, ast.AnnAssign)) and getattr(par, "value", None) is e:
        tgts = par.targets if isinstance(par, ast.Assign) else [par.target]
        if len(tgts) != 1 or not isinstance(tgts[0], ast.Name):
            return False
        name = tgts[0].id
        stores = [n for n in ast.walk(fi.node) if isinstance(n, ast.Name) and n.id == name and isinstance(n.ctx, ast.Store)]
        loads = [n for n in ast.walk(fi.node) if isinstance(n, ast.Name) and n.id == name and isinstance(n.ctx, ast.Load)]
        if len(stores) != 1 or not loads:
            return False
        return all(_flows_insensitive(fi, u, parents, depth + 1) for u in loads)
    return False


def _auto_ok(fi: FuncInfo, node: ast.AST, it: ast.expr, how: str, parents, sk: SetKinds, env) -> Optional[str]:
    """structural reasons for which an ordered use cannot influence emitted order"""
    if how == "comp-set":
        return "builds a set"
    # consumer chain: comprehension/call passed directly to an order-insensitive call
    cur = node
    while True:
        par = parents.get(id(cur))
        if isinstance(par, ast.Call) and isinstance(par.func, ast.Name) and par.func.id in INSENSITIVE_CALLS and cur in par.args:
            return f"consumed by {par.func.id}()"
        if isinstance(par, ast.Call) and isinstance(par.func, ast.Name) and par.func.id in ("list", "tuple") and cur in par.args:
            cur = par
            continue
        break
    # the value built from the unordered iteration reaches nothing but order-insensitive consumers (through locals, list
    # concatenation, further comprehensions and * splats)
    if how in ("comp", "comp-list", "comp-gen") or isinstance(node, (ast.ListComp, ast.GeneratorExp)):
        if _flows_insensitive(fi, node, parents, 0):
            return "every use of the built value is an order-insensitive consumer (set algebra, sorted, any/all/len, set(...))"
    # inside a raise statement / warning: diagnostics text only
    cur = node
    while cur is not None:
        if isinstance(cur, ast.Raise):
            return "diagnostic text of a raised exception"
        if isinstance(cur, ast.Call) and dotted(cur.func) in ("warn", "warnings.warn"):
            return "diagnostic text of a warning"
        cur = parents.get(id(cur))
    # variable used only in a raise in the same block
    par = parents.get(id(node))
    if isinstance(par, ast.Assign) and len(par.targets) == 1 and isinstance(par.targets[0], ast.Name):
        name = par.targets[0].id
        uses = [n for n in ast.walk(fi.node) if isinstance(n, ast.Name) and n.id == name and isinstance(n.ctx, ast.Load)]
        def in_raise(u):
            c = u
            while c is not None:
                if isinstance(c, ast.Raise):
                    return True
                c = parents.get(id(c))
            return False
        if uses and all(in_raise(u) for u in uses):
            return "only used in diagnostic text of a raised exception"
    if how == "for" and isinstance(node, (ast.For, ast.AsyncFor)) and sk.return_kind(fi) == "fsorder" \
            and any(isinstance(x, (ast.Yield, ast.YieldFrom)) for x in ast.walk(node)) \
            and not any(isinstance(x, ast.Call) and isinstance(x.func, ast.Attribute) and x.func.attr in ("append", "extend", "write", "write_text") for x in ast.walk(node)):
        return "generator re-yields the listing; its callers are treated as consumers of an unordered listing"
    if how == "for" and isinstance(node, (ast.For, ast.AsyncFor)):
        ok = True
        for st in node.body:
            if isinstance(st, ast.Expr) and isinstance(st.value, ast.Call) and isinstance(st.value.func, ast.Attribute) \
                    and st.value.func.attr in ("add", "update", "discard") and sk.expr_kind(st.value.func.value, fi, env) == "set":
                continue
            if isinstance(st, (ast.Assign, ast.AugAssign)):
                tgt = st.targets[0] if isinstance(st, ast.Assign) else st.target
                if sk.expr_kind(tgt, fi, env) == "set" or (isinstance(tgt, ast.Name) and not _used_after(tgt.id, node, fi)):
                    continue
            if isinstance(st, ast.If) and all(isinstance(x, (ast.Raise, ast.Continue, ast.Pass)) or (isinstance(x, ast.Return) and (x.value is None or isinstance(x.value, ast.Constant))) for x in st.body + st.orelse):
                continue
            ok = False
        if ok:
            return "loop body only builds sets / tests membership"
    return None


def _used_after(name, loop, fi) -> bool:
    """is a loop-local name read outside the loop?"""
    inside = {id(n) for n in ast.walk(loop)}
    for n in ast.walk(fi.node):
        if isinstance(n, ast.Name) and n.id == name and isinstance(n.ctx, ast.Load) and id(n) not in inside:
            return True
    return False


# ------------------------------------------------------------- table checks
def _check_loop_builds_set(ctx, fi, node, it):
    sk = SetKinds(ctx.repo)
    env = sk.local_kinds(fi)
    if not isinstance(node, (ast.For, ast.AsyncFor)):
        # the loop was written (or normalised) as a comprehension: only a set comprehension keeps the result order-free
        if isinstance(node, ast.SetComp):
            return None
        par = _parents(fi.node).get(id(node))
        if isinstance(node, ast.GeneratorExp) and isinstance(par, (ast.Call, ast.Starred)):
            cc = par if isinstance(par, ast.Call) else _parents(fi.node).get(id(par))
            if isinstance(cc, ast.Call) and ((isinstance(cc.func, ast.Name) and cc.func.id in ("set", "frozenset", "any", "all", "sum", "len", "min", "max")) or
                                             (isinstance(cc.func, ast.Attribute) and cc.func.attr in ("union", "update", "intersection", "difference", "issubset", "issuperset", "isdisjoint"))):
                return None
        return f"the iteration now builds an ordered value: {norm(node)[:80]}"
    for st in node.body if isinstance(node, ast.For) else []:
        for sub in ast.walk(st):
            if isinstance(sub, ast.Call) and isinstance(sub.func, ast.Attribute) and sub.func.attr in ("append", "extend", "insert"):
                return f"loop appends to a list: {norm(sub)[:60]}"
    # assigned variables in the loop are sets
    for st in node.body:
        if isinstance(st, ast.Assign):
            for t in st.targets:
                if isinstance(t, ast.Name) and sk.expr_kind(st.value, fi, env) != "set" and sk.expr_kind(t, fi, env) == "set":
                    return f"{t.id} stops being a set"
    return None


def _check_typename_sorted(ctx, fi, node, it):
    g = ctx.repo.func("client_generators.result_fields:generate_typename_annotation")
    p = g.node.args.args[0].arg
    for n in ast.walk(g.node):
        if isinstance(n, (ast.For, ast.ListComp, ast.GeneratorExp)):
            its = [n.iter] if isinstance(n, ast.For) else [x.iter for x in n.generators]
            for i in its:
                if p in {x.id for x in ast.walk(i) if isinstance(x, ast.Name)}:
                    if not (isinstance(i, ast.Call) and isinstance(i.func, ast.Name) and i.func.id == "sorted"):
                        return f"generate_typename_annotation iterates {norm(i)} without sorting"
    return None


def _check_import_names(ctx, fi, node, it):
    """the iterated names end up as ast.alias of an ImportFrom, and the module text passes through isort (ast_to_str)"""
    a2s = ctx.repo.func("utils:ast_to_str")
    if not any(dotted(c.func) == "isort.code" for c in ast.walk(a2s.node) if isinstance(c, ast.Call)):
        return "utils.ast_to_str no longer passes the code through isort.code"
    # the use must be (transitively) inside a generate_import_from(...) / ast.alias(...) / .names.append/extend
    parents = _parents(fi.node)
    cur = node
    hops = 0
    while cur is not None and hops < 12:
        if isinstance(cur, ast.Call):
            d = dotted(cur.func)
            if d in ("generate_import_from", "ast.alias", "ast.ImportFrom") or d.endswith(".names.append") or d.endswith(".names.extend") or d.endswith("names.extend"):
                return None
        if isinstance(cur, (ast.For,)):
            for sub in ast.walk(cur):
                if isinstance(sub, ast.Call) and (dotted(sub.func) in ("ast.alias", "ast.ImportFrom", "generate_import_from") or dotted(sub.func).endswith("names.append")):
                    # every statement in the loop body only touches import statements
                    return None
        cur = parents.get(id(cur))
        hops += 1
    return "the iterated names no longer flow only into import names"


def _check_fragments_generate_sinks(ctx, fi, node, it):
    """sinks of the per-fragment loop in FragmentsGenerator.generate"""
    repo = ctx.repo
    # (1) top_level_class_names is re-sorted by class position before use
    mr = repo.func("client_generators.fragments:FragmentsGenerator._get_model_rebuild_calls")
    srt = [c for c in ast.walk(mr.node) if isinstance(c, ast.Call) and isinstance(c.func, ast.Name) and c.func.id == "sorted"]
    p = mr.node.args.args[1].arg
    if not any(allargs(c) and isinstance(allargs(c)[0], ast.Name) and allargs(c)[0].id == p and any(k.arg == "key" for k in c.keywords) for c in srt):
        return "_get_model_rebuild_calls no longer sorts the top-level fragment names by class position"
    for n in ast.walk(mr.node):
        if isinstance(n, (ast.ListComp, ast.For)):
            its = [n.iter] if isinstance(n, ast.For) else [x.iter for x in n.generators]
            for i in its:
                if isinstance(i, ast.Name) and i.id == p:
                    return "_get_model_rebuild_calls iterates the unsorted names"
    # (2) class defs are concatenated following _get_sorted_fragments_names, whose roots are sorted and whose deps are sorted
    sn = repo.func("client_generators.fragments:FragmentsGenerator._get_sorted_fragments_names")
    sk = SetKinds(repo)
    for f2 in [sn] + [f for q, f in sn.module.functions.items() if q.startswith(sn.qualname + ".")]:
        uses, env = _ordered_uses(f2, sk)
        for n2, it2, how in uses:
            if not (isinstance(parents_of(f2).get(id(it2)), ast.Call) and dotted(parents_of(f2)[id(it2)].func) == "sorted"):
                return f"{f2.qualname} iterates {norm(it2)} unsorted"
    # (3) what the loop appends to: allowed sinks only
    allowed_sinks = {"imports", "class_defs_dict", "top_level_class_names", "dependencies_dict", "self._generated_public_names", "self._used_enums"}
    for st in ast.walk(node):
        if isinstance(st, ast.Call) and isinstance(st.func, ast.Attribute) and st.func.attr in ("append", "extend", "insert"):
            if norm(st.func.value) not in allowed_sinks:
                return f"loop appends to {norm(st.func.value)}, an untriaged ordered sink"
    # (3b) nothing in the loop may depend on what earlier iterations produced (iteration order is arbitrary)
    acc = set()
    for st in ast.walk(node):
        if isinstance(st, ast.Call) and isinstance(st.func, ast.Attribute) and st.func.attr in ("append", "extend", "add", "update", "insert"):
            acc.add(norm(st.func.value))
        if isinstance(st, ast.Assign) and isinstance(st.targets[0], ast.Subscript):
            acc.add(norm(st.targets[0].value))
        # loop-carried rebinding `X = X | ...` / `X = X + ...` (the loader writes in-place set updates this way)
        if isinstance(st, ast.Assign) and len(st.targets) == 1 and isinstance(st.targets[0], ast.Name) and isinstance(st.value, ast.BinOp) \
                and any(isinstance(x, ast.Name) and x.id == st.targets[0].id for x in ast.walk(st.value)):
            acc.add(st.targets[0].id)
    for st in ast.walk(node):
        tests = []
        if isinstance(st, (ast.If, ast.IfExp)):
            tests.append(st.test)
        if isinstance(st, (ast.ListComp, ast.GeneratorExp, ast.SetComp, ast.DictComp)):
            tests += [i for g in st.generators for i in g.ifs]
        for t in tests:
            for cmp_ in ast.walk(t):
                if isinstance(cmp_, ast.Compare) and any(isinstance(op, (ast.In, ast.NotIn)) for op in cmp_.ops) and norm(cmp_.comparators[0]) in acc:
                    return f"`{norm(t)[:70]}` tests membership in `{norm(cmp_.comparators[0])}`, which is filled by earlier iterations of the same loop: the outcome depends on the (arbitrary) iteration order"
    # (4) the public names only become import names of the package __init__ and a sorted __all__
    init = repo.func("client_generators.init_file:InitFileGenerator.generate")
    srt = [c for c in ast.walk(init.node) if isinstance(c, ast.Call) and isinstance(c.func, ast.Name) and c.func.id == "sorted"]
    if not srt:
        # __all__ is emitted in import order; then imports must themselves be emitted through isort, names sorted inside one statement
        pass
    return None


_parents_cache: Dict[int, Dict[int, ast.AST]] = {}


def parents_of(fi: FuncInfo):
    k = id(fi.node)
    if k not in _parents_cache:
        _parents_cache[k] = _parents(fi.node)
    return _parents_cache[k]


CHECKS = {
    "loop_builds_set": _check_loop_builds_set,
    "typename_sorted": _check_typename_sorted,
    "import_names": _check_import_names,
    "fragments_generate_sinks": _check_fragments_generate_sinks,
}


@rule("C10.R1", "no unordered collection reaches emitted order except through an order-normalising sink", min_instances=18)
def c10_r1(ctx):
    repo = ctx.repo
    sk = SetKinds(repo)
    n_funcs = 0
    seen_table = set()
    for fi in repo.all_functions():
        if fi.module.short.startswith(EXCLUDE_PREFIX):
            continue
        n_funcs += 1
        uses, env = _ordered_uses(fi, sk)
        for c in walk_no_nested(fi.node):
            if isinstance(c, ast.Call) and isinstance(c.func, ast.Name) and c.func.id == "sorted" and c.args \
                    and sk.expr_kind(allargs(c)[0], fi, env) in ("set", "fsorder"):
                ctx.ok(f"{fi.key}: {norm(allargs(c)[0])[:60]} ({sk.expr_kind(allargs(c)[0], fi, env)}) is consumed through sorted()", fi.loc(c))
        if not uses:
            continue
        parents = parents_of(fi)
        for node, it, how in uses:
            txt = norm(it)
            par = parents.get(id(it))
            if how in ("for", "comp", "comp-set") and False:
                pass
            # directly sorted?
            if isinstance(par, ast.Call) and isinstance(par.func, ast.Name) and par.func.id == "sorted":
                ctx.ok(f"{fi.key}: {txt} iterated through sorted()", fi.loc(node))
                continue
            why = _auto_ok(fi, node, it, how, parents, sk, env)
            if why:
                ctx.ok(f"{fi.key}: {how} over {txt}: {why}", fi.loc(node))
                continue
            tk = (fi.module.short, fi.qualname, txt)
            if tk in TABLE:
                seen_table.add(tk)
                chk = TABLE[tk].get("check")
                bad = CHECKS[chk](ctx, fi, node, it) if chk else None
                if bad:
                    ctx.fail(key(fi, f"{how} over {txt}"), f"tabled order-insensitive site no longer satisfies its reason: {bad}", fi.loc(node))
                else:
                    ctx.ok(f"{fi.key}: {how} over {txt}: tabled ({TABLE[tk]['reason'][:80]})", fi.loc(node))
                continue
            ctx.fail(key(fi, f"{how} over {txt}"),
                     f"{how} over the unordered collection `{txt}` (kind {sk.expr_kind(it, fi, env)}) feeds an ordered sink: "
                     "iteration order depends on PYTHONHASHSEED / directory order and can reach the emitted files; wrap in sorted() "
                     "or feed an order-insensitive sink", fi.loc(node))
    ctx.note(f"{n_funcs} generator functions scanned for ordered uses of sets / directory listings")


AMBIENT = {
    "datetime.now", "datetime.today", "datetime.utcnow", "datetime.datetime.now", "time.time", "time.monotonic", "time.strftime",
    "random.random", "random.choice", "random.randint", "random.shuffle", "uuid.uuid4", "uuid4", "uuid.uuid1", "os.getpid",
    "id", "hash", "os.urandom", "secrets.token_hex", "getpass.getuser", "socket.gethostname", "platform.node",
    "time.localtime", "time.ctime", "date.today", "datetime.date.today",
}
AMBIENT_ATTR = {"os.environ", "sys.argv"}
AMBIENT_OK = {
    ("client_generators.comments", "get_timestamp_comment"): "timestamp comment mode is excluded by the property",
    ("settings", "get_header_value"): "request header for introspection, never emitted",
}


@rule("C10.R2", "no ambient input (clock, randomness, environment, object identity) reaches generated text", min_instances=2)
def c10_r2(ctx):
    repo = ctx.repo
    n = 0
    for fi in repo.all_functions():
        if fi.module.short.startswith(EXCLUDE_PREFIX):
            continue
        n += 1
        for c in walk_no_nested(fi.node):
            name = None
            if isinstance(c, ast.Call):
                d = dotted(c.func)
                ext = repo.ext_name(fi.module, c.func) or d
                if d in AMBIENT or ext in AMBIENT or ext.replace("datetime.datetime", "datetime") in AMBIENT:
                    name = ext
            elif isinstance(c, ast.Attribute) and dotted(c) in AMBIENT_ATTR:
                name = dotted(c)
            if not name:
                continue
            tk = (fi.module.short, fi.qualname)
            if tk in AMBIENT_OK:
                ctx.ok(f"{fi.key}: {name} ({AMBIENT_OK[tk]})", fi.loc(c))
            else:
                ctx.fail(key(fi, name), f"ambient input {name} used in a generator module: output would differ between runs", fi.loc(c))
    # the time-dependent comment function is selected by the TIMESTAMP strategy only
    refs = 0
    for fi in repo.all_functions():
        par = parents_of(fi)
        for nm in walk_no_nested(fi.node):
            if isinstance(nm, ast.Name) and nm.id == "get_timestamp_comment" and isinstance(nm.ctx, ast.Load):
                refs += 1
                p = par.get(id(nm))
                good = False
                if isinstance(p, ast.Dict):
                    for k_, v_ in zip(p.keys, p.values):
                        if v_ is nm and k_ is not None and norm(k_).endswith("CommentsStrategy.TIMESTAMP"):
                            good = True
                cur = p
                while cur is not None and not good:
                    if isinstance(cur, ast.If) and "TIMESTAMP" in norm(cur.test) and "==" in norm(cur.test) or (isinstance(cur, ast.If) and " is CommentsStrategy.TIMESTAMP" in norm(cur.test)):
                        good = any(nm in list(ast.walk(b)) for b in cur.body)
                        break
                    cur = par.get(id(cur))
                ctx.check(good, key(fi, "get_timestamp_comment reference"), "the time-dependent comment is selectable by a strategy other than TIMESTAMP", fi.loc(nm),
                          okmsg=f"{fi.key}: timestamp comment bound to CommentsStrategy.TIMESTAMP only")
    if refs == 0:
        ctx.error("no reference to get_timestamp_comment found")
    ctx.note(f"{n} functions scanned for ambient inputs")


READS = {"read_text", "read_bytes", "open", "exists", "is_file", "is_dir", "iterdir", "glob", "rglob", "stat", "unlink", "rmdir"}


@rule("C10.R3", "the target package directory is write-only: whole-file writes, nothing read back", min_instances=11, also=["C04"])
def c10_r3(ctx):
    repo = ctx.repo
    pg = repo.cls("client_generators.package:PackageGenerator")
    for name, fi in sorted(pg.methods.items()):
        # local names derived from self.package_path
        derived = {"self.package_path"}
        for st in ast.walk(fi.node):
            if isinstance(st, ast.Assign) and len(st.targets) == 1 and isinstance(st.targets[0], ast.Name):
                if any(norm(x) in derived for x in ast.walk(st.value) if isinstance(x, (ast.Name, ast.Attribute))):
                    derived.add(st.targets[0].id)
        for c in walk_no_nested(fi.node):
            if not (isinstance(c, ast.Call) and isinstance(c.func, ast.Attribute)):
                continue
            base = norm(c.func.value)
            if base not in derived:
                continue
            m = c.func.attr
            if m == "write_text":
                ctx.ok(f"{fi.key}: whole-file write_text on {base}", fi.loc(c))
            elif m == "mkdir":
                eo = next((k.value for k in c.keywords if k.arg == "exist_ok"), None)
                if isinstance(eo, ast.Constant) and eo.value is True:
                    ctx.ok(f"{fi.key}: mkdir(exist_ok=True) on {base}", fi.loc(c))
                else:
                    # scenario: the directory holds a previous generation -> this mkdir must not run
                    from ..absint import Interp
                    outs = Interp(fi, lambda e, base=base: (True if norm(strip_pre(e)) in (f"{base}.exists()", f"{base}.is_dir()") else None),
                                  is_effect=lambda k: isinstance(k.func, ast.Attribute) and k.func.attr == "mkdir").run()
                    runs = [o for o in outs if any(isinstance(strip_pre(e), ast.Call) and not any(kk.arg == "exist_ok" for kk in strip_pre(e).keywords) for e in o.effects)]
                    ctx.check(not runs, key(fi, f"{base}.mkdir()"), f"{base}.mkdir() runs although the directory exists (no exist_ok=True, no `not {base}.exists()` guard): generating a second time into the same "
                              "target raises FileExistsError instead of reproducing the files", fi.loc(c), okmsg=f"{fi.key}: mkdir on {base} only when it does not exist")
            elif m == "exists":
                # only as the guard of mkdir
                par = parents_of(fi).get(id(c))
                while par is not None and not isinstance(par, ast.If):
                    par = parents_of(fi).get(id(par))
                good = isinstance(par, ast.If) and all(isinstance(s, ast.Expr) and isinstance(s.value, ast.Call) and dotted(s.value.func).endswith(".mkdir") for s in par.body) and not par.orelse
                ctx.check(good, key(fi, f"{base}.exists()"), "existence of the target directory influences more than its creation", fi.loc(c), okmsg=f"{fi.key}: exists() only guards mkdir")
            elif m in READS or m in ("open", "write_bytes"):
                ctx.fail(key(fi, f"{base}.{m}"), f"{base}.{m}() on the target package: output may depend on a previous generation", fi.loc(c))
    # graphqlschema strategy and extract-operations plugin: whole-file writes only
    for fk in ("graphql_schema_generators.schema:generate_graphql_schema_graphql_file", "graphql_schema_generators.schema:generate_graphql_schema_python_file",
               "contrib.extract_operations:ExtractOperationsPlugin._generate_operations_module"):
        fi = repo.func(fk)
        writes = [c for c in walk_no_nested(fi.node) if isinstance(c, ast.Call) and isinstance(c.func, ast.Attribute) and c.func.attr in ("write_text", "write")]
        opens = [c for c in walk_no_nested(fi.node) if isinstance(c, ast.Call) and dotted(c.func) in ("open",) or (isinstance(c, ast.Call) and isinstance(c.func, ast.Attribute) and c.func.attr == "open")]
        bad = []
        for o in opens:
            mode = allargs(o)[1] if len(allargs(o)) > 1 else next((k.value for k in o.keywords if k.arg == "mode"), None)
            if not (isinstance(mode, ast.Constant) and mode.value in ("w", "wt")):
                bad.append(norm(o)[:60])
        reads = [c for c in walk_no_nested(fi.node) if isinstance(c, ast.Call) and isinstance(c.func, ast.Attribute) and c.func.attr in ("read_text", "read", "exists")]
        ctx.check(bool(writes) and not bad and not reads, key(fi, "write"), f"target file must be written whole and never read: writes={len(writes)} bad_opens={bad} reads={[norm(r)[:40] for r in reads]}", fi.loc(),
                  okmsg=f"{fi.key}: whole-file write, no read-back")
