"""C18 (name mapping) and C19 (schema source independence)."""
from __future__ import annotations

import ast
import keyword
from typing import Dict, List, Optional

from ..absint import Interp
from ..model import AnalysisError, FuncInfo, NotConst, bind_args, dotted, norm, walk_no_nested
from ..regexauto import CLASSES, alternative_classes, token_sets, uncovered_after
from ..report import rule
from ..util import allargs, calls_named, cfg_of, is_const, is_name, key, kw, names_in, strip_pre


def _snake_pattern(ctx) -> str:
    fi = ctx.repo.func("utils:str_to_snake_case")
    env: Dict[str, object] = {}
    pat = None
    for st in fi.node.body:
        if isinstance(st, ast.Assign) and len(st.targets) == 1 and isinstance(st.targets[0], ast.Name):
            try:
                env[st.targets[0].id] = ctx.repo.const_eval(fi.module, st.value, env)
            except NotConst:
                pass
    pat_expr = None
    pat_module = fi.module
    calls = calls_named(fi.node, "re.findall")
    if len(calls) == 1 and allargs(calls[0]):
        pat_expr = allargs(calls[0])[0]
    else:
        # precompiled form: PATTERN.findall(name) with PATTERN = re.compile(<pattern>) at module level
        for c in walk_no_nested(fi.node):
            if isinstance(c, ast.Call) and isinstance(c.func, ast.Attribute) and c.func.attr == "findall" and isinstance(c.func.value, ast.Name):
                k, v = ctx.repo.resolve(fi.module, c.func.value.id)
                if k == "var":
                    dm, dn = v
                    vals = dm.assigns.get(dn, [])
                    if len(vals) == 1 and isinstance(vals[0], ast.Call) and dotted(vals[0].func) == "re.compile" and vals[0].args:
                        pat_expr, pat_module = vals[0].args[0], dm
    if pat_expr is None:
        raise AnalysisError("str_to_snake_case: tokenising regex (re.findall / compiled pattern) not found")
    try:
        pat = ctx.repo.const_eval(pat_module, pat_expr, env)
    except NotConst as exc:
        raise AnalysisError(f"str_to_snake_case: pattern is not a constant ({exc})")
    if not isinstance(pat, str):
        raise AnalysisError("str_to_snake_case: pattern is not a string")
    return pat


@rule("C18.R1", "the snake-case tokeniser keeps every letter and digit, in order", min_instances=5)
def c18_r1(ctx):
    fi = ctx.repo.func("utils:str_to_snake_case")
    pat = _snake_pattern(ctx)
    p = fi.node.args.args[0].arg
    for c, label in (("U", "an upper-case letter"), ("L", "a lower-case letter"), ("D", "a digit")):
        w = uncovered_after(pat, c)
        ctx.check(w is None, key(fi, f"coverage {label}"),
                  f"tokenising regex {pat!r}: {label} is skipped by re.findall in the name {w!r} (no alternative matches there), so it disappears from the Python name", fi.loc(),
                  okmsg=f"automaton: every position holding {label} starts or continues a token")
    used = set().union(*alternative_classes(pat))
    ctx.check("S" not in used, key(fi, "tokens are alphanumeric"), "a token may contain '_' (joining with '_' would double it)", fi.loc(), okmsg="tokens never contain underscores")
    # the tokens are joined unchanged except for case
    rets = [n for n in fi.node.body if isinstance(n, ast.Return)]
    call = None
    subj = None
    for c in walk_no_nested(fi.node):
        if isinstance(c, ast.Call) and dotted(c.func) == "re.findall" and len(allargs(c)) >= 2:
            call, subj = c, allargs(c)[1]
        elif isinstance(c, ast.Call) and isinstance(c.func, ast.Attribute) and c.func.attr == "findall" and isinstance(c.func.value, ast.Name) and dotted(c.func) != "re.findall" and allargs(c):
            call, subj = c, allargs(c)[0]
    if call is None:
        raise AnalysisError("str_to_snake_case: findall call not found")
    good = len(rets) == 1 and norm(subj) == p
    if good:
        env = {st.targets[0].id: st.value for st in fi.node.body if isinstance(st, ast.Assign) and isinstance(st.targets[0], ast.Name)}
        rv = rets[0].value
        wv = None
        for n, v in env.items():
            if v is call or any(x is call for x in ast.walk(v)):
                wv = n
        good = norm(rv) in (f"'_'.join(map(str.lower, {wv}))", f"'_'.join((w.lower() for w in {wv}))", f"'_'.join([w.lower() for w in {wv}])")
    ctx.check(good, key(fi, "join"), "tokens are not joined with '_' after lower-casing only", fi.loc(), okmsg="result = '_'.join(lower-cased tokens)")
    pc = ctx.repo.func("utils:str_to_pascal_case")
    good = norm(pc.node.body[-1]) == "return ''.join((n[:1].upper() + n[1:] for n in name.split('_')))"
    ctx.check(good, key(pc, "pascal"), "PascalCase no longer keeps every character of every '_'-separated part", pc.loc(), okmsg="PascalCase keeps all characters, upper-casing the first of each part")


@rule("C18.R2", "process_name yields an identifier that is neither a keyword nor a pydantic attribute", min_instances=5, also=["C04"])
def c18_r2(ctx):
    repo = ctx.repo
    fi = repo.func("utils:process_name")
    pat = _snake_pattern(ctx)
    # (a) can the first token be a digit run?  first-token classes after skipped underscores
    firsts = token_sets(pat)
    digit_first = any("D" in f for f in firsts)
    # a GraphQL name cannot start with a digit, but `_`* followed by a digit is a name; underscores are skipped by the tokeniser
    guard = any(isinstance(n, ast.Call) and isinstance(n.func, ast.Attribute) and n.func.attr in ("isdigit", "isidentifier") for n in ast.walk(fi.node)) \
        or any(isinstance(n, ast.Call) and isinstance(n.func, ast.Attribute) and n.func.attr in ("isdigit", "isidentifier") for n in ast.walk(repo.func("utils:str_to_snake_case").node))
    ctx.check(not digit_first or guard, key(fi, "leading digit"),
              "a name such as `_1` (underscores, then a digit) is tokenised to `1`: the tokeniser skips the underscores and nothing re-establishes a leading letter, so the result is not an identifier",
              fi.loc(), okmsg="a leading digit cannot result")
    # (b) order: the underscore strip must not follow the keyword / reserved-name escapes
    g = cfg_of(fi)
    def stmts_where(pred):
        return [n for n in g.stmts() if n.ast is not None and pred(n)]
    strip = stmts_where(lambda n: n.kind == "stmt" and isinstance(n.ast, ast.Assign) and "lstrip('_')" in norm(n.ast.value))
    kwt = stmts_where(lambda n: n.kind == "test" and norm(n.ast) in ("iskeyword(processed_name)", "keyword.iskeyword(processed_name)"))
    rsv = stmts_where(lambda n: n.kind == "test" and "PYDANTIC_RESERVED_FIELD_NAMES" in norm(n.ast))
    snake = stmts_where(lambda n: n.kind == "stmt" and isinstance(n.ast, ast.Assign) and norm(n.ast.value).startswith("str_to_snake_case("))
    if not kwt or not rsv or len(snake) != 1:
        # the tests were restructured: the order sub-checks below do not apply; C18.R8 decides the whole table symbolically
        ctx.note("process_name: separate keyword / reserved-name tests not found, order sub-checks skipped (C18.R8 decides the table)")
    else:
        # the escape that counts is the last one on the way to the return
        kwt = [t for t in kwt if not any(o.id in g.reach_after(t) for o in kwt if o.id != t.id)] or kwt[-1:]
        rsv = [t for t in rsv if not any(o.id in g.reach_after(t) for o in rsv if o.id != t.id)] or rsv[-1:]
        for a, b, what in ((snake[0], kwt[0], "snake-casing precedes the keyword escape"), (snake[0], rsv[0], "snake-casing precedes the reserved-name escape")):
            ctx.check(b.id in g.reach_after(a) and a.id not in g.reach_after(b), key(fi, what), f"order violated: {what}", fi.loc(), okmsg=what)
        for s in strip:
            for t, what in ((kwt[0], "keyword"), (rsv[0], "pydantic-reserved name")):
                ctx.check(s.id not in g.reach_after(t), key(fi, f"strip after {what} escape"),
                          f"leading underscores are stripped after the {what} escape: `_class` (no snake-casing) becomes `class`, `_model_dump` becomes `model_dump`", fi.loc(s.ast),
                          okmsg=f"underscore strip happens before the {what} escape")
    # fallback for all-underscore names
    o = Interp(fi, lambda e: (True if norm(strip_pre(e)).startswith("set(name) == {'_'}") or norm(e) == "not processed_name" else False if norm(e) in ("convert_to_snake_case", "plugin_manager", "trim_leading_underscore", "handle_pydantic_resrved_field_names") else None)).run()
    vals = {norm(x.value) for x in o if x.kind == "return"}
    ctx.check(any(v.startswith("'") and v.strip("'").isidentifier() for v in vals), key(fi, "all underscores"), f"a name of only underscores does not map to a fixed identifier ({vals})", fi.loc(), okmsg="names of only underscores map to a fixed identifier")
    # reserved names come from pydantic itself
    m = fi.module
    rv = m.assigns.get("PYDANTIC_RESERVED_FIELD_NAMES", [None])[0]
    good = isinstance(rv, ast.ListComp) and norm(rv.generators[0].iter) == "dir(BaseModel)" and [norm(i) for i in rv.generators[0].ifs] == [f"not {norm(rv.generators[0].target)}.startswith('_')"] \
        and m.imports.get("BaseModel") == ("pydantic", "BaseModel")
    ctx.check(good, "utils::PYDANTIC_RESERVED_FIELD_NAMES", "reserved names are not computed from dir(pydantic.BaseModel)", m.relpath, okmsg="reserved names = public attributes of pydantic.BaseModel")
    # both model-field call sites enable the two protections
    for fk in ("client_generators.result_types:ResultTypesGenerator._process_field_name", "client_generators.input_types:InputTypesGenerator._parse_input_definition"):
        f2 = repo.func(fk)
        cs = calls_named(f2.node, "process_name")
        pn = [a.arg for a in fi.node.args.args]
        bound = bind_args(fi, cs[0]) if len(cs) == 1 and len(pn) >= 6 else {}
        good = len(cs) == 1 and is_const(bound.get(pn[4]), True) and is_const(bound.get(pn[5]), True) \
            and norm(bound.get(pn[1]) or ast.Constant(0)) == "self.convert_to_snake_case"
        ctx.check(good, key(f2, "protections"), "model field names are not processed with underscore trimming and pydantic-reserved handling", f2.loc(), okmsg=f"{f2.qualname}: field names protected")


def _pydantic_members():
    from ..util import site_packages_source
    path, psrc = site_packages_source("pydantic", "main.py")
    pyd = set()
    for n in ast.parse(psrc).body:
        if isinstance(n, ast.ClassDef) and n.name == "BaseModel":
            for st in n.body:
                if isinstance(st, (ast.FunctionDef, ast.AsyncFunctionDef)):
                    pyd.add(st.name)
                elif isinstance(st, ast.AnnAssign) and isinstance(st.target, ast.Name):
                    pyd.add(st.target.id)
                elif isinstance(st, ast.Assign):
                    pyd |= {t.id for t in st.targets if isinstance(t, ast.Name)}
    pyd = {x for x in pyd if not x.startswith("_")}
    if "model_dump" not in pyd:
        raise AnalysisError(f"oracle: pydantic.BaseModel members not found in {path}")
    return pyd


def _kwlist():
    from ..util import stdlib_source
    path, src = stdlib_source("keyword")
    for n in ast.parse(src).body:
        if isinstance(n, ast.Assign) and isinstance(n.targets[0], ast.Name) and n.targets[0].id == "kwlist" and isinstance(n.value, ast.List):
            return [e.value for e in n.value.elts if isinstance(e, ast.Constant)]
    raise AnalysisError(f"oracle: kwlist not found in {path}")


def _snake_norm(text: str) -> str:
    """str_to_snake_case(X + '_') == str_to_snake_case(X): the tokeniser skips underscores and tokens never contain one
    (C18.R1 decides that from the regex automaton), so a trailing '_' added before snake-casing disappears"""
    import re as _re
    prev = None
    while prev != text:
        prev = text
        text = _re.sub(r"str_to_snake_case\((.*?) \+ '_'\)", r"str_to_snake_case(\1)", text)
    return text


@rule("C18.R8", "process_name decision table: for every option combination the returned name is the transformed name, escaped iff that very name is a keyword / reserved",
      min_instances=26, also=["C01", "C03", "C04", "C05", "C06"])
def c18_r8(ctx):
    repo = ctx.repo
    fi = repo.func("utils:process_name")
    params = [a.arg for a in fi.node.args.args]
    if len(params) < 6:
        raise AnalysisError(f"process_name: parameters are {params}")
    # roles by position (the parameter names themselves may be changed, e.g. the typo in handle_pydantic_resrved_field_names fixed)
    P_NAME, P_SNAKE, P_PM, P_NODE, P_TRIM, P_RSV = params[:6]
    # lemmas that make the table finite: escaping by '_' leaves both sets, and the sets are disjoint (from the library sources)
    kws, pyd = set(_kwlist()), _pydantic_members()
    lemma = not (kws & pyd) and not any(k + "_" in kws | pyd for k in kws | pyd)
    ctx.check(lemma, key(fi, "lemma"), f"keyword / pydantic-attribute sets overlap or are not left by appending '_': {sorted(kws & pyd)}", fi.loc(),
              okmsg=f"lemma: {len(kws)} keywords and {len(pyd)} pydantic attributes are disjoint, and x + '_' is in neither")

    def n_(src):
        return norm(ast.parse(src, mode="eval").body)

    for snake in (True, False):
        for trim in (True, False):
            base = P_NAME
            if snake:
                base = f"str_to_snake_case({base})"
            if trim:
                base = f"{base}.lstrip('_')"
            base_t, esc_t = n_(base), n_(f"{base} + '_'")
            for flag in (True, False):
                for k1, r1 in ((False, False), (True, False), (False, True)):
                    wrong: List[str] = []

                    def atom(e, snake=snake, trim=trim, flag=flag, k1=k1, r1=r1, base_t=base_t, esc_t=esc_t, wrong=wrong):
                        t = norm(strip_pre(e))
                        if t == P_SNAKE:
                            return snake
                        if t == P_TRIM:
                            return trim
                        if t == P_RSV:
                            return flag
                        if t in (P_PM, f"{P_PM} is not None"):
                            return False
                        if t.startswith(f"set({P_NAME}) == {{'_'}}"):
                            return False
                        subj = kind = None
                        ee = strip_pre(e)
                        if isinstance(ee, ast.Call) and dotted(ee.func) in ("iskeyword", "keyword.iskeyword") and len(allargs(ee)) == 1:
                            subj, kind = norm(allargs(ee)[0]), "keyword"
                        elif isinstance(ee, ast.Compare) and len(ee.ops) == 1 and isinstance(ee.ops[0], (ast.In, ast.NotIn)) and "PYDANTIC_RESERVED_FIELD_NAMES" in norm(ee.comparators[0]):
                            subj, kind = norm(ee.left), "reserved"
                        if kind is None:
                            return None
                        subj = _snake_norm(subj)
                        if subj == base_t:
                            ans = k1 if kind == "keyword" else r1
                        elif subj == esc_t:
                            ans = False
                        else:
                            # a test about some other string decides nothing about the returned name: explore both answers
                            wrong.append(f"the {kind} test is asked about `{subj}` while the name being returned is `{base_t}`")
                            return None
                        if isinstance(ee, ast.Compare) and isinstance(ee.ops[0], ast.NotIn):
                            return not ans
                        return ans
                    outs = [o for o in Interp(fi, atom).run() if o.kind == "return"]
                    esc = k1 or (r1 and flag)
                    want = esc_t if esc else base_t
                    got = sorted({_snake_norm(norm(strip_pre(o.value))) for o in outs})
                    label = f"snake={snake} trim={trim} reserved-handling={flag} keyword={k1} reserved={r1}"
                    msg = ""
                    if got != [want]:
                        msg = f"returns {got}, expected `{want}`"
                        if wrong:
                            msg += "; " + wrong[0] + " (`Class` -> snake-cased `class`, `modelDump` -> `model_dump`: the escape is decided on a different string than the one emitted)"
                    ctx.check(not msg, key(fi, f"table {label}"), f"process_name[{label}]: {msg}", fi.loc(), okmsg=f"{label} -> {want}")
    # the plugin hook sees the escaped name and its result is what is returned
    def atom_p(e):
        t = norm(strip_pre(e))
        if t in (P_PM, f"{P_PM} is not None"):
            return True
        if t in (P_SNAKE, P_TRIM, P_RSV):
            return False
        if t.startswith("iskeyword(") or "PYDANTIC_RESERVED_FIELD_NAMES" in t or t.startswith(f"set({P_NAME})"):
            return False
        return None
    outs = [o for o in Interp(fi, atom_p).run() if o.kind == "return"]
    got = sorted({norm(strip_pre(o.value)) for o in outs})
    ctx.check(got == [f"{P_PM}.process_name({P_NAME}, node={P_NODE})"], key(fi, "plugin hook"), f"with a plugin manager the result is {got}", fi.loc(), okmsg="plugin hook applied last, on the processed name")


SCOPES = [
    ("client_generators.result_types:ResultTypesGenerator._parse_type_definition", "fields of one result class",
     "response keys `fooBar` and `foo_bar` of one selection set both become `foo_bar`: the class gets two annotations of that name and one response key is lost"),
    ("client_generators.input_types:InputTypesGenerator._parse_input_definition", "fields of one input class",
     "input fields `fooBar` and `foo_bar` both become `foo_bar`: the second silently replaces the first (verified: two `foo_bar:` members emitted)"),
    ("client_generators.arguments:ArgumentsGenerator.generate", "parameters of one method",
     "variables `$_query`/`$query` or `$fooBar`/`$foo_bar` yield the same parameter name twice: SyntaxError (duplicate argument)"),
    ("client_generators.enums:EnumsGenerator._parse_enum_definition", "members of one enum",
     "enum values `from` and `from_` both become member `from_` (verified: emitted twice): TypeError('Attempted to reuse key') when enums.py is imported"),
    ("client_generators.client:ClientGenerator.add_method", "methods of the client",
     "operations `getA` and `get_a` both become method `get_a`: the second definition silently replaces the first"),
]


@rule("C18.R4", "distinct GraphQL names of one scope are never silently merged into one Python name", min_instances=5, also=["C04"])
def c18_r4(ctx):
    repo = ctx.repo
    for fk, scope, witness in SCOPES:
        fi = repo.func(fk)
        # a collision mechanism = a membership test on the names used so far (in a raise/rename context) or a uniqueness assertion
        has = False
        for n in walk_no_nested(fi.node):
            if isinstance(n, ast.Compare) and any(isinstance(op, (ast.In, ast.NotIn)) for op in n.ops):
                t = norm(n)
                if any(tok in t for tok in ("used_names", "seen", "names_in_scope", "taken", "existing_names", "_names")) and "self._public_names" not in t and "custom_scalars" not in t:
                    has = True
            if isinstance(n, ast.Call) and dotted(n.func) in ("self._assert_unique", "assert_unique_names", "self._make_unique", "make_unique"):
                has = True
        ctx.check(has, key(fi, f"scope: {scope}"),
                  f"{scope}: the emitter maps GraphQL names through process_name (not injective) and neither detects a repeated Python name nor makes names unique. {witness}",
                  fi.loc(), okmsg=f"{scope}: repeated Python names are detected or made unique")


@rule("C18.R6", "the name mapping is a pure function of the name and the options", min_instances=3)
def c18_r6(ctx):
    repo = ctx.repo
    for fk in ("utils:process_name", "utils:str_to_snake_case", "utils:str_to_pascal_case"):
        fi = repo.func(fk)
        bad = []
        for n in walk_no_nested(fi.node):
            if isinstance(n, (ast.Global, ast.Nonlocal)):
                bad.append("global/nonlocal")
            if isinstance(n, ast.Attribute) and isinstance(n.ctx, ast.Store):
                bad.append(f"store to {norm(n)}")
            if isinstance(n, ast.Call):
                d = dotted(n.func)
                if d in ("random.random", "time.time", "id", "hash", "os.getenv", "uuid4", "uuid.uuid4", "input", "open") or d.startswith("os.environ"):
                    bad.append(d)
                if isinstance(n.func, ast.Attribute) and n.func.attr in ("append", "add", "update", "setdefault", "pop") and isinstance(n.func.value, ast.Name) \
                        and n.func.value.id not in {a.arg for a in fi.node.args.args} and n.func.value.id not in {t.id for s in ast.walk(fi.node) if isinstance(s, ast.Assign) for t in s.targets if isinstance(t, ast.Name)}:
                    bad.append(f"mutation of non-local {n.func.value.id}")
        # module-level names read must be constants
        ctx.check(not bad, key(fi, "purity"), f"{fi.qualname} is not a pure function: {bad}", fi.loc(), okmsg=f"{fi.qualname}: no global state, no ambient input")


# ====================================================================== C19
GENERATOR_PREFIXES = ("client_generators", "graphql_schema_generators", "codegen", "contrib")


@rule("C19.R1", "no SDL-only datum (ast_node) feeds generated code: introspected schemas have none", min_instances=1, also=["C06"])
def c19_r1(ctx):
    repo = ctx.repo
    n_mod = 0
    reads = 0
    for m in repo.modules.values():
        if not m.short.startswith(GENERATOR_PREFIXES) or m.short.startswith("client_generators.dependencies"):
            continue
        n_mod += 1
        for fi in m.functions.values():
            for n in walk_no_nested(fi.node):
                if isinstance(n, ast.Attribute) and n.attr in ("ast_node", "extension_ast_nodes") and isinstance(n.ctx, ast.Load):
                    reads += 1
                    ctx.fail(key(fi, f"read {norm(n)}"),
                             f"{norm(n)} is read while generating code: schemas built from introspection have ast_node=None, so the datum taken from it "
                             "(input field defaults) is lost and the same schema yields different input models (a defaulted field becomes required / Optional without its default)", fi.loc(n))
    ctx.ok(f"{n_mod} generator modules scanned for reads of .ast_node / .extension_ast_nodes ({reads} found)")


@rule("C19.R2", "schema text is independent of how definitions are split over files", min_instances=3, also=["C10", "C16", "C02", "C17"])
def c19_r2(ctx):
    repo = ctx.repo
    lf = repo.func("schema:load_graphql_files_from_path")
    def mk(is_dir):
        return lambda e: (is_dir if norm(e) == "path.is_dir()" else None)
    from ..util import comp_struct
    o = [x for x in Interp(lf, mk(True)).run() if x.kind == "return"]
    good = False
    if len(o) == 1 and o[0].value is not None:
        v = strip_pre(o[0].deref(o[0].value)) if isinstance(o[0].value, ast.Name) else strip_pre(o[0].value)
        if isinstance(v, ast.Call) and isinstance(v.func, ast.Attribute) and v.func.attr == "join" and is_const(v.func.value, "\n") and len(v.args) == 1:
            arg = strip_pre(o[0].deref(v.args[0])) if isinstance(v.args[0], ast.Name) else v.args[0]
            good = comp_struct(arg) in (("read_graphql_file($0)", [("sorted(walk_graphql_files(path))", [])]), ("read_graphql_file(path=$0)", [("sorted(walk_graphql_files(path=path))", [])]))
    ctx.check(good, key(lf, "directory"), f"a directory must be read as the newline-joined contents of its sorted GraphQL files; got {[x.text() for x in o]}", lf.loc(), okmsg="directory -> '\\n'.join(read(f) for f in sorted(files))")
    o = Interp(lf, mk(False)).run()
    from ..absint import subst as _subst
    ctx.check(len(o) == 1 and (norm(o[0].value) == "read_graphql_file(path.resolve())" or norm(strip_pre(_subst(o[0].value, o[0].env, deep=True))) == "read_graphql_file(path.resolve())"), key(lf, "file"), f"single file: {[x.text() for x in o]}", lf.loc(), okmsg="single file -> its content")
    wf = repo.func("schema:walk_graphql_files")
    # what the generator yields: every element of the recursive listing whose suffix is one of the three (decided on the
    # symbolic outcomes, so a local tuple, a module constant or a defaulted parameter are the same thing)
    seen_sets = []

    def mkw(match):
        def atom(e):
            ee = strip_pre(e)
            if isinstance(ee, ast.Compare) and len(ee.ops) == 1 and isinstance(ee.ops[0], ast.In) and norm(ee.left).endswith(".suffix") and norm(ee.left).startswith("<elem>("):
                rhs = ee.comparators[0]
                if isinstance(rhs, (ast.Tuple, ast.List, ast.Set)) and all(isinstance(c, ast.Constant) for c in rhs.elts):
                    seen_sets.append(sorted(c.value for c in rhs.elts))
                return match
            return None
        return atom
    good = True
    for match in (True, False):
        outs = [x for x in Interp(wf, mkw(match)).run() if any("loop body once" in t for t in x.trace)]
        ys = sorted({norm(strip_pre(y)) for x in outs for y in x.yields})
        want_y = [] if not match else None
        if match:
            good = good and len(ys) == 1 and ys[0] in ("<elem>(path.glob('**/*'))", "<elem>(path.rglob('*'))")
        else:
            good = good and ys == []
    good = good and bool(seen_sets) and all(sset == [".gql", ".graphql", ".graphqls"] for sset in seen_sets)
    ctx.check(good, key(wf, "walk"), "GraphQL files are not found recursively by the three documented suffixes", wf.loc(), okmsg="recursive walk over .graphql/.graphqls/.gql")
    for fk in ("schema:get_graphql_schema_from_path", "schema:get_graphql_queries"):
        f2 = repo.func(fk)
        cs = calls_named(f2.node, "load_graphql_files_from_path")
        ps = calls_named(f2.node, "parse")
        good = len(cs) == 1 and len(ps) == 1 and isinstance(allargs(ps[0])[0], ast.Name)
        ctx.check(good, key(f2, "source"), "text is not loaded through load_graphql_files_from_path and parsed as one document", f2.loc(), okmsg=f"{f2.qualname}: one document from all files")
    # the two schema sources agree on whether the built schema counts as already validated (else one and the same schema is accepted
    # from one source and rejected from the other by assert_valid_schema in main)
    modes = {}
    for fn, builder in (("get_graphql_schema_from_path", "build_ast_schema"), ("get_graphql_schema_from_url", "build_client_schema")):
        f3 = repo.func("schema:" + fn)
        bs = calls_named(f3.node, builder)
        if len(bs) != 1:
            raise AnalysisError(f"{fn}: expected one {builder} call, found {len(bs)}")
        av = kw(bs[0], "assume_valid")
        modes[fn] = "False" if av is None else str(norm(av))
    ctx.check(len(set(modes.values())) == 1, "schema::get_graphql_schema_from_path~get_graphql_schema_from_url::validation mode",
              f"the schema sources disagree on assume_valid: {modes}: a schema that assert_valid_schema rejects when loaded from a file is accepted when introspected (or the other way round)",
              repo.func("schema:get_graphql_schema_from_path").loc(), okmsg=f"file and URL sources build the schema with the same assume_valid ({sorted(set(modes.values()))[0]})")


_INTRO = [
    # name, url_invalid, status_ok, json_raises, is_dict, has_data, errors_truthy, data_is_dict, expected
    ("invalid URL", True, None, None, None, None, None, None, "raise"),
    ("non-2xx", False, False, None, None, None, None, None, "raise"),
    ("body not JSON", False, True, True, None, None, None, None, "raise"),
    ("JSON not an object", False, True, False, False, None, None, None, "raise"),
    ("object without data", False, True, False, True, False, None, None, "raise"),
    ("errors reported", False, True, False, True, True, True, None, "raise"),
    ("data not an object", False, True, False, True, True, False, False, "raise"),
    ("valid result", False, True, False, True, True, False, True, "return"),
]


@rule("C19.R3", "every introspection failure surfaces as IntrospectionError; the data member is returned otherwise", min_instances=8)
def c19_r3(ctx):
    fi = ctx.repo.func("schema:introspect_remote_schema")
    POST = "httpx.post("
    for name, url_bad, status_ok, jraises, is_dict, has_data, errs, data_dict, want in _INTRO:
        def raises(c):
            t = norm(c)
            if t.startswith(POST) and url_bad:
                return "InvalidURL"
            if t.endswith(".json()") and jraises:
                return "ValueError"
            return None
        def atom(e):
            t = norm(strip_pre(e))
            R = None
            if t.endswith(".is_success") and POST in t:
                return status_ok
            if t.startswith("isinstance(") and t.endswith(".json(), dict)"):
                return is_dict
            if t.startswith("'data' in ") and t.endswith(".json()"):
                return has_data if is_dict else None
            if t.endswith(".json().get('errors')"):
                return errs
            if t.startswith("isinstance(") and t.endswith(".json()['data'], dict)"):
                return data_dict
            return None
        catches = lambda h, x: h == x or (x == "ValueError" and h in ("ValueError", "Exception", "BaseException")) or (x == "InvalidURL" and h in ("InvalidURL", "Exception"))
        it = Interp(fi, atom, raises=raises, catches=catches)
        o = it.run()
        if want == "raise":
            good = bool(o) and all(x.kind == "raise" and x.exc == "IntrospectionError" for x in o)
        else:
            good = len(o) == 1 and o[0].kind == "return" and norm(strip_pre(o[0].value)).endswith(".json()['data']")
        ctx.check(good, key(fi, f"response: {name}"), f"introspection response '{name}' must {'raise IntrospectionError' if want == 'raise' else 'return the data member'}; got {[x.text()[:100] for x in o]}"
                  + (f" (undecided: {it.unknown_tests})" if it.unknown_tests else ""), fi.loc(), okmsg=f"introspection [{name}] -> {'IntrospectionError' if want == 'raise' else 'data'}")


@rule("C19.R4", "configured headers (with $ENV substitution) and the TLS flag are what the introspection request sends", min_instances=6, also=["C17"])
def c19_r4(ctx):
    repo = ctx.repo
    fi = repo.func("schema:introspect_remote_schema")
    posts = calls_named(fi.node, "httpx.post")
    good = len(posts) == 1
    if good:
        p = posts[0]
        good = norm(allargs(p)[0] if allargs(p) else kw(p, "url")) == "url" and norm(kw(p, "headers") or ast.Constant(0)) == "headers" and norm(kw(p, "verify") or ast.Constant(0)) == "verify_ssl"
        j = kw(p, "json")
        good = good and isinstance(j, ast.Dict) and norm(j.keys[0]) == "'query'" and norm(j.values[0]).startswith("get_introspection_query(")
    ctx.check(good, key(fi, "request"), "introspection request does not post the introspection query to url with the given headers and verify flag", fi.loc(), okmsg="httpx.post(url, json={query}, headers=headers, verify=verify_ssl)")
    gu = repo.func("schema:get_graphql_schema_from_url")
    cs = calls_named(gu.node, "introspect_remote_schema")
    good = len(cs) == 1 and norm(kw(cs[0], "url") or ast.Constant(0)) == "url" and norm(kw(cs[0], "headers") or ast.Constant(0)) == "headers" and norm(kw(cs[0], "verify_ssl") or ast.Constant(0)) == "verify_ssl"
    ctx.check(good, key(gu, "forward"), "url/headers/verify_ssl are not forwarded to the introspection request", gu.loc(), okmsg="get_graphql_schema_from_url forwards url, headers, verify_ssl")
    for fn in ("client", "graphql_schema"):
        m = repo.func("main:" + fn)
        cs = calls_named(m.node, "get_graphql_schema_from_url")
        good = len(cs) == 1 and norm(kw(cs[0], "url") or ast.Constant(0)) == "settings.remote_schema_url" and norm(kw(cs[0], "headers") or ast.Constant(0)) == "settings.remote_schema_headers" \
            and norm(kw(cs[0], "verify_ssl") or ast.Constant(0)) == "settings.remote_schema_verify_ssl"
        ctx.check(good, key(m, "settings"), f"main.{fn} does not pass the configured url / headers / verify flag", m.loc(), okmsg=f"main.{fn}: configured url, headers, verify flag used")
        # path has precedence only when set
        o = Interp(m, lambda e: (False if norm(e) == "settings.schema_path" else None)).run()
    bs = repo.func("settings:BaseSettings.__post_init__")
    g = cfg_of(bs)
    is_resolve = lambda n: n.ast is not None and isinstance(n.ast, ast.Assign) and norm(n.ast.targets[0]) == "self.remote_schema_headers" and norm(n.ast.value) == "resolve_headers(self.remote_schema_headers)"
    sites = [n for n in g.stmts() if is_resolve(n)]
    ctx.check(bool(sites), key(bs, "resolve"), "remote_schema_headers are not resolved in __post_init__", bs.loc(), okmsg="headers resolved when settings are built")
    if sites:
        path = g.must_pass(g.entry, [g.exit], is_resolve)
        ctx.check(path is None, key(bs, "resolve on every path"),
                  "settings can be built without resolving the headers: " + (g.path_str(path) if path else "") + " - a `$NAME` header whose variable is missing is then accepted silently (and sent verbatim if the URL is used) "
                  "instead of failing with InvalidConfiguration when the configuration is read", bs.loc(), okmsg="every accepted configuration has passed header resolution")
    rh = repo.func("settings:resolve_headers")
    good = norm(rh.node.body[-1]) == "return {key: get_header_value(value) for key, value in headers.items()}"
    ctx.check(good, key(rh, "each"), "not every header value is resolved (keys unchanged)", rh.loc(), okmsg="every header value resolved, keys unchanged")
    hv = repo.func("settings:get_header_value")
    o = Interp(hv, lambda e: (True if norm(strip_pre(e)).startswith("value.startswith(") else True if "os.environ.get" in norm(strip_pre(e)) else None)).run()
    good = len(o) == 1 and o[0].kind == "return" and "os.environ.get(value.lstrip(" in norm(strip_pre(o[0].value))
    ctx.check(good, key(hv, "env"), f"$NAME is not replaced by the environment variable NAME: {[x.text() for x in o]}", hv.loc(), okmsg="$NAME -> os.environ[NAME]")
    o = Interp(hv, lambda e: (False if norm(strip_pre(e)).startswith("value.startswith(") else None)).run()
    ctx.check(len(o) == 1 and norm(o[0].value) == "value", key(hv, "literal"), "a literal header value is changed", hv.loc(), okmsg="literal header value unchanged")
