"""importing this package registers every rule"""
from . import clients  # noqa: F401
from . import determinism  # noqa: F401
from . import results  # noqa: F401
from . import package  # noqa: F401
from . import typemap  # noqa: F401
from . import naming  # noqa: F401
from . import schemagen  # noqa: F401
from . import plugins_ops  # noqa: F401
from . import generic  # noqa: F401
from . import runtime  # noqa: F401
from . import options  # noqa: F401
from . import tables  # noqa: F401
