"""importing this package registers every rule"""
from . import clients  # noqa: F401
