"""C15 (bundled plugins) and C14 (custom operation builder)."""
from __future__ import annotations

import ast
from typing import Dict, List, Optional, Set, Tuple

from ..absint import Interp
from ..model import AnalysisError, ClassInfo, FuncInfo, dotted, norm, walk_no_nested
from ..report import rule
from ..shape import Alt, Attr, CallV, Lit, ListOf, Node, OrV, Param, Seq, Shaper, alts, chain, is_lit, nodes, seq_items
from ..util import argv, allargs, calls_named, cfg_of, is_const, is_name, key, kw, names_in, strip_pre

PB = "plugins.base:Plugin"
PM = "plugins.manager:PluginManager"


def _hooks(ci: ClassInfo) -> Dict[str, FuncInfo]:
    return {n: f for n, f in ci.methods.items() if not n.startswith("_")}


# ====================================================================== C15
@rule("C15.R1", "a plugin that overrides nothing changes nothing: every base hook returns its object unchanged", min_instances=25)
def c15_r1(ctx):
    ci = ctx.repo.cls(PB)
    for name, fi in sorted(_hooks(ci).items()):
        body = [s for s in fi.node.body if not (isinstance(s, ast.Expr) and isinstance(s.value, ast.Constant))]
        params = [a.arg for a in fi.node.args.args if a.arg != "self"]
        good = len(body) == 1 and isinstance(body[0], ast.Return) and params and is_name(body[0].value, params[0])
        ctx.check(good, key(fi, "identity"), f"base hook {name} must be `return {params[0] if params else '?'}` and nothing else", fi.loc(), okmsg=f"Plugin.{name} is the identity")


@rule("C15.R2", "hooks are applied to every plugin in configuration order, threading the result", min_instances=28)
def c15_r2(ctx):
    repo = ctx.repo
    pm = repo.cls(PM)
    ap = repo.func(PM + "._apply_plugins_on_object")
    o = [x for x in Interp(ap, lambda e: None).run() if any("loop body once" in t for t in x.trace)]
    good = len(o) == 1 and norm(strip_pre(o[0].value)) == "getattr(<elem>(self.plugins), method_name)(obj, *args, **kwargs)"
    ctx.check(good, key(ap, "thread"), f"each plugin's hook must receive the previous result and all extra arguments; got {[x.text() for x in o]}", ap.loc(), okmsg="result threaded through plugins in list order")
    # loop-carried value: X = method(X, ...), returned X, no early exit
    lps = [n for n in ap.node.body if isinstance(n, ast.For)]
    carried = False
    if len(lps) == 1 and norm(lps[0].iter) == "self.plugins":
        rets = [n for n in ap.node.body if isinstance(n, ast.Return)]
        for st in lps[0].body:
            if isinstance(st, ast.Assign) and isinstance(st.targets[0], ast.Name) and isinstance(st.value, ast.Call) and allargs(st.value) and is_name(allargs(st.value)[0], st.targets[0].id) \
                    and len(rets) == 1 and is_name(rets[0].value, st.targets[0].id):
                carried = True
        if any(isinstance(n, (ast.Break, ast.Return, ast.Continue)) for n in ast.walk(lps[0])):
            carried = False
    ctx.check(carried, key(ap, "loop-carried"), "each plugin must receive the result of the previous plugin (X = hook(X, ...)) and the loop must not exit early", ap.loc(), okmsg="X = hook(X, ...) for every plugin, no early exit, X returned")
    o0 = [x for x in Interp(ap, lambda e: None).run() if any("loop skipped" in t for t in x.trace)]
    ctx.check(len(o0) == 1 and norm(o0[0].value) == "obj", key(ap, "no plugins"), "without plugins the object must be returned unchanged", ap.loc(), okmsg="no plugins -> object unchanged")
    # (how the plugin list is built - one instance per configured class, in order - is decided by C15.R18)
    ex = repo.func("plugins.explorer:get_plugins_types")
    lp = [n for n in ex.node.body if isinstance(n, ast.For)]
    good = len(lp) == 1 and norm(lp[0].iter) == ex.node.args.args[0].arg and all("classes.extend(" in norm(s) or "classes.append(" in norm(s) for s in ast.walk(lp[0]) if isinstance(s, ast.Expr))
    rets = [n for n in ex.node.body if isinstance(n, ast.Return)]
    ctx.check(good and len(rets) == 1 and norm(rets[0].value) == "classes", key(ex, "order"), "plugin types are not collected in configuration order", ex.loc(), okmsg="plugin types collected in configuration order")
    for name, fi in sorted(_hooks(pm).items()):
        body = [s for s in fi.node.body if not (isinstance(s, ast.Expr) and isinstance(s.value, ast.Constant))]
        params = [a.arg for a in fi.node.args.args if a.arg != "self"]
        if name == "process_schema":
            # hand-written loop: threads the schema through the plugins in order and publishes it to all of them
            o = [x for x in Interp(fi, lambda e: None).run() if any("loop body once" in t for t in x.trace)]
            good = bool(o) and all(norm(strip_pre(x.value)) in ("<elem>(self.plugins).process_schema(schema)", "plugin.process_schema(schema)")
                                   and norm(x.env.get("plugin") or ast.Constant(0)) == "<elem>(self.plugins)" or norm(strip_pre(x.value)) == "<elem>(self.plugins).process_schema(schema)" for x in o)
            ctx.check(good, key(fi, "forward"), f"process_schema must thread the schema through every plugin in order; got {[x.text() for x in o]}", fi.loc(), okmsg="PluginManager.process_schema threads the schema in plugin order")
            continue
        good = len(body) == 1 and isinstance(body[0], ast.Return) and isinstance(body[0].value, ast.Call) and dotted(body[0].value.func) == "self._apply_plugins_on_object"
        if good:
            c = body[0].value
            good = len(allargs(c)) >= 2 and is_const(allargs(c)[0], name) and is_name(allargs(c)[1], params[0])
            rest = params[1:]
            passed = {k.arg: k.value for k in c.keywords}
            pos = [a for a in c.args[2:]]
            good = good and all((p in passed and is_name(passed[p], p)) for p in rest[len(pos):]) and all(is_name(a, p) for a, p in zip(pos, rest)) and set(passed) <= set(rest)
        ctx.check(good, key(fi, "forward"), f"manager hook {name} must dispatch to the plugins' hook of the same name with all its arguments", fi.loc(), okmsg=f"PluginManager.{name} dispatches '{name}' with all arguments")


@rule("C15.R3", "Plugin and PluginManager expose the same hooks, and every hook is called by the generators", min_instances=28)
def c15_r3(ctx):
    repo = ctx.repo
    a, b = set(_hooks(repo.cls(PB))), set(_hooks(repo.cls(PM)))
    ctx.check(a == b, "plugins::hook tables", f"hooks differ: only in Plugin {sorted(a - b)}, only in PluginManager {sorted(b - a)}", "", okmsg=f"{len(a)} hooks in both Plugin and PluginManager")
    called: Dict[str, str] = {}
    for fi in repo.all_functions():
        if fi.module.short.startswith("plugins"):
            continue
        for c in walk_no_nested(fi.node):
            if isinstance(c, ast.Call) and isinstance(c.func, ast.Attribute) and norm(c.func.value).endswith("plugin_manager") and c.func.attr in b:
                called.setdefault(c.func.attr, fi.key)
    for h in sorted(b):
        ctx.check(h in called, f"plugins::hook {h} call site", f"hook {h} is never invoked by the generators: a plugin overriding it has no effect", "", okmsg=f"{h} invoked from {called.get(h)}")
    # signatures agree
    for h in sorted(a & b):
        pa = [x.arg for x in repo.cls(PB).methods[h].node.args.args]
        pb = [x.arg for x in repo.cls(PM).methods[h].node.args.args]
        if pa != pb:
            ctx.fail(f"plugins::hook {h} signature", f"Plugin.{h}{pa} and PluginManager.{h}{pb} take different parameters", "")


ALLOWED_STORES = {
    ("contrib.no_reimports", "NoReimportsPlugin.generate_init_module"): {"module.body"},
    ("contrib.extract_operations", "ExtractOperationsPlugin.generate_client_method"): {"method_def.body", "keyword.value"},
    ("contrib.extract_operations", "ExtractOperationsPlugin.generate_init_module"): {"module.body.insert()", "cast(ast.List, cast(ast.Assign, module.body[-1]).value).elts"},
    ("contrib.extract_operations", "ExtractOperationsPlugin.generate_client_module"): {"module.body.insert()"},
    ("contrib.shorter_results", "ShorterResultsPlugin.generate_client_module"): {"stmt.names.append()", "module.body.insert()"},
    ("contrib.shorter_results", "ShorterResultsPlugin._generate_subscription_client_method"): {"method_def.returns", "method_def.body[-1]"},
    ("contrib.shorter_results", "ShorterResultsPlugin._generate_query_and_mutation_client_method"): {"method_def.returns", "method_def.body[-1]"},
    ("contrib.shorter_results", "_update_node"): {"node.id", "node.slice", "node.elts[i]"},
    ("contrib.client_forward_refs", "ClientForwardRefsPlugin.generate_client_module"): {"method_def.returns"},
    ("contrib.client_forward_refs", "ClientForwardRefsPlugin._rewrite_input_args_to_constants"): {"method_def.args.args[i].annotation"},
    ("contrib.client_forward_refs", "ClientForwardRefsPlugin._insert_import_statement_in_method"): {"method_def.body.insert()"},
    ("contrib.client_forward_refs", "ClientForwardRefsPlugin._update_existing_imports"): {"node.names", "module.body"},
    ("contrib.client_forward_refs", "ClientForwardRefsPlugin._add_forward_ref_imports"): {"module.body.insert()", "type_checking_imports[self.imported_classes[cls]].names.append()"},
    ("contrib.client_forward_refs", "ClientForwardRefsPlugin._update_name_to_constant"): {"node.slice", "node.elts[i]"},
}
AST_MUTATORS = {"append", "extend", "insert", "pop", "remove", "clear", "sort", "reverse"}


def _ast_stores(fi: FuncInfo) -> Set[str]:
    out = set()
    locals_built = set()
    for n in walk_no_nested(fi.node):
        if isinstance(n, ast.Assign) and len(n.targets) == 1 and isinstance(n.targets[0], ast.Name) and isinstance(n.value, (ast.List, ast.Dict, ast.ListComp, ast.Set)):
            locals_built.add(n.targets[0].id)
        if isinstance(n, ast.AnnAssign) and isinstance(n.target, ast.Name) and isinstance(n.value, (ast.List, ast.Dict, ast.ListComp, ast.Set)):
            locals_built.add(n.target.id)
    # locals that merely name a part of an object (`x = cast(T, obj.attr)`, `x = obj.attr[0]`), assigned once: a store through
    # them is a store into that part
    import copy as _copy
    assigned: Dict[str, List[ast.AST]] = {}
    for n in walk_no_nested(fi.node):
        if isinstance(n, ast.Assign):
            for tg in n.targets:
                for nm in ast.walk(tg):
                    if isinstance(nm, ast.Name) and isinstance(nm.ctx, ast.Store):
                        assigned.setdefault(nm.id, []).append(n.value if tg is nm else None)
        elif isinstance(n, (ast.AnnAssign, ast.AugAssign)) and isinstance(n.target, ast.Name):
            assigned.setdefault(n.target.id, []).append(n.value if isinstance(n, ast.AnnAssign) else None)
        elif isinstance(n, (ast.For, ast.AsyncFor, ast.comprehension)):
            for nm in ast.walk(n.target):
                if isinstance(nm, ast.Name):
                    assigned.setdefault(nm.id, []).append(None)
        elif isinstance(n, ast.withitem) and n.optional_vars is not None:
            for nm in ast.walk(n.optional_vars):
                if isinstance(nm, ast.Name):
                    assigned.setdefault(nm.id, []).append(None)

    def _is_view(v):
        v0 = v
        if isinstance(v0, ast.Call) and isinstance(v0.func, ast.Name) and v0.func.id == "cast" and len(v0.args) == 2:
            v0 = v0.args[1]
        return isinstance(v0, (ast.Attribute, ast.Subscript)) or (isinstance(v0, ast.Call) and isinstance(v0.func, ast.Name) and v0.func.id == "cast")
    views = {k: vs[0] for k, vs in assigned.items() if len(vs) == 1 and vs[0] is not None and _is_view(vs[0]) and k not in {a.arg for a in fi.node.args.args}}

    class _V(ast.NodeTransformer):
        def visit_Name(self, nm):
            if isinstance(nm.ctx, ast.Load) and nm.id in views:
                return self.visit(_copy.deepcopy(views[nm.id]))
            return nm

    def _resolved(x):
        y = _copy.deepcopy(x)
        if isinstance(y, (ast.Attribute, ast.Subscript)):
            y.value = _V().visit(y.value)
            return y
        return _V().visit(y)
    for n in walk_no_nested(fi.node):
        t = None
        if isinstance(n, (ast.Attribute, ast.Subscript)) and isinstance(n.ctx, (ast.Store, ast.Del)):
            n = _resolved(n)
            root = n
            while isinstance(root, (ast.Attribute, ast.Subscript, ast.Call)):
                root = root.value if not isinstance(root, ast.Call) else (allargs(root)[1] if len(allargs(root)) > 1 else root.func)
            if isinstance(root, ast.Name) and root.id in ("self",) or (isinstance(root, ast.Name) and root.id in locals_built and isinstance(n, ast.Subscript) and isinstance(n.value, ast.Name)):
                continue
            t = norm(n)
        elif isinstance(n, ast.Call) and isinstance(n.func, ast.Attribute) and n.func.attr in AST_MUTATORS:
            n = _copy.deepcopy(n)
            n.func.value = _V().visit(n.func.value)
            root = n.func.value
            while isinstance(root, (ast.Attribute, ast.Subscript)):
                root = root.value
            if isinstance(root, ast.Name) and (root.id == "self" or (root.id in locals_built and isinstance(n.func.value, ast.Name))):
                continue
            t = norm(n.func) + "()"
        if t:
            out.add(t)
    return out


@rule("C15.R4", "bundled plugins modify only what their documentation says (write sets of every overriding hook)", min_instances=15)
def c15_r4(ctx):
    repo = ctx.repo
    for ms in ("contrib.no_reimports", "contrib.extract_operations", "contrib.shorter_results", "contrib.client_forward_refs"):
        m = repo.mod(ms)
        for q, fi in sorted(m.functions.items()):
            stores = _ast_stores(fi)
            allowed = ALLOWED_STORES.get((ms, q), set())
            extra = sorted(stores - allowed)
            if extra:
                ctx.fail(key(fi, f"stores {extra[0]}"), f"{q} writes {extra}: outside the plugin's documented change (allowed here: {sorted(allowed) or 'nothing'})", fi.loc())
            elif stores or (ms, q) in ALLOWED_STORES:
                ctx.ok(f"{ms}:{q} writes only {sorted(stores)}", fi.loc())
    # NoReimports empties the module and returns it
    nr = repo.func("contrib.no_reimports:NoReimportsPlugin.generate_init_module")
    ctx.check(norm(nr.node.body[0]) == "module.body = []" and norm(nr.node.body[-1]) == "return module", key(nr, "empty"), "NoReimports does not just empty __init__", nr.loc(), okmsg="NoReimports: module.body = []")
    # ExtractOperations: drops exactly the first statement (the operation string) and rebinds query=
    eo = repo.func("contrib.extract_operations:ExtractOperationsPlugin.generate_client_method")
    good = norm(eo.node.body[0]) == "method_def.body = method_def.body[1:]"
    st = [n for n in walk_no_nested(eo.node) if isinstance(n, ast.If) and norm(n.test) == "keyword.arg == 'query'"]
    good = good and len(st) == 1 and len(st[0].body) == 1 and isinstance(st[0].body[0], ast.Assign) and norm(st[0].body[0].targets[0]) == "keyword.value" \
        and isinstance(st[0].body[0].value, ast.Call) and dotted(st[0].body[0].value.func) == "generate_name" and norm(argv(st[0].body[0].value, 0, "name") or ast.Constant(0)).startswith("self._operations_variables[")
    ctx.check(good, key(eo, "rebinding"), "ExtractOperations must drop only the operation-string statement and rebind only the query keyword", eo.loc(), okmsg="ExtractOperations: body[1:], query=<OPERATION>_GQL")
    gi = repo.func("contrib.extract_operations:ExtractOperationsPlugin.generate_init_module")
    g_ = cfg_of(gi)
    wr = [n for n in g_.stmts() if n.kind == "stmt" and n.ast is not None and calls_named(n.ast, "self._generate_operations_module")]
    bad = g_.must_pass(g_.entry, [g_.exit], lambda x: any(x.id == y.id for y in wr)) if wr else ["x"]
    ctx.check(bool(wr) and bad is None, key(gi, "operations module written"), "a path through generate_init_module skips writing the operations module (e.g. when an earlier plugin emptied __init__): client.py then imports a module that does not exist", gi.loc(),
              okmsg="operations module written on every path")
    gs = repo.func("contrib.extract_operations:ExtractOperationsPlugin.generate_operation_str")
    rets = [n for n in gs.node.body if isinstance(n, ast.Return)]
    good = len(rets) == 1 and is_name(rets[0].value, "operation_str") and any(norm(s) == "self._operations_gqls[operation_name] = operation_str" for s in gs.node.body)
    ctx.check(good, key(gs, "same string"), "the extracted operation string is not the one the client would have embedded", gs.loc(), okmsg="ExtractOperations stores and returns the operation string unchanged")


@rule("C15.R5", "ShorterResults returns exactly the single top-level field of the unplugged result", min_instances=4)
def c15_r5(ctx):
    repo = ctx.repo
    SR = "contrib.shorter_results:"
    q = repo.func(SR + "ShorterResultsPlugin._generate_query_and_mutation_client_method")
    stores = [st for st in walk_no_nested(q.node) if isinstance(st, ast.Assign) and norm(st.targets[0]) == "method_def.body[-1]"]
    good = len(stores) == 1 and norm(stores[0].value) == "generate_return(value=generate_attribute(value=return_stmt.value, attr=single_field_return_class))"
    ctx.check(good, key(q, "unwrap"), "the new return value is not `<previous return value>.<single field>`", q.loc(), okmsg="query/mutation: return <previous value>.<field>")
    s = repo.func(SR + "ShorterResultsPlugin._generate_subscription_client_method")
    stores = [st for st in walk_no_nested(s.node) if isinstance(st, ast.Assign) and norm(st.targets[0]) == "method_def.body[-1]"]
    good = len(stores) == 1 and "generate_yield(value=generate_attribute(value=previous_yield_value, attr=single_field_return_class))" in norm(stores[0].value) \
        and "target=async_for_stmt.target" in norm(stores[0].value) and "iter_=async_for_stmt.iter" in norm(stores[0].value)
    pv = [st for st in walk_no_nested(s.node) if isinstance(st, ast.Assign) and is_name(st.targets[0], "previous_yield_value")]
    good = good and len(pv) == 1 and norm(pv[0].value) == "_get_yield_value_from_async_for(method_def.body[-1])"
    ctx.check(good, key(s, "unwrap"), "the new yield value is not `<previous yield value>.<single field>` over the same iterator", s.loc(), okmsg="subscription: yield <previous value>.<field>, same loop")
    md = repo.func(SR + "ShorterResultsPlugin._modify_method_def")
    good = "last_stmt = method_def.body[-1]" in norm(md.node) and "self._generate_query_and_mutation_client_method(method_def, last_stmt)" in norm(md.node)
    ctx.check(good, key(md, "last statement"), "the statement rewritten is not the method's last (return) statement", md.loc(), okmsg="rewrites the final return / loop only")
    rc = repo.func(SR + "_return_or_yield_node_and_class")

    def mk(n_is_one):
        def atom(e):
            t = norm(strip_pre(e))
            if t == "current_return_class not in class_dict":
                return False
            if t.startswith("len(") and t.endswith("!= 1"):
                return not n_is_one
            if t.startswith("isinstance("):
                return True
            return None
        return atom
    o = Interp(rc, mk(False)).run()
    ctx.check(bool(o) and all(x.kind == "return" and (x.value is None or is_const(x.value, None)) for x in o), key(rc, "several fields"), "a result with several top-level fields must be left alone", rc.loc(), okmsg="!= 1 top-level field -> unchanged")
    o = Interp(rc, mk(True)).run()
    good = len(o) == 1 and isinstance(o[0].value, ast.Tuple) and norm(strip_pre(o[0].value.elts[2])).endswith("[0].target.id") and "_get_all_fields(class_dict[current_return_class], class_dict)" in norm(strip_pre(o[0].value.elts[2]))
    ctx.check(good, key(rc, "single field"), f"the unwrapped attribute is not the Python name of the single field (bases included): {[x.text()[:160] for x in o]}", rc.loc(), okmsg="exactly one field (bases included) -> its Python name")


@rule("C15.R6", "ExtractOperations embeds the operation strings by the same line splitting as the client", min_instances=2, also=["C02"])
def c15_r6(ctx):
    repo = ctx.repo
    a = repo.func("contrib.extract_operations:ExtractOperationsPlugin._get_operations_module")
    b = repo.func("client_generators.client:ClientGenerator._generate_operation_str_assign")

    def elt(fi, var_hint):
        comps = [n for n in walk_no_nested(fi.node) if isinstance(n, (ast.ListComp, ast.GeneratorExp)) and "splitlines()" in norm(n.generators[0].iter)]
        if len(comps) != 1:
            raise AnalysisError(f"{fi.key}: line-splitting comprehension not found")
        c = comps[0]
        import copy as _copy
        lv = norm(c.generators[0].target)

        class _R(ast.NodeTransformer):
            def visit_Name(self, n):
                return ast.copy_location(ast.Name(id="LINE", ctx=n.ctx), n) if n.id == lv else n
        return norm(_R().visit(_copy.deepcopy(c.elt))), norm(c.generators[0].iter).split(".splitlines")[0], [norm(_R().visit(_copy.deepcopy(i))) for i in c.generators[0].ifs]
    ea, srca, ifa = elt(a, "gql")
    eb, srcb, ifb = elt(b, "operation_str")
    ctx.check(ea == eb and ifa == ifb == [], key(a, "line constants"), f"operations module builds lines as {ea} {ifa}, the client as {eb} {ifb}", a.loc(), okmsg=f"both emit {ea} per line, unfiltered")
    comp = [n for n in walk_no_nested(a.node) if isinstance(n, (ast.ListComp, ast.GeneratorExp)) and norm(n.generators[0].iter) == "self._operations_gqls.items()"]
    from ..util import comp_struct as _cs2
    good = len(comp) == 1 and "targets=[self._operations_variables[$0_0]]" in _cs2(comp[0])[0]
    ctx.check(good, key(a, "one constant per operation"), "not every stored operation string gets its module constant", a.loc(), okmsg="one module constant per stored operation")


@rule("C15.R7", "ImportFrom nodes are built with a level consistent with their module text", min_instances=6, also=["C04"])
def c15_r7(ctx):
    repo = ctx.repo
    sites = 0
    for fi in repo.all_functions():
        ms = fi.module.short
        if ms.startswith("client_generators.dependencies"):
            continue
        # attributes / locals holding dotted module text: X = "." * n.level + n.module
        dotted_text_vars: Set[str] = set()
        cls = fi.cls
        scope_funcs = list(cls.methods.values()) if cls is not None else [fi]
        dotted_attrs: Set[str] = set()
        for f2 in scope_funcs:
            local_dotted = set()
            for st in walk_no_nested(f2.node):
                if isinstance(st, ast.Assign) and len(st.targets) == 1:
                    v = norm(st.value)
                    if "'.' *" in v and ".level" in v and ".module" in v and isinstance(st.targets[0], ast.Name):
                        local_dotted.add(st.targets[0].id)
            for st in walk_no_nested(f2.node):
                if isinstance(st, ast.Assign) and len(st.targets) == 1 and isinstance(st.targets[0], ast.Subscript) and isinstance(st.value, ast.Name) and st.value.id in local_dotted:
                    dotted_attrs.add(norm(st.targets[0].value))
                if isinstance(st, ast.Assign) and len(st.targets) == 1 and isinstance(st.targets[0], ast.Subscript) and isinstance(st.value, ast.JoinedStr) and norm(st.value).startswith("f'."):
                    dotted_attrs.add(norm(st.targets[0].value))
        env = {st.targets[0].id: st.value for st in walk_no_nested(fi.node) if isinstance(st, ast.Assign) and len(st.targets) == 1 and isinstance(st.targets[0], ast.Name)}
        loop_env = {}
        for lp in walk_no_nested(fi.node):
            if isinstance(lp, ast.For) and isinstance(lp.target, ast.Tuple) and isinstance(lp.iter, ast.Call) and isinstance(lp.iter.func, ast.Attribute) and lp.iter.func.attr == "items":
                loop_env[norm(lp.target.elts[0])] = norm(lp.iter.func.value)
        for c in walk_no_nested(fi.node):
            if not isinstance(c, ast.Call):
                continue
            d = dotted(c.func)
            if d == "ast.ImportFrom":
                mod, lvl = kw(c, "module"), kw(c, "level")
            elif d == "generate_import_from":
                mod, lvl = kw(c, "from_") or (allargs(c)[1] if len(allargs(c)) > 1 else None), kw(c, "level") or (allargs(c)[2] if len(allargs(c)) > 2 else None)
            else:
                continue
            if mod is None:
                continue
            sites += 1
            m0 = env.get(mod.id, mod) if isinstance(mod, ast.Name) else mod
            mt = norm(m0)
            is_dotted = any(mt.startswith(a + "[") for a in dotted_attrs) or (isinstance(mod, ast.Name) and loop_env.get(mod.id) in dotted_attrs) or ("'.' *" in mt)
            lv = None
            if lvl is None:
                lv = 0
            elif isinstance(lvl, ast.Constant):
                lv = lvl.value
            absolute = None
            try:
                cv = repo.const_eval(fi.module, m0)
                if isinstance(cv, str):
                    absolute = cv
            except Exception:
                pass
            if is_dotted:
                ctx.check(lv == 0, key(fi, f"ImportFrom module={mt[:50]}"), f"module text {mt[:60]} already carries its leading dots but level={norm(lvl) if lvl is not None else 0}: unparses to `from ..x import` (one level too high)", fi.loc(c),
                          okmsg=f"{fi.key}: dotted module text with level 0")
            elif mt.endswith(".stem") or mt.endswith("_module_name") or (mt == "module_name" and ms == "client_generators.package"):
                # a sibling module of the generated package (named after a file of the package / a configured module name)
                ctx.check(lv == 1, key(fi, f"ImportFrom module={mt[:50]}"), f"`{mt[:60]}` names a sibling module of the generated package but is imported with level={norm(lvl) if lvl is not None else 0}: "
                          f"`from {mt.split('.')[0][:20]}... import` resolves against sys.path, not against the package (ModuleNotFoundError when the package is imported)", fi.loc(c),
                          okmsg=f"{fi.key}: sibling module {mt[:40]} with level 1")
            elif absolute in ("typing", "graphql", "pydantic", "enum", "graphql.type.schema"):
                ctx.check(lv == 0, key(fi, f"ImportFrom module={absolute}"), f"library module {absolute!r} imported with level={norm(lvl) if lvl is not None else 0}: `from .{absolute} import ...` does not exist in the package", fi.loc(c),
                          okmsg=f"{fi.key}: library module {absolute} with level 0")
    if sites < 20:
        ctx.error(f"only {sites} ImportFrom construction sites found")
    ctx.note(f"{sites} ImportFrom construction sites scanned")


# ====================================================================== C14
CF = "client_generators.custom_fields:CustomFieldsGenerator."
BO = "client_generators.dependencies.base_operation:"


@rule("C14.R1", "fields and arguments of built documents carry their GraphQL names", min_instances=5)
def c14_r1(ctx):
    repo = ctx.repo
    sh = Shaper(repo)
    # plain attribute fields
    fi = repo.func(CF + "_generate_class_field")
    v = sh.call_function(fi)
    anns = [n for n in nodes(v, "AnnAssign")]
    good = len(anns) == 1
    if good:
        call = anns[0].get("value")
        args = seq_items(call.get("args")) if isinstance(call, Node) else []
        good = len(args) == 1 and isinstance(args[0], Node) and args[0].kind == "Constant" and chain(args[0].get("value")) == "$org_name"
        tgt = anns[0].get("target")
        good = good and isinstance(tgt, Node) and chain(tgt.get("id")) == "$name"
    ctx.check(good, key(fi, "attribute field"), "a plain field object is not constructed with the GraphQL field name (and bound to the Python name)", fi.loc(), okmsg="attribute field: Python name = T('<GraphQL name>')")
    c = calls_named(fi.node, "self.generate_product_type_method")
    good = len(c) == 1 and (kw(c[0], "org_name") is not None and norm(kw(c[0], "org_name")) == "org_name")
    ctx.check(good, key(fi, "method field gets org_name"), "the GraphQL name is not handed to the method-style field generator", fi.loc(), okmsg="method-style field generator receives the GraphQL name")
    # method-style fields
    pm = repo.func(CF + "generate_product_type_method")
    v = sh.call_function(pm)
    rets = [n for n in nodes(v, "Return")]
    good = len(rets) == 1
    why = ""
    if good:
        call = rets[0].get("value")
        args = seq_items(call.get("args")) if isinstance(call, Node) else []
        good = len(args) == 1 and isinstance(args[0], Node) and args[0].kind == "Constant"
        if good:
            val = args[0].get("value")
            src = [chain(x) for x in alts(val)]
            good = "$org_name" in src and all(s in ("$org_name", "$name") for s in src) and src[0] == "$org_name"
            why = f"field constructor argument is {src}"
    ctx.check(good, key(pm, "method field name"), f"a method-style field is constructed with the Python method name instead of the GraphQL field name ({why})", pm.loc(), okmsg="method-style field: T('<GraphQL name>', arguments=...)")
    cl = repo.func(CF + "_generate_class_def_body")
    c = calls_named(cl.node, "self._generate_class_field")
    lp = [n for n in cl.node.body if isinstance(n, ast.For)]
    good = len(c) == 1 and len(lp) == 1 and isinstance(lp[0].target, ast.Tuple)
    if good:
        org = norm(lp[0].target.elts[1].elts[0]) if isinstance(lp[0].target.elts[1], ast.Tuple) else None
        good = org is not None and len(allargs(c[0])) >= 3 and norm(allargs(c[0])[2]) == org
    ctx.check(good, key(cl, "org name source"), "org_name is not the schema's field name", cl.loc(), okmsg="org_name = key of definition.fields")
    # root operations
    co = repo.func("client_generators.custom_operation:CustomOperationGenerator._generate_method")
    v = sh.call_function(co)
    kws = [k for k in nodes(v, "keyword") if is_lit(k.get("arg"), "field_name")]
    good = len(kws) == 1 and isinstance(kws[0].get("value"), Node) and chain(kws[0].get("value").get("value")) == "$operation_name"
    ctx.check(good, key(co, "root field name"), "a root operation field is not constructed with field_name=<GraphQL name>", co.loc(), okmsg="root field: field_name='<GraphQL name>'")
    g = repo.func("client_generators.custom_operation:CustomOperationGenerator.generate")
    c = calls_named(g.node, "self._generate_method")
    lp = [n for n in g.node.body if isinstance(n, ast.For)]
    good = len(c) == 1 and len(lp) == 1 and norm(lp[0].iter) == "self.graphql_fields.items()" and norm(kw(c[0], "operation_name") or ast.Constant(0)) == norm(lp[0].target.elts[0])
    ctx.check(good, key(g, "operation name source"), "operation_name is not the schema's root field name", g.loc(), okmsg="operation_name = key of the root type's fields")
    # arguments
    ar = repo.func("client_generators.custom_arguments:ArgumentGenerator._accumulate_return_arguments")
    good = "return_arguments_keys.append(generate_constant(arg_name))" in norm(ar.node)
    ga = repo.func("client_generators.custom_arguments:ArgumentGenerator.generate_arguments")
    c = calls_named(ga.node, "self._accumulate_return_arguments")
    lp = [n for n in ga.node.body if isinstance(n, ast.For)]
    good = good and len(c) == 1 and len(lp) == 1 and norm(lp[0].iter) == "operation_args.items()" and norm(allargs(c[0])[2]) == norm(lp[0].target.elts[0])
    ctx.check(good, key(ar, "argument names"), "argument dict keys are not the GraphQL argument names", ar.loc(), okmsg="arguments keyed by GraphQL argument name")
    # runtime: ArgumentNode name = v['name'] = original key
    ta = repo.func(BO + "GraphQLField.to_ast")
    good = "GraphQLArgument(v['name'], k).to_ast() for k, v in self.formatted_variables.items()" in norm(ta.node)
    cv = repo.func(BO + "GraphQLField._collect_all_variables")
    good = good and "'name': k" in norm(cv.node) and "for k, v in self._variables.items()" in norm(cv.node)
    ctx.check(good, key(ta, "argument node names"), "ArgumentNode names are not the GraphQL argument names", ta.loc(), okmsg="ArgumentNode(name=<GraphQL argument>, value=$<unique variable>)")


@rule("C14.R2", "every variable is declared with the argument's exact GraphQL type (wrappers included)", min_instances=3)
def c14_r2(ctx):
    repo = ctx.repo
    ar = repo.func("client_generators.custom_arguments:ArgumentGenerator._accumulate_return_arguments")
    # the string emitted under the "type" key of the argument dict, per required-ness scenario (symbolic, so the
    # conditional may be an expression, an if statement or a helper)
    txts = []
    per_req = {True: [], False: []}
    for req in (True, False):
        outs = Interp(ar, lambda e, req=req: (req if norm(strip_pre(e)) == "is_required" else (not req) if norm(strip_pre(e)) == "not is_required" else None),
                      is_effect=lambda c: norm(c.func) == "return_arguments_values.append").run()
        for o in outs:
            for eff in o.effects:
                for c in ast.walk(strip_pre(eff)):
                    if isinstance(c, ast.Call) and dotted(c.func) == "generate_dict":
                        vals = kw(c, "values")
                        if isinstance(vals, ast.List) and vals.elts and isinstance(vals.elts[0], ast.Call) and allargs(vals.elts[0]):
                            v = o.deref(allargs(vals.elts[0])[0]) if hasattr(o, "deref") else allargs(vals.elts[0])[0]
                            txts.append(norm(allargs(vals.elts[0])[0]))
                            per_req[req].append(v)
    if len(txts) < 2:
        raise AnalysisError("_accumulate_return_arguments: emitted type string not found")
    txt = " | ".join(sorted(set(txts)))
    from_final = "final_type.name" in txt and "str(" not in txt
    ctx.check(not from_final, key(ar, "variable type string"),
              f"the variable's declared type is `{txt}`: it is built from the *named* type (get_final_type) plus at most one `!`, so list wrappers and inner non-null are lost "
              "(`ids: [ID!]!` is declared as `$ids_0: ID!`) and the document is invalid", ar.loc(), okmsg="variable type string keeps list / non-null wrappers")


    # the non-null marker follows required-ness (independent of how the rest of the type is spelled)
    from ..util import concat_parts
    if from_final:
        def bang(v):
            v = strip_pre(v)
            if isinstance(v, ast.IfExp):
                return None
            parts = concat_parts(v)
            return bool(parts) and parts[-1][:1] in "'\"" and ast.literal_eval(parts[-1]).endswith("!")
        rq = [bang(v) for v in per_req[True]]
        nq = [bang(v) for v in per_req[False]]
        ctx.check(bool(rq) and all(b is True for b in rq) and bool(nq) and all(b is False for b in nq), key(ar, "non-null marker"),
                  f"the `!` of the declared variable type does not follow the argument's required-ness (required: {[norm(v) for v in per_req[True]]}, optional: {[norm(v) for v in per_req[False]]}): "
                  "a required `id: ID!` argument is declared `$id_0: ID` and the document fails validation", ar.loc(), okmsg="`!` is appended exactly for required arguments")
    else:
        ctx.ok("the declared type does not depend on a separate required-ness flag", ar.loc())
    ga = repo.func("client_generators.custom_arguments:ArgumentGenerator.generate_arguments")
    src = [norm(st.value) for st in ast.walk(ga.node) if isinstance(st, ast.Assign) and norm(st.targets[0]) == "is_required"]
    ctx.check(src == ["isinstance(arg_value.type, GraphQLNonNull)"], key(ga, "is_required"), f"required-ness is computed as {src}, not from the argument's outermost NonNull", ga.loc(),
              okmsg="required-ness = outermost NonNull of the argument type")


@rule("C14.R3", "builder objects are not shared between operations", min_instances=1)
def c14_r3(ctx):
    repo = ctx.repo
    sh = Shaper(repo)
    fi = repo.func(CF + "_generate_class_field")
    v = sh.call_function(fi)
    shared = [a for a in nodes(v, "AnnAssign") if isinstance(a.get("value"), Node) and a.get("value").kind == "Call"]
    gf = repo.cls(BO + "GraphQLField")
    mutators = []
    for name, m in gf.methods.items():
        if name.startswith("_") or name in ("to_ast", "get_formatted_variables"):
            continue
        if any(isinstance(n, ast.Attribute) and isinstance(n.ctx, ast.Store) and is_name(n.value, "self") for n in ast.walk(m.node)) and any(isinstance(r, ast.Return) and is_name(r.value, "self") for r in ast.walk(m.node)):
            mutators.append(name)
    emitted_mutators = [q.rsplit(".", 1)[1] for q in fi.module.functions if q.startswith("CustomFieldsGenerator._generate_") and q.endswith("_method")]
    ctx.check(not (shared and mutators), key(fi, "class-level field instance"),
              f"plain fields are emitted as class attributes holding ONE field object (`id: T = T('id')`) while fluent methods {mutators} (and the emitted fields()/on()/alias()) mutate and return that same object: "
              "`ProductFields.id.alias('pid')` in one operation changes every later operation that uses ProductFields.id", fi.loc(),
              okmsg="field objects are created per use (or mutators copy)")


@rule("C14.R4", "variables of nested fields are collected at every depth; unique names; None arguments omitted", min_instances=9)
def c14_r4(ctx):
    repo = ctx.repo
    gf = repo.cls(BO + "GraphQLField")
    fv = gf.methods["get_formatted_variables"]
    # discarded results of value-returning methods
    for name, m in gf.methods.items():
        for st in walk_no_nested(m.node):
            if isinstance(st, ast.Expr) and isinstance(st.value, ast.Call) and isinstance(st.value.func, ast.Attribute):
                callee = gf.methods.get(st.value.func.attr)
                if callee is not None and callee.node.returns is not None and norm(callee.node.returns) != "None" and not any(
                        isinstance(n, ast.Attribute) and isinstance(n.ctx, ast.Store) for n in ast.walk(callee.node)):
                    ctx.fail(key(m, f"discarded {norm(st.value)}"), f"the result of {norm(st.value)} is discarded although {st.value.func.attr} only computes a value: the variables of deeper levels are lost", m.loc(st))
    # the result as a union of contributions (in-place update, rebinding and `|` are one form after loading); children that come
    # from a generator helper of the class are expanded to what the helper yields
    from ..util import union_terms
    outs = [o for o in Interp(fv, lambda e: None).run() if o.kind == "return" and not any("loop skipped" in t for t in o.trace)]
    terms: List[str] = []
    if len(outs) == 1 and outs[0].value is not None:
        v = outs[0].deref(outs[0].value)
        raw = union_terms(v) + [norm(strip_pre(allargs(c)[0])) for m in (outs[0].muts(outs[0].value.id) if isinstance(outs[0].value, ast.Name) else []) for c in [m] if isinstance(c, ast.Call) and c.args]
        for t in raw:
            expanded = False
            for hname, h in gf.methods.items():
                pat = f"<elem>(self.{hname}())"
                if pat in t and any(isinstance(x, (ast.Yield, ast.YieldFrom)) for x in ast.walk(h.node)):
                    for ho in Interp(h, lambda e: None).run():
                        if any("loop skipped" in tr for tr in ho.trace):
                            continue
                        for y in ho.yields:
                            terms.append(t.replace(pat, norm(strip_pre(y))))
                    expanded = True
            if not expanded:
                terms.append(t)
    from ..util import expand_elem_terms
    terms = [str(norm(ast.parse(x.replace("<elem>", "_ELEM_"), mode="eval").body)).replace("_ELEM_", "<elem>") if "<elem>" in x else x for t in terms for x in expand_elem_terms(t)]
    terms = sorted(set(terms))
    want = sorted(["self.formatted_variables.copy()", "<elem>(self._subfields).get_formatted_variables()", "<elem>(<elem>(self._inline_fragments.values())).get_formatted_variables()"])
    ctx.check(terms == want, key(fv, "recursive merge"), f"sub-field and inline-fragment variables are not merged recursively: the result is the union of {terms}", fv.loc(), okmsg="variables merged recursively over sub-fields and inline fragments")
    ctx.check("self.formatted_variables.copy()" in terms and not any(isinstance(n, (ast.Attribute, ast.Subscript)) and isinstance(n.ctx, ast.Store) and norm(n).startswith("self.formatted_variables") for n in ast.walk(fv.node)), key(fv, "own variables"), "own variables are not part of the result (or the stored dict is mutated)", fv.loc(),
              okmsg="result starts from a copy of the field's own variables")
    # unique names
    un = gf.methods["_format_variable_name"]
    wl = [n for n in walk_no_nested(un.node) if isinstance(n, ast.While)]
    good = len(wl) == 1 and norm(wl[0].test) == "unique_name in used_names" and "used_names.add(unique_name)" in norm(un.node) and norm(un.node.body[-1]) == "return unique_name"
    g = cfg_of(un)
    ctx.check(good, key(un, "unique"), "variable names are not made unique against used_names (loop until free, then reserve)", un.loc(), okmsg="variable name: loop until unused, reserve, return")
    ta = gf.methods["to_ast"]
    bs = gf.methods["_build_selections"]
    good = "self._collect_all_variables(idx, used_names)" in norm(ta.node) and "self._build_selections(idx, used_names)" in norm(ta.node) \
        and norm(bs.node).count(".to_ast(idx, used_names)") == 2
    ctx.check(good, key(ta, "shared used_names"), "the set of used variable names is not shared with every nested field", ta.loc(), okmsg="one used_names set for the whole field tree")
    eff = lambda c: dotted(c.func) in ("self._collect_all_variables", "self._build_selections")
    for given in (True, False):
        def at(e, given=given):
            t = norm(e)
            if t == "used_names is None":
                return not given
            if t == "used_names":
                return None  # an empty set handed down by the parent is falsy: unknown truthiness
            if t in ("self._subfields or self._inline_fragments", "self._subfields", "self._inline_fragments"):
                return True
            return None
        o = Interp(ta, at, is_effect=eff).run()
        args = {norm(x.deref(allargs(c)[1])) for x in o for c in x.effects if len(allargs(c)) > 1}
        want = {"used_names"} if given else {"set()"}
        ctx.check(bool(o) and args == want, key(ta, f"used_names given={given}"),
                  f"to_ast called {'with the parent' if given else 'without a'} used-names set passes {sorted(args)} on (expected {sorted(want)}): "
                  "an empty set handed down by a parent without arguments must still be the one shared set", ta.loc(), okmsg=f"used_names given={given} -> {sorted(want)} shared downwards")
    cv = gf.methods["_collect_all_variables"]
    good = "unique_name = self._format_variable_name(idx, k, used_names)" in norm(cv.node) and "self.formatted_variables[unique_name] = {'name': k, 'type': v['type'], 'value': v['value']}" in norm(cv.node) \
        and norm(cv.node.body[0] if not isinstance(cv.node.body[0], ast.Expr) else cv.node.body[1]) == "self.formatted_variables = {}"
    ctx.check(good, key(cv, "collect"), "variables are not re-collected from scratch under unique names with their type and value", cv.loc(), okmsg="each argument -> unique variable with its type and value; reset per build")
    # None arguments omitted (emitted code)
    sh = Shaper(repo)
    ca = repo.func("client_generators.custom_arguments:ArgumentGenerator.generate_clear_arguments_section")
    v = sh.call_function(ca)
    comps = nodes(v, "DictComp")
    good = len(comps) == 1
    if good:
        gens = seq_items(comps[0].get("generators"))
        comp = gens[0] if gens else None
        ifs = seq_items(comp.get("ifs")) if isinstance(comp, Node) else []
        good = len(ifs) == 1 and isinstance(ifs[0], Node) and ifs[0].kind == "Compare" and "IsNot" in repr(ifs[0].get("ops")) and "Lit('value')" in repr(ifs[0].get("left")) and "Lit(None)" in repr(ifs[0].get("comparators"))
        good = good and isinstance(comp, Node) and is_lit(comp.get("iter").get("id"), "arguments.items()")
    kws = [k for k in nodes(v, "keyword") if is_lit(k.get("arg"), "arguments")]
    good = good and len(kws) == 1 and isinstance(kws[0].get("value"), Node) and is_lit(kws[0].get("value").get("id"), "cleared_arguments")
    ctx.check(good, key(ca, "None filter"), "arguments whose value is None are not filtered out before the field object is built", ca.loc(), okmsg="emitted: cleared_arguments = {k: v for ... if v['value'] is not None}; passed as arguments=")
    for fk in (CF + "generate_product_type_method", "client_generators.custom_operation:CustomOperationGenerator._generate_method"):
        f2 = repo.func(fk)
        ctx.check("self.argument_generator.generate_clear_arguments_section(return_arguments_keys, return_arguments_values)" in norm(f2.node), key(f2, "uses cleared arguments"), "the None filter is not applied", f2.loc(), okmsg=f"{f2.qualname}: arguments go through the None filter")


@rule("C14.R7", "the emitted client helpers assemble the document from the fields' own selections and variables", min_instances=5)
def c14_r7(ctx):
    repo = ctx.repo
    sh = Shaper(repo)
    CG_ = "client_generators.client:ClientGenerator."
    ex = repo.func(CG_ + "create_execute_custom_operation_method")
    v = sh.call_function(ex)
    calls = [c for c in nodes(v, "Call") if isinstance(c.get("func"), Node) and c.get("func").kind == "Attribute" and is_lit(c.get("func").get("attr"), "execute")]
    good = bool(calls)
    for c in calls:
        args = seq_items(c.get("args"))
        km = {k.get("arg").value: k.get("value") for k in seq_items(c.get("keywords")) if isinstance(k, Node) and isinstance(k.get("arg"), Lit)}
        good = good and len(args) == 1 and "print_ast" in repr(args[0]) and "operation_ast" in repr(args[0]) \
            and "combined_variables[\"values\"]" in repr(km.get("variables")) and "operation_name" in repr(km.get("operation_name"))
    ctx.check(good, key(ex, "execute"), "custom operations are not executed with print_ast(operation_ast), the combined values and the operation name", ex.loc(), okmsg="execute(print_ast(operation_ast), variables=combined['values'], operation_name=...)")
    mb = [st.value for st in walk_no_nested(ex.node) if isinstance(st, ast.Assign) and is_name(st.targets[0], "method_body") and isinstance(st.value, ast.List)]
    order = []
    for el in (mb[0].elts if mb else []):
        t = kw(el, "targets") if isinstance(el, ast.Call) else None
        if isinstance(t, ast.List) and t.elts:
            e0 = t.elts[0]
            order.append(e0.value if isinstance(e0, ast.Constant) else (allargs(e0)[0].value if isinstance(e0, ast.Call) and allargs(e0) and isinstance(allargs(e0)[0], ast.Constant) else norm(e0)))
        elif isinstance(el, ast.Call) and dotted(el.func) == "generate_return":
            order.append("<return>")
    ctx.check(order == ["selections", "combined_variables", "variable_definitions", "operation_ast", "response", "<return>"], key(ex, "pipeline"),
              f"emitted statements are {order}; expected selections, combined_variables, variable_definitions, operation_ast, response, return", ex.loc(),
              okmsg="selections -> variables -> definitions -> document -> execute -> get_data")
    bv = repo.func(CG_ + "create_build_variable_definitions_method")
    v = sh.call_function(bv)
    r = repr(v)
    good = "VariableDefinitionNode" in r and "Lit('var_name')" in r and "Lit('var_value')" in r and "variables_types_combined.items()" in r
    ctx.check(good, key(bv, "definitions"), "one VariableDefinitionNode(name, type) per combined variable is not emitted", bv.loc(), okmsg="one variable definition per combined (name, type)")
    cv = repo.func(CG_ + "create_combine_variables_method")
    r = repr(sh.call_function(cv))
    good = "field.get_formatted_variables" in r and "v[\"type\"]" in r and "v[\"value\"]" in r and "Lit('types')" in r and "Lit('values')" in r
    ctx.check(good, key(cv, "combine"), "types and values of all fields' variables are not combined", cv.loc(), okmsg="types <- v['type'], values <- v['value'] for every field")
    bs = repo.func(CG_ + "create_build_selection_set")
    r = repr(sh.call_function(bs))
    good = "Lit('to_ast')" in r and "enumerate(fields)" in r and "Lit('idx')" in r
    ctx.check(good, key(bs, "selections"), "selections are not field.to_ast(idx) over enumerate(fields)", bs.loc(), okmsg="selections = [field.to_ast(idx) for idx, field in enumerate(fields)]")
    ba = repo.func(CG_ + "create_build_operation_ast_method")
    r = repr(sh.call_function(ba))
    good = all(t in r for t in ("DocumentNode", "OperationDefinitionNode", "Lit('operation_type')", "Lit('operation_name')", "Lit('variable_definitions')", "SelectionSetNode", "Lit('selections')"))
    ctx.check(good, key(ba, "document"), "the document is not one OperationDefinitionNode(operation, name, variable_definitions, selection_set)", ba.loc(), okmsg="DocumentNode([OperationDefinitionNode(operation, name, variable_definitions, selections)])")
    # runtime field node: alias and name
    bf = repo.func(BO + "GraphQLField._build_field_name")
    got = {}
    for al in (True, False):
        outs = Interp(bf, lambda e, al=al: (al if norm(strip_pre(e)) in ("self._alias", "self._alias is not None") else None)).run()
        got[al] = sorted({norm(strip_pre(o.value)) for o in outs if o.kind == "return"})
    ctx.check(got[True] == ["f'{self._alias}: {self._field_name}'"] and got[False] == ["self._field_name"], key(bf, "alias"), f"field node name is not `alias: name` / `name`: {got}", bf.loc(), okmsg="field node: 'alias: name' or 'name'")


# ====================================================================== hook firing order vs. plugin state
def _plugin_rw(cg, fi: FuncInfo, seen=None) -> Tuple[Set[str], Set[str]]:
    """(attributes of self read, attributes of self written) by a plugin method, through the helpers of its class"""
    from ..absint import MUTATORS
    seen = seen if seen is not None else set()
    if fi.key in seen:
        return set(), set()
    seen.add(fi.key)
    R: Set[str] = set()
    W: Set[str] = set()
    roots: Set[int] = set()

    def self_root(e):
        while isinstance(e, (ast.Subscript, ast.Attribute)):
            if isinstance(e, ast.Attribute) and isinstance(e.value, ast.Name) and e.value.id == "self":
                return e
            e = e.value
        return None
    for n in ast.walk(fi.node):
        r = None
        if isinstance(n, (ast.Subscript, ast.Attribute)) and isinstance(n.ctx, (ast.Store, ast.Del)):
            r = self_root(n)
        elif isinstance(n, ast.Call) and isinstance(n.func, ast.Attribute) and n.func.attr in MUTATORS:
            r = self_root(n.func.value)
        elif isinstance(n, ast.AugAssign):
            r = self_root(n.target)
        if r is not None:
            W.add(r.attr)
            roots.add(id(r))
    for n in ast.walk(fi.node):
        if isinstance(n, ast.Attribute) and isinstance(n.value, ast.Name) and n.value.id == "self" and isinstance(n.ctx, ast.Load) and id(n) not in roots:
            R.add(n.attr)
    for _, rs in cg.callees(fi):
        for r in rs:
            if r.cls is fi.cls and r.cls is not None:
                a, b = _plugin_rw(cg, r, seen)
                R |= a
                W |= b
    return R, W


class _Firing:
    def __init__(self, repo):
        from ..callgraph import CallGraph
        self.repo = repo
        self.cg = CallGraph(repo)
        self.pm = repo.cls(PM)
        self.hooks = set(_hooks(repo.cls(PB)))
        self.memo: Dict[str, Set[str]] = {}

    def fires(self, fi: FuncInfo, stack=()) -> Set[str]:
        if fi.key in self.memo:
            return self.memo[fi.key]
        if fi.key in stack:
            return set()
        out: Set[str] = set()
        for _, rs in self.cg.callees(fi):
            for r in rs:
                if r.cls is self.pm and r.node.name in self.hooks:
                    out.add(r.node.name)
                elif r.cls is not self.pm:
                    out |= self.fires(r, stack + (fi.key,))
        if not stack:
            self.memo[fi.key] = out
        return out

    def node_fires(self, fi: FuncInfo, node_ast: ast.AST) -> Dict[str, List[FuncInfo]]:
        """hook -> callees (or [] for a direct firing) through which the statement fires it"""
        out: Dict[str, List[FuncInfo]] = {}
        for _, rs in self.cg.calls_in(fi, node_ast):
            for r in rs:
                if r.cls is self.pm and r.node.name in self.hooks:
                    out.setdefault(r.node.name, [])
                elif r.cls is not self.pm:
                    for h in self.fires(r):
                        out.setdefault(h, []).append(r)
        return out

    def order_violations(self, fi: FuncInfo, w: str, r: str, depth: int = 0, stack=()) -> List[str]:
        """paths on which hook `w` can fire after hook `r` inside fi (recursing into callees that fire both)"""
        if depth > 6 or fi.key in stack:
            return []
        g = cfg_of(fi)
        info = []
        for n in g.stmts():
            if n.ast is None:
                continue
            a = n.ast
            if n.kind in ("loop", "test") and hasattr(a, "body") and not isinstance(a, ast.expr):
                a = a.iter if isinstance(a, (ast.For, ast.AsyncFor)) else a.test if hasattr(a, "test") else a
            nf = self.node_fires(fi, a)
            if w in nf or r in nf:
                info.append((n, nf))
        out: List[str] = []
        for rn, rf in info:
            if r not in rf:
                continue
            after = g.reach_after(rn)
            for wn, wf in info:
                if w not in wf:
                    continue
                if wn.id != rn.id and wn.id in after and rn.id not in g.reach_after(wn):
                    out.append(f"{fi.qualname}: `{norm(wn.ast)[:50]}` (fires {w}) runs after `{norm(rn.ast)[:50]}` (fires {r})")
                elif wn.id == rn.id:
                    both = [c for c in rf[r] if c in wf[w]]
                    for c in both:
                        out += self.order_violations(c, w, r, depth + 1, stack + (fi.key,))
        return sorted(set(out))


@rule("C15.R8", "hooks that fill a bundled plugin's state all fire before the hook that reads it (call-graph order from the entry point)", min_instances=6, also=["C02"])
def c15_r8(ctx):
    repo = ctx.repo
    F = _Firing(repo)
    base = repo.cls(PB)
    entry = repo.func("main:client")
    ef = F.fires(entry)
    if len(ef) < 20:
        raise AnalysisError(f"call graph from main.client reaches only {len(ef)} hooks ({sorted(ef)})")
    n = 0
    for ci in sorted(repo.all_classes(), key=lambda c: c.key):
        if not ci.module.short.startswith("contrib") or ci is base or base not in repo.mro(ci):
            continue
        rw = {h: _plugin_rw(F.cg, ci.methods[h]) for h in sorted(F.hooks & set(ci.methods))}
        for hr, (R, _) in rw.items():
            for hw, (_, W) in rw.items():
                if hw == hr:
                    continue
                for x in sorted(R & W):
                    if x in rw[hr][1] and x in rw[hw][0]:
                        continue  # both accumulate into and read the same container: no order can be required
                    n += 1
                    v = F.order_violations(entry, hw, hr)
                    ctx.check(not v, f"{ci.module.short}::{ci.qualname}::{x}: {hw} before {hr}",
                              f"{ci.qualname}.{hr} reads self.{x}, which {hw} fills, but the generator can fire {hw} after {hr}: {v[:2]} - the plugin then decides on incomplete state "
                              "(e.g. ShorterResults counting the fields of a result class before its fragment base classes are known)", ci.loc(),
                              okmsg=f"{ci.qualname}: every {hw} (writes {x}) precedes {hr} (reads {x})")
    ctx.note(f"call graph: {F.cg.resolved} calls resolved, {F.cg.unresolved} attribute calls with unknown receiver type left out; main.client reaches {len(ef)} of {len(F.hooks)} hooks")
    if n < 4:
        raise AnalysisError(f"only {n} plugin state dependencies found")


@rule("C15.R9", "ShorterResults counts the fields of a result class through every level of fragment base classes", min_instances=2)
def c15_r9(ctx):
    repo = ctx.repo
    fi = repo.func("contrib.shorter_results:_get_all_fields")
    outs = [o for o in Interp(fi, lambda e: None).run() if o.kind == "return" and not any("loop skipped" in t for t in o.trace)]
    if not outs:
        raise AnalysisError("_get_all_fields: no symbolic outcome")
    texts = []
    for o in outs:
        v = strip_pre(o.deref(o.value)) if o.value is not None else None
        texts.append(norm(v) if v is not None else "")
        if isinstance(o.value, ast.Name):
            texts += [norm(strip_pre(m)) for m in o.muts(o.value.id)]
    joined = " ; ".join(texts)
    # inherited fields: the function itself applied to the class of each base (recursion = every level of inheritance)
    rec = [c for t in texts for c in _calls_in_text(t, fi.node.name)]
    direct = [c for c in ast.walk(fi.node) if isinstance(c, ast.Call) and isinstance(c.func, ast.Name) and c.func.id == fi.node.name]
    good = bool(rec or direct) and "class_def.bases" in norm(fi.node) and "class_dict[" in norm(fi.node)
    ctx.check(good, key(fi, "inherited fields, recursively"),
              f"the fields of a base class are not collected with {fi.node.name} itself (recursively): with `fragment Outer on Query {{ ...Inner }}` and `query {{ ...Outer version }}` the fields inherited through two "
              f"levels are not counted, the result looks like a single-field result and is unwrapped, dropping data. Collected: {joined[:300]}", fi.loc(), okmsg="base classes: fields collected recursively")
    src = norm(fi.node)
    own = "class_def.body" in src and "ast.AnnAssign" in src and "isinstance(" in src
    ctx.check(own, key(fi, "own fields"), f"the class's own annotated members are not counted: {joined[:200]}", fi.loc(), okmsg="own annotated members counted")


def _calls_in_text(text: str, fname: str):
    try:
        tree = ast.parse(text.replace("<elem>", "_ELEM_").replace("<pre>", "_PRE_").replace("<setitem>", "_SETITEM_"), mode="eval")
    except SyntaxError:
        return []
    return [c for c in ast.walk(tree) if isinstance(c, ast.Call) and isinstance(c.func, ast.Name) and c.func.id == fname]


@rule("C14.R8", "client.query / client.mutation build the operation type they are named after, and exist only with their builders", min_instances=8)
def c14_r8(ctx):
    repo = ctx.repo
    gen = repo.func("client_generators.package:PackageGenerator.generate")
    want = {"query": ("QUERY", "self.custom_query_generator", "self._generate_custom_queries"), "mutation": ("MUTATION", "self.custom_mutation_generator", "self._generate_custom_mutations")}
    for meth, (member, flag, producer) in want.items():
        def atom(e, flag=flag):
            t = norm(strip_pre(e))
            if t == "self.enable_custom_operations":
                return True
            if t in ("self.custom_query_generator", "self.custom_mutation_generator"):
                return t == flag
            if t.startswith("self.package_path.exists"):
                return True
            return None
        outs = Interp(gen, atom, is_effect=lambda c: dotted(c.func) in ("self.client_generator.create_custom_operation_method", "self._generate_custom_queries", "self._generate_custom_mutations")).run()
        effs = [strip_pre(e) for o in outs for e in o.effects]
        made = [e for e in effs if isinstance(e, ast.Call) and dotted(e.func).endswith("create_custom_operation_method")]
        prods = [dotted(e.func) for e in effs if isinstance(e, ast.Call) and dotted(e.func).startswith("self._generate_custom_")]
        good = len(made) == 1 and is_const(argv(made[0], 0, "name"), meth)
        got = norm(argv(made[0], 1, "operation_type")) if made and argv(made[0], 1, "operation_type") is not None else None
        ok_type = got in (f"OperationType.{member}.value.upper()", f"'{member}'", f"OperationType.{member}.name")
        ctx.check(good and ok_type, key(gen, f"client.{meth}"),
                  f"with only {flag} set the client gets {[norm(m)[:120] for m in made]}: the method `{meth}` must execute OperationType.{member} (a `query` document selecting Mutation fields is invalid)",
                  gen.loc(made[0]) if made else gen.loc(), okmsg=f"client.{meth} -> OperationType.{member}")
        ctx.check(prods == [producer], key(gen, f"{meth} builders"), f"with only {flag} set the generated builder modules are {prods}, expected [{producer}]", gen.loc(), okmsg=f"{producer} runs iff its generator is configured")
    # the executor (and its helpers) is added exactly when custom operations are enabled, for the configured flavour
    for enabled in (True, False):
        outs = Interp(gen, lambda e, en=enabled: (en if norm(strip_pre(e)) == "self.enable_custom_operations" else True if norm(strip_pre(e)).startswith("self.package_path.exists") else
                                                  False if norm(strip_pre(e)) in ("self.custom_query_generator", "self.custom_mutation_generator") else None),
                      is_effect=lambda c: dotted(c.func) == "self.client_generator.add_execute_custom_operation_method").run()
        effs = [[norm(strip_pre(e)) for e in o.effects] for o in outs]
        want = [["self.client_generator.add_execute_custom_operation_method(async_client=self.async_client)"], ["self.client_generator.add_execute_custom_operation_method(self.async_client)"]] if enabled else [[]]
        ctx.check(bool(effs) and all(e in want for e in effs), key(gen, f"executor enabled={enabled}"), f"[enable_custom_operations={enabled}] executor added: {effs}; expected "
                  f"{'add_execute_custom_operation_method(self.async_client) once' if enabled else 'nothing'}", gen.loc(), okmsg=f"enable_custom_operations={enabled}: executor {'added for the configured flavour' if enabled else 'not added'}")
    # the emitted helper passes the type on: OperationType.<operation_type> under the operation_type keyword
    sh = Shaper(repo)
    for nm in ("_create_sync_operation_method", "_create_async_operation_method"):
        fi = repo.func("client_generators.client:ClientGenerator." + nm)
        r = repr(sh.call_function(fi))
        pars = [a.arg for a in fi.node.args.args]
        good = len(pars) >= 3 and f"FunctionDef(name=${pars[1]}," in r and "attr=Lit('execute_custom_operation')" in r \
            and f"keyword(arg=Lit('operation_type'), value=Attribute(value=Name(id=Lit('OperationType')), attr=${pars[2]}))" in r and "keyword(arg=Lit('operation_name'), value=Name(id=Lit('operation_name')))" in r
        ctx.check(good, key(fi, "operation type forwarded"),
                  "the helper does not call execute_custom_operation(*fields, operation_type=OperationType.<type>, operation_name=operation_name)", fi.loc(), okmsg=f"{nm}: operation_type=OperationType.<type> forwarded")


@rule("C15.R11", "ShorterResults drops exactly the Annotated[T, <discriminator>] wrapper from the unwrapped return type and keeps every other subscript", min_instances=4)
def c15_r11(ctx):
    repo = ctx.repo
    fi = repo.func("contrib.shorter_results:_update_node")
    p = fi.node.args.args[0].arg

    def mk(annotated, is_tuple, two):
        def atom(e):
            t = norm(strip_pre(e))
            if t == f"isinstance({p}, ast.Name)":
                return False
            if t == f"isinstance({p}, ast.Subscript)":
                return True
            if t == f"isinstance({p}.value, ast.Name)":
                return True
            if t in (f"{p}.value.id == 'Annotated'", f"{p}.value.id == ANNOTATED"):
                return annotated
            if t.startswith("isinstance(") and t.endswith(", ast.Tuple)") and not t.startswith(f"isinstance({p},"):
                return is_tuple
            if t.startswith("len(") and t.endswith(".elts) == 2"):
                return two
            if t.startswith("len(") and t.endswith(".elts) != 2"):
                return not two
            return None
        return atom
    for annotated, is_tuple, two, unwrap, label in ((True, True, True, True, "Annotated[T, meta]"), (False, True, True, False, "Other[A, B]"), (True, False, False, False, "Annotated[T] (no tuple)"),
                                                      (True, True, False, False, "Annotated[T, a, b] (not the discriminator form)")):
        outs = [o for o in Interp(fi, mk(annotated, is_tuple, two), is_effect=lambda c: is_name(c.func, "<setattr>")).run() if o.kind == "return"]
        vals = [strip_pre(o.value) for o in outs]
        if unwrap:
            good = bool(vals) and all(isinstance(v, ast.Call) and dotted(v.func) == "_update_node" and norm(allargs(v)[0]).endswith(".elts[0]") and "_update_node(" in norm(allargs(v)[0]) for v in vals)
            why = "the Annotated wrapper stays in the client's return annotation: the generated client references `Annotated` / `Field`, which client.py never imports (NameError on import)"
        else:
            good = bool(vals) and all(isinstance(v, ast.Tuple) and norm(v.elts[0]) == p for v in vals) and all(any(norm(strip_pre(m)).startswith(f"<setattr>({p}, 'slice', _update_node(") for m in o.effects) for o in outs)
            why = "a subscript other than Annotated[T, meta] loses its wrapper (List[X] would become X, so the client returns a list where the annotation says one object)"
        ctx.check(good, key(fi, label), f"[{label}] returns {[norm(v)[:90] for v in vals]}: {why}", fi.loc(), okmsg=f"[{label}] -> {'first element, recursively' if unwrap else 'kept, slice updated'}")


@rule("C15.R12", "ClientForwardRefs turns EVERY annotation form that can name an imported class into a string: bare names, subscripts, tuples - arguments and nested positions alike",
      min_instances=7)
def c15_r12(ctx):
    repo = ctx.repo
    CFR = "contrib.client_forward_refs:ClientForwardRefsPlugin."
    # (a) argument annotations: each kind is sent through _update_name_to_constant
    fi = repo.func(CFR + "_rewrite_input_args_to_constants")
    for kind in ("Name", "Subscript", "Tuple"):
        def atom(e, kind=kind):
            t = norm(strip_pre(e))
            if t.startswith("isinstance(method_def,") or t.startswith("isinstance(method_def, "):
                return True
            if t.startswith("isinstance(") and t.endswith(")") and ", ast." in t and not t.startswith("isinstance(method_def"):
                return t.endswith(f", ast.{kind})")
            return None
        outs = [o for o in Interp(fi, atom, is_effect=lambda c: is_name(c.func, "<setattr>")).run() if any("loop body once" in t for t in o.trace)]
        good = bool(outs) and all(any("_update_name_to_constant(" in norm(strip_pre(e)) and "'annotation'" in norm(strip_pre(e)) for e in o.effects) for o in outs)
        ctx.check(good, key(fi, f"argument annotation ast.{kind}"), f"an argument annotated with a bare ast.{kind} is not rewritten although the class it names is moved under `if TYPE_CHECKING:` "
                  "(NameError when the client module is imported)", fi.loc(), okmsg=f"argument annotations of kind ast.{kind} are rewritten")
    # (b) the rewriter itself: Name -> Constant when imported; Subscript -> slice recursed; Tuple -> every element recursed; anything else unchanged
    up = repo.func(CFR + "_update_name_to_constant")
    from ..util import real_params
    p = real_params(up)[0]

    def mk(kind, imported=True):
        def atom(e):
            t = norm(strip_pre(e))
            if t.startswith(f"isinstance({p}, ast."):
                return t == f"isinstance({p}, ast.{kind})"
            if t == f"{p}.id in self.imported_classes":
                return imported
            return None
        return atom
    eff = lambda c: is_name(c.func, "<setattr>") or is_name(c.func, "<setitem>") or (isinstance(c.func, ast.Attribute) and c.func.attr == "add")
    o = [x for x in Interp(up, mk("Name", True), is_effect=eff).run() if x.kind == "return"]
    ctx.check(bool(o) and all(norm(strip_pre(x.value)) in (f"ast.Constant(value={p}.id)", f"ast.Constant({p}.id)") for x in o) and
              all(any(norm(strip_pre(e)) == f"self.input_and_return_types.add({p}.id)" for e in x.effects) for x in o), key(up, "imported name"),
              f"an imported class name must become the string constant of its name and be recorded for the TYPE_CHECKING import: {[x.text()[:100] for x in o]}", up.loc(),
              okmsg="imported Name -> Constant(name), recorded")
    o = [x for x in Interp(up, mk("Name", False), is_effect=eff).run() if x.kind == "return"]
    ctx.check(bool(o) and all(is_name(strip_pre(x.value), p) and not x.effects for x in o), key(up, "other name"), f"a name that is not an imported class must stay as it is: {[x.text()[:100] for x in o]}", up.loc(),
              okmsg="other Name -> unchanged")
    o = [x for x in Interp(up, mk("Subscript"), is_effect=eff).run() if x.kind == "return"]
    ctx.check(bool(o) and all(is_name(strip_pre(x.value), p) and any(norm(strip_pre(e)) == f"<setattr>({p}, 'slice', self._update_name_to_constant({p}.slice))" for e in x.effects) for x in o),
              key(up, "subscript"), f"Optional[X] / List[X]: the slice must be rewritten recursively: {[x.text()[:120] for x in o]}", up.loc(), okmsg="Subscript -> slice recursed")
    o = [x for x in Interp(up, mk("Tuple"), is_effect=eff).run() if x.kind == "return" and any("loop body once" in t for t in x.trace)]
    good = bool(o) and all(is_name(strip_pre(x.value), p) for x in o)
    for x in o:
        effs = [norm(strip_pre(e)) for e in x.effects]
        good = good and any(e.startswith(f"<setitem>({p}.elts, ") and "self._update_name_to_constant(" in e for e in effs)
    ctx.check(good, key(up, "tuple"), f"Dict[K, V] / Union[A, B]: every element of the tuple must be rewritten recursively: {[x.text()[:120] for x in o]}", up.loc(), okmsg="Tuple -> every element recursed")
