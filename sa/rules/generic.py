"""Whole-package rules about hidden state: results must depend on the inputs of the
current call only (no state carried between calls through default arguments or module
globals).  Serves every property that quantifies over sequences of operations."""
from __future__ import annotations

import ast
from typing import Dict, List, Set

from ..absint import MUTATORS
from ..model import FuncInfo, dotted, norm, walk_no_nested
from ..report import rule
from ..util import allargs, key

STATE_PROPS = ["C01", "C02", "C03", "C04", "C05", "C06", "C07", "C08", "C09", "C14", "C15", "C16", "C18", "C19"]


def _is_mutable_default(d: ast.AST) -> bool:
    if isinstance(d, (ast.List, ast.Dict, ast.Set, ast.ListComp, ast.DictComp, ast.SetComp)):
        return True
    if isinstance(d, ast.Call) and isinstance(d.func, ast.Name) and d.func.id in ("set", "dict", "list", "defaultdict", "OrderedDict", "Counter", "deque"):
        return True
    return False


@rule("C10.R4", "no state survives from one call to the next through mutable default arguments or module-level containers",
      min_instances=2, also=STATE_PROPS)
def c10_r4(ctx):
    repo = ctx.repo
    n_funcs = n_defaults = 0
    for fi in repo.all_functions():
        n_funcs += 1
        a = fi.node.args
        pos = a.posonlyargs + a.args
        pairs = list(zip(pos[len(pos) - len(a.defaults):], a.defaults)) + [(p, d) for p, d in zip(a.kwonlyargs, a.kw_defaults) if d is not None]
        for p, d in pairs:
            n_defaults += 1
            if not _is_mutable_default(d):
                continue
            # a mutable default is shared by all calls: harmless only if it is never mutated nor escapes
            name = p.arg
            bad = None
            for n in ast.walk(fi.node):
                if isinstance(n, ast.Call) and isinstance(n.func, ast.Attribute) and n.func.attr in MUTATORS and isinstance(n.func.value, ast.Name) and n.func.value.id == name:
                    bad = f"{name}.{n.func.attr}(...)"
                elif isinstance(n, ast.Subscript) and isinstance(n.ctx, (ast.Store, ast.Del)) and isinstance(n.value, ast.Name) and n.value.id == name:
                    bad = f"{name}[...] = ..."
                elif isinstance(n, ast.AugAssign) and isinstance(n.target, ast.Name) and n.target.id == name:
                    bad = f"{name} op= ..."
                elif isinstance(n, ast.Call) and any(isinstance(x, ast.Name) and x.id == name for x in list(n.args) + [k.value for k in n.keywords]) \
                        and not (isinstance(n.func, ast.Name) and n.func.id in ("len", "sorted", "list", "set", "tuple", "isinstance", "any", "all", "bool", "dict", "frozenset")):
                    bad = bad or f"passed on to {dotted(n.func) or 'a call'}(...)"
                elif isinstance(n, ast.Return) and isinstance(n.value, ast.Name) and n.value.id == name:
                    bad = bad or "returned to the caller"
            if bad:
                ctx.fail(key(fi, f"mutable default {name}"), f"parameter `{name}` of {fi.qualname} defaults to the shared object `{norm(d)}` and it is {bad}: "
                         "what one call leaves in it is seen by the next (results depend on the history of earlier operations)", fi.loc(d))
            else:
                ctx.ok(f"{fi.key}: mutable default `{name}={norm(d)}` is never mutated nor escapes", fi.loc(d))
    ctx.ok(f"{n_funcs} functions, {n_defaults} parameter defaults scanned for shared mutable defaults")
    # module-level containers mutated from inside functions
    n_glob = 0
    for m in repo.modules.values():
        containers: Dict[str, ast.AST] = {}
        for name, vals in m.assigns.items():
            for v in vals:
                if isinstance(v, ast.AST) and _is_mutable_default(v):
                    containers[name] = v
        globals_rebound: Set[str] = set()
        for fi in m.functions.values():
            for n in walk_no_nested(fi.node):
                if isinstance(n, ast.Global):
                    globals_rebound |= set(n.names)
        n_glob += len(containers)
        for fi in m.functions.values():
            local = {t.id for t in ast.walk(fi.node) if isinstance(t, ast.Name) and isinstance(t.ctx, ast.Store)}
            local |= {a.arg for a in fi.node.args.posonlyargs + fi.node.args.args + fi.node.args.kwonlyargs}
            gl = {x for n in walk_no_nested(fi.node) if isinstance(n, ast.Global) for x in n.names}
            for n in walk_no_nested(fi.node):
                tgt = None
                if isinstance(n, ast.Call) and isinstance(n.func, ast.Attribute) and n.func.attr in MUTATORS and isinstance(n.func.value, ast.Name):
                    tgt = n.func.value.id
                elif isinstance(n, ast.Subscript) and isinstance(n.ctx, (ast.Store, ast.Del)) and isinstance(n.value, ast.Name):
                    tgt = n.value.id
                if tgt and tgt in containers and (tgt not in local or tgt in gl):
                    ctx.fail(key(fi, f"module state {tgt}"), f"{fi.qualname} mutates the module-level container `{tgt}`: state is carried between calls (e.g. a cache keyed by only part of the inputs "
                             "makes results depend on what was processed before)", fi.loc(n))
            for g in gl:
                ctx.fail(key(fi, f"global {g}"), f"{fi.qualname} rebinds the module global `{g}`: state is carried between calls", fi.loc())
    ctx.ok(f"{len(repo.modules)} modules, {n_glob} module-level containers scanned for mutation from functions")


MEMO_DECORATORS = {"lru_cache", "cache", "cached_property", "functools.lru_cache", "functools.cache", "functools.cached_property", "memoize", "memoized"}


def _is_container_expr(e: ast.AST) -> bool:
    """self.<attr> or a bare (module-level) name"""
    return (isinstance(e, ast.Attribute) and isinstance(e.value, ast.Name) and e.value.id in ("self", "cls")) or isinstance(e, ast.Name)


@rule("C10.R5", "results are not memoised under a key that is coarser than the inputs (no caches carrying results between calls)",
      min_instances=1, also=STATE_PROPS)
def c10_r5(ctx):
    repo = ctx.repo
    n = 0
    for fi in repo.all_functions():
        if fi.module.short.startswith("client_generators.dependencies"):
            continue
        n += 1
        for d in fi.node.decorator_list:
            name = dotted(d.func) if isinstance(d, ast.Call) else dotted(d)
            if name in MEMO_DECORATORS or name.split(".")[-1] in MEMO_DECORATORS:
                ctx.fail(key(fi, f"@{name}"), f"{fi.qualname} is memoised with @{name}: results are shared between calls whose arguments merely compare equal "
                         "(True == 1 == 1.0, equal-named nodes ...) and survive from one generation step to the next", fi.loc(d))
        params = [a.arg for a in fi.node.args.posonlyargs + fi.node.args.args + fi.node.args.kwonlyargs if a.arg not in ("self", "cls")]
        local_bound = {t.id for t in ast.walk(fi.node) if isinstance(t, ast.Name) and isinstance(t.ctx, ast.Store)}
        env = {}
        for st in walk_no_nested(fi.node):
            if isinstance(st, ast.Assign) and len(st.targets) == 1 and isinstance(st.targets[0], ast.Name):
                env.setdefault(st.targets[0].id, st.value)
        # stores C[k] = v
        stores = {}
        for st in walk_no_nested(fi.node):
            tg = None
            if isinstance(st, ast.Assign) and len(st.targets) == 1 and isinstance(st.targets[0], ast.Subscript):
                tg = st.targets[0]
            if tg is not None and _is_container_expr(tg.value):
                c = norm(tg.value)
                if isinstance(tg.value, ast.Name) and tg.value.id in local_bound:
                    continue
                stores.setdefault(c, []).append(tg.slice)
        if not stores:
            continue
        # reads that are returned: `return C[k]`, `return C.get(k)`, or x = C.get(k)/C[k] ... return x under a hit test
        for r in walk_no_nested(fi.node):
            if not isinstance(r, ast.Return) or r.value is None:
                continue
            v = r.value
            v = env.get(v.id, v) if isinstance(v, ast.Name) else v
            cont = keyx = None
            if isinstance(v, ast.Subscript) and _is_container_expr(v.value):
                cont, keyx = norm(v.value), v.slice
            elif isinstance(v, ast.Call) and isinstance(v.func, ast.Attribute) and v.func.attr in ("get", "setdefault") and _is_container_expr(v.func.value) and v.args:
                cont, keyx = norm(v.func.value), allargs(v)[0]
            if cont is None or cont not in stores:
                continue
            # the value returned comes out of a container that this same function fills: memoisation
            k = keyx
            k = env.get(k.id, k) if isinstance(k, ast.Name) else k
            bare = set()
            for x in ast.walk(k):
                if isinstance(x, ast.Name) and x.id in params:
                    bare.add(x.id)
            projected = any(isinstance(x, ast.Attribute) and isinstance(x.value, ast.Name) and x.value.id in params for x in ast.walk(k)) or \
                any(isinstance(x, ast.Call) and isinstance(x.func, ast.Name) and x.func.id == "id" for x in ast.walk(k))
            missing = [p for p in params if p not in bare]
            if missing or projected:
                ctx.fail(key(fi, f"memo {cont}[{norm(k)[:50]}]"),
                         f"{fi.qualname} returns results remembered in {cont} under the key `{norm(k)[:80]}`, which "
                         + (f"ignores the parameter(s) {missing}" if missing else "is a projection (attribute / id()) of its arguments")
                         + ": two different inputs that share the key get the first one's result", fi.loc(r))
            else:
                ctx.ok(f"{fi.key}: memo in {cont} keyed by all parameters", fi.loc(r))
    ctx.ok(f"{n} generator functions scanned for memoisation (decorators and fill-and-return containers)")


@rule("C04.R9", "worklist traversals expand the node just taken from the worklist and re-visit what they add", min_instances=1,
      also=["C01", "C02", "C05", "C08", "C09", "C15"])
def c04_r9(ctx):
    repo = ctx.repo
    n = 0
    for fi in repo.all_functions():
        if fi.module.short.startswith("client_generators.dependencies"):
            continue
        params = {a.arg for a in fi.node.args.posonlyargs + fi.node.args.args + fi.node.args.kwonlyargs}
        for w in walk_no_nested(fi.node):
            # --- while W: X = W.pop() ... W.append/extend(<neighbours>)
            if isinstance(w, ast.While) and isinstance(w.test, ast.Name):
                W = w.test.id
                popped = None
                for st in ast.walk(w):
                    if isinstance(st, ast.Assign) and isinstance(st.value, ast.Call) and isinstance(st.value.func, ast.Attribute) and st.value.func.attr in ("pop", "popleft") \
                            and isinstance(st.value.func.value, ast.Name) and st.value.func.value.id == W and isinstance(st.targets[0], ast.Name):
                        popped = st.targets[0].id
                if popped is None:
                    continue
                n += 1
                for c in ast.walk(w):
                    if isinstance(c, ast.Call) and isinstance(c.func, ast.Attribute) and c.func.attr in ("append", "extend", "appendleft") and isinstance(c.func.value, ast.Name) and c.func.value.id == W and c.args:
                        # where do the pushed nodes come from?  the innermost enclosing loop/comprehension, or the argument itself
                        src = allargs(c)[0]
                        loopsrc = None
                        for lp in ast.walk(w):
                            if isinstance(lp, (ast.For,)) and any(x is c for x in ast.walk(lp)) and lp is not w:
                                loopsrc = lp.iter
                        names_src = {x.id for x in ast.walk(loopsrc if loopsrc is not None else src) if isinstance(x, ast.Name)}
                        if isinstance(src, (ast.GeneratorExp, ast.ListComp)):
                            names_src |= {x.id for g in src.generators for x in ast.walk(g.iter) if isinstance(x, ast.Name)}
                        uses_popped = popped in names_src
                        uses_root = bool((names_src & params) - {"self"}) and not uses_popped
                        if uses_root:
                            ctx.fail(key(fi, f"worklist {W}: neighbours"), f"the nodes pushed on `{W}` are computed from {sorted((names_src & params) - {'self'})} (the traversal's starting point) "
                                     f"instead of from `{popped}`, the node just taken from the worklist: only the first level is ever expanded", fi.loc(c))
                        else:
                            ctx.ok(f"{fi.key}: worklist {W} expands the popped node", fi.loc(c))
            # --- for x in <A>: ... L.extend(...)  where L = list(<A>) : items added to L are never visited
            if isinstance(w, ast.For):
                it = norm(w.iter)
                for c in ast.walk(w):
                    if isinstance(c, ast.Call) and isinstance(c.func, ast.Attribute) and c.func.attr in ("append", "extend") and isinstance(c.func.value, ast.Name):
                        L = c.func.value.id
                        init = None
                        for st in walk_no_nested(fi.node):
                            if isinstance(st, ast.Assign) and len(st.targets) == 1 and isinstance(st.targets[0], ast.Name) and st.targets[0].id == L:
                                init = st.value
                        if init is None or L == it:
                            continue
                        itxt = norm(init)
                        base = it.replace(" or []", "").replace(" or ()", "")
                        if base and base in itxt and itxt != base and any(isinstance(x, ast.Call) and isinstance(x.func, ast.Name) and x.func.id in ("list", "tuple") for x in [init]):
                            n += 1
                            ctx.fail(key(fi, f"growing list {L}"), f"`{L}` starts as a copy of `{base}` and is extended inside a loop that iterates `{it}` itself: what is added to `{L}` is never traversed "
                                     "(only the first level of a transitive walk is expanded)", fi.loc(c))
    # --- a neighbour that was already visited must be skipped, not end the iteration over the neighbours
    for fi in repo.all_functions():
        if fi.module.short.startswith("client_generators.dependencies"):
            continue
        for lp in walk_no_nested(fi.node):
            if not isinstance(lp, ast.For):
                continue
            tv = {x.id for x in ast.walk(lp.target) if isinstance(x, ast.Name)}
            for st in lp.body:
                if isinstance(st, ast.If) and not st.orelse and len(st.body) == 1 and isinstance(st.body[0], (ast.Break, ast.Return)):
                    t = st.test
                    if isinstance(t, ast.Compare) and len(t.ops) == 1 and isinstance(t.ops[0], ast.In) and isinstance(t.left, ast.Name) and t.left.id in tv \
                            and isinstance(t.comparators[0], ast.Name) and t.comparators[0].id in ("visited", "seen", "done", "processed", "visited_names", "seen_names"):
                        later = [x for x in lp.body[lp.body.index(st) + 1:]]
                        marks = any(isinstance(c, ast.Call) and isinstance(c.func, ast.Attribute) and c.func.attr in ("add", "append") and c.args and isinstance(allargs(c)[0], ast.Name)
                                    and allargs(c)[0].id in tv for x in later for c in ast.walk(x)) or \
                            any(isinstance(a_, ast.Assign) and isinstance(a_.value, ast.BinOp) and any(isinstance(z, ast.Name) and z.id in tv for z in ast.walk(a_.value)) for x in later for a_ in ast.walk(x))
                        if marks:
                            n += 1
                            ctx.fail(key(fi, f"visited neighbour ends the loop ({norm(t)})"),
                                     f"`if {norm(t)}: {'break' if isinstance(st.body[0], ast.Break) else 'return'}` inside the loop over `{norm(lp.iter)}`: an element that was already visited stops the iteration, "
                                     "so the elements after it are never visited (a shared or self-referential dependency hides its later siblings); it must be skipped (`continue`)", fi.loc(st))
    ctx.ok(f"worklist discipline checked on {n} traversal loops")
