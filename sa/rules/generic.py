"""Whole-package rules about hidden state: results must depend on the inputs of the
current call only (no state carried between calls through default arguments or module
globals).  Serves every property that quantifies over sequences of operations."""
from __future__ import annotations

import ast
from typing import Dict, List, Set

from ..absint import MUTATORS
from ..model import FuncInfo, dotted, norm, walk_no_nested
from ..report import rule
from ..util import key

STATE_PROPS = ["C01", "C02", "C03", "C04", "C05", "C06", "C07", "C08", "C09", "C14", "C15", "C16", "C18", "C19"]


def _is_mutable_default(d: ast.AST) -> bool:
    if isinstance(d, (ast.List, ast.Dict, ast.Set, ast.ListComp, ast.DictComp, ast.SetComp)):
        return True
    if isinstance(d, ast.Call) and isinstance(d.func, ast.Name) and d.func.id in ("set", "dict", "list", "defaultdict", "OrderedDict", "Counter", "deque"):
        return True
    return False


@rule("C10.R4", "no state survives from one call to the next through mutable default arguments or module-level containers",
      min_instances=2, also=STATE_PROPS)
def c10_r4(ctx):
    repo = ctx.repo
    n_funcs = n_defaults = 0
    for fi in repo.all_functions():
        n_funcs += 1
        a = fi.node.args
        pos = a.posonlyargs + a.args
        pairs = list(zip(pos[len(pos) - len(a.defaults):], a.defaults)) + [(p, d) for p, d in zip(a.kwonlyargs, a.kw_defaults) if d is not None]
        for p, d in pairs:
            n_defaults += 1
            if not _is_mutable_default(d):
                continue
            # a mutable default is shared by all calls: harmless only if it is never mutated nor escapes
            name = p.arg
            bad = None
            for n in ast.walk(fi.node):
                if isinstance(n, ast.Call) and isinstance(n.func, ast.Attribute) and n.func.attr in MUTATORS and isinstance(n.func.value, ast.Name) and n.func.value.id == name:
                    bad = f"{name}.{n.func.attr}(...)"
                elif isinstance(n, ast.Subscript) and isinstance(n.ctx, (ast.Store, ast.Del)) and isinstance(n.value, ast.Name) and n.value.id == name:
                    bad = f"{name}[...] = ..."
                elif isinstance(n, ast.AugAssign) and isinstance(n.target, ast.Name) and n.target.id == name:
                    bad = f"{name} op= ..."
                elif isinstance(n, ast.Call) and any(isinstance(x, ast.Name) and x.id == name for x in list(n.args) + [k.value for k in n.keywords]) \
                        and not (isinstance(n.func, ast.Name) and n.func.id in ("len", "sorted", "list", "set", "tuple", "isinstance", "any", "all", "bool", "dict", "frozenset")):
                    bad = bad or f"passed on to {dotted(n.func) or 'a call'}(...)"
                elif isinstance(n, ast.Return) and isinstance(n.value, ast.Name) and n.value.id == name:
                    bad = bad or "returned to the caller"
            if bad:
                ctx.fail(key(fi, f"mutable default {name}"), f"parameter `{name}` of {fi.qualname} defaults to the shared object `{norm(d)}` and it is {bad}: "
                         "what one call leaves in it is seen by the next (results depend on the history of earlier operations)", fi.loc(d))
            else:
                ctx.ok(f"{fi.key}: mutable default `{name}={norm(d)}` is never mutated nor escapes", fi.loc(d))
    ctx.ok(f"{n_funcs} functions, {n_defaults} parameter defaults scanned for shared mutable defaults")
    # module-level containers mutated from inside functions
    n_glob = 0
    for m in repo.modules.values():
        containers: Dict[str, ast.AST] = {}
        for name, vals in m.assigns.items():
            for v in vals:
                if isinstance(v, ast.AST) and _is_mutable_default(v):
                    containers[name] = v
        globals_rebound: Set[str] = set()
        for fi in m.functions.values():
            for n in walk_no_nested(fi.node):
                if isinstance(n, ast.Global):
                    globals_rebound |= set(n.names)
        n_glob += len(containers)
        for fi in m.functions.values():
            local = {t.id for t in ast.walk(fi.node) if isinstance(t, ast.Name) and isinstance(t.ctx, ast.Store)}
            local |= {a.arg for a in fi.node.args.posonlyargs + fi.node.args.args + fi.node.args.kwonlyargs}
            gl = {x for n in walk_no_nested(fi.node) if isinstance(n, ast.Global) for x in n.names}
            for n in walk_no_nested(fi.node):
                tgt = None
                if isinstance(n, ast.Call) and isinstance(n.func, ast.Attribute) and n.func.attr in MUTATORS and isinstance(n.func.value, ast.Name):
                    tgt = n.func.value.id
                elif isinstance(n, ast.Subscript) and isinstance(n.ctx, (ast.Store, ast.Del)) and isinstance(n.value, ast.Name):
                    tgt = n.value.id
                if tgt and tgt in containers and (tgt not in local or tgt in gl):
                    ctx.fail(key(fi, f"module state {tgt}"), f"{fi.qualname} mutates the module-level container `{tgt}`: state is carried between calls (e.g. a cache keyed by only part of the inputs "
                             "makes results depend on what was processed before)", fi.loc(n))
            for g in gl:
                ctx.fail(key(fi, f"global {g}"), f"{fi.qualname} rebinds the module global `{g}`: state is carried between calls", fi.loc())
    ctx.ok(f"{len(repo.modules)} modules, {n_glob} module-level containers scanned for mutation from functions")
