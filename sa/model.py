"""Program model of /repo/ariadne_codegen: parsed modules, symbol index, import
resolution, constant folding.  Pure `ast`; repository code is never imported."""
from __future__ import annotations

import ast
import os
from dataclasses import dataclass, field
from pathlib import Path
from typing import Any, Dict, Iterator, List, Optional, Tuple

PKG = "ariadne_codegen"


class AnalysisError(Exception):
    """The analyser cannot do its job (anchor vanished, unevaluable shape...).
    Mapped to exit code 2 - never to a violation and never to a silent pass."""


class NotConst(Exception):
    pass


@dataclass
class FuncInfo:
    module: "Module"
    qualname: str  # e.g. ResultTypesGenerator._resolve_selection_set
    node: ast.AST  # FunctionDef | AsyncFunctionDef
    cls: Optional["ClassInfo"] = None

    @property
    def key(self) -> str:
        return f"{self.module.short}:{self.qualname}"

    @property
    def params(self) -> List[str]:
        a = self.node.args
        names = [x.arg for x in a.posonlyargs + a.args]
        if a.vararg:
            names.append("*" + a.vararg.arg)
        names += [x.arg for x in a.kwonlyargs]
        if a.kwarg:
            names.append("**" + a.kwarg.arg)
        return names

    def loc(self, node: Optional[ast.AST] = None) -> str:
        n = node if node is not None and hasattr(node, "lineno") else self.node
        return f"{self.module.relpath}:{getattr(n, 'lineno', 0)}"


@dataclass
class ClassInfo:
    module: "Module"
    qualname: str
    node: ast.ClassDef
    methods: Dict[str, FuncInfo] = field(default_factory=dict)

    @property
    def key(self) -> str:
        return f"{self.module.short}:{self.qualname}"

    def class_assigns(self) -> Dict[str, ast.expr]:
        out: Dict[str, ast.expr] = {}
        for st in self.node.body:
            if isinstance(st, ast.Assign) and len(st.targets) == 1 and isinstance(st.targets[0], ast.Name):
                out[st.targets[0].id] = st.value
            elif isinstance(st, ast.AnnAssign) and isinstance(st.target, ast.Name) and st.value is not None:
                out[st.target.id] = st.value
        return out

    def fields(self) -> List[Tuple[str, Optional[ast.expr], Optional[ast.expr]]]:
        """dataclass-style annotated fields: (name, annotation, default)"""
        out = []
        for st in self.node.body:
            if isinstance(st, ast.AnnAssign) and isinstance(st.target, ast.Name):
                out.append((st.target.id, st.annotation, st.value))
        return out

    def loc(self, node: Optional[ast.AST] = None) -> str:
        n = node if node is not None and hasattr(node, "lineno") else self.node
        return f"{self.module.relpath}:{getattr(n, 'lineno', 0)}"


class Module:
    def __init__(self, repo: "Repo", dotted: str, relpath: str, source: str):
        self.repo = repo
        self.dotted = dotted
        self.relpath = relpath
        self.source = source
        try:
            self.tree = ast.parse(source, filename=relpath)
        except SyntaxError as exc:  # pragma: no cover
            raise AnalysisError(f"cannot parse {relpath}: {exc}") from exc
        # behaviour-preserving normal forms (docstrings, logging statements, else-after-return, temp-return, local annotations)
        from .normalise import normalise_tree
        self.normal_forms = normalise_tree(self.tree)
        from .inline import inline_new_helpers
        self.inlining = inline_new_helpers(relpath, self.tree)
        if self.inlining["inlined"] or self.inlining.get("renested"):
            for k, v in normalise_tree(self.tree).items():  # e.g. `x = E; return x` produced by splicing
                self.normal_forms[k] += v
        from .localnames import normalise_module
        self.alpha_normalised = normalise_module(relpath, self.tree)
        self.is_pkg = relpath.endswith("__init__.py")
        self.functions: Dict[str, FuncInfo] = {}
        self.classes: Dict[str, ClassInfo] = {}
        self.imports: Dict[str, Tuple[str, Optional[str]]] = {}
        self.assigns: Dict[str, List[ast.expr]] = {}
        self._index()

    @property
    def short(self) -> str:
        return self.dotted[len(PKG) + 1 :] if self.dotted.startswith(PKG + ".") else self.dotted

    def _abs_module(self, module: Optional[str], level: int) -> str:
        if level == 0:
            return module or ""
        parts = self.dotted.split(".")
        if not self.is_pkg:
            parts = parts[:-1]
        if level > 1:
            parts = parts[: len(parts) - (level - 1)]
        base = ".".join(parts)
        return f"{base}.{module}" if module else base

    def _index(self) -> None:
        for st in ast.walk(self.tree):
            if isinstance(st, ast.Import):
                for a in st.names:
                    self.imports[a.asname or a.name.split(".")[0]] = (a.name if a.asname else a.name.split(".")[0], None)
            elif isinstance(st, ast.ImportFrom):
                mod = self._abs_module(st.module, st.level)
                for a in st.names:
                    self.imports[a.asname or a.name] = (mod, a.name)
        for st in self.tree.body:
            if isinstance(st, ast.Assign):
                for t in st.targets:
                    if isinstance(t, ast.Name):
                        self.assigns.setdefault(t.id, []).append(st.value)
            elif isinstance(st, ast.AnnAssign) and isinstance(st.target, ast.Name) and st.value is not None:
                self.assigns.setdefault(st.target.id, []).append(st.value)
            elif isinstance(st, ast.AugAssign) and isinstance(st.target, ast.Name):
                self.assigns.setdefault(st.target.id, []).append(st)  # marks non-const

        def visit(body, prefix: str, cls: Optional[ClassInfo]):
            for st in body:
                if isinstance(st, (ast.FunctionDef, ast.AsyncFunctionDef)):
                    q = prefix + st.name
                    fi = FuncInfo(self, q, st, cls)
                    self.functions[q] = fi
                    if cls is not None:
                        cls.methods[st.name] = fi
                    visit_nested(st, q + ".")
                elif isinstance(st, ast.ClassDef):
                    q = prefix + st.name
                    ci = ClassInfo(self, q, st)
                    self.classes[q] = ci
                    visit(st.body, q + ".", ci)
                elif isinstance(st, (ast.If, ast.Try, ast.With, ast.For, ast.While)):
                    for sub in _stmt_blocks(st):
                        visit(sub, prefix, cls)

        def visit_nested(fn, prefix):
            for st in ast.walk(fn):
                if st is fn:
                    continue
            # nested defs (one level of lexical nesting inside function bodies)
            def rec(body):
                for st in body:
                    if isinstance(st, (ast.FunctionDef, ast.AsyncFunctionDef)):
                        q = prefix + st.name
                        self.functions[q] = FuncInfo(self, q, st, None)
                        visit_nested(st, q + ".")
                    elif isinstance(st, ast.ClassDef):
                        q = prefix + st.name
                        ci = ClassInfo(self, q, st)
                        self.classes[q] = ci
                        visit(st.body, q + ".", ci)
                    else:
                        for sub in _stmt_blocks(st):
                            rec(sub)
            rec(fn.body)

        visit(self.tree.body, "", None)


def _stmt_blocks(st: ast.stmt) -> List[List[ast.stmt]]:
    out = []
    for name in ("body", "orelse", "finalbody"):
        b = getattr(st, name, None)
        if isinstance(b, list) and b and isinstance(b[0], ast.stmt):
            out.append(b)
    for h in getattr(st, "handlers", []) or []:
        out.append(h.body)
    for c in getattr(st, "cases", []) or []:
        out.append(c.body)
    return out


class SymPath:
    """symbolic path value: Path(__file__).parent / 'a' / 'b.py'"""

    def __init__(self, module: Module, parts: Tuple[str, ...]):
        self.module = module
        self.parts = parts

    def __truediv__(self, other):
        return SymPath(self.module, self.parts + (str(other),))

    @property
    def name(self) -> str:
        return self.parts[-1] if self.parts else ""

    @property
    def stem(self) -> str:
        return self.name.rsplit(".", 1)[0]

    @property
    def parent(self):
        return SymPath(self.module, self.parts[:-1]) if self.parts else SymPath(self.module, ("..",))

    def relpath(self) -> str:
        base = os.path.dirname(self.module.relpath)
        return os.path.normpath(os.path.join(base, *self.parts))

    def __repr__(self):
        return f"SymPath({self.relpath()})"

    def __eq__(self, o):
        return isinstance(o, SymPath) and self.relpath() == o.relpath()

    def __hash__(self):
        return hash(self.relpath())


class Repo:
    def __init__(self, root: Optional[str] = None, overrides: Optional[Dict[str, str]] = None):
        self.root = Path(root or os.environ.get("SA_REPO", "/repo"))
        self.overrides = overrides or {}
        self.modules: Dict[str, Module] = {}
        self._const_cache: Dict[Tuple[str, str], Any] = {}
        pkg = self.root / PKG
        if not pkg.is_dir():
            raise AnalysisError(f"package directory {pkg} not found")
        for p in sorted(pkg.rglob("*.py")):
            rel = p.relative_to(self.root).as_posix()
            parts = list(p.relative_to(self.root).with_suffix("").parts)
            if parts[-1] == "__init__":
                parts = parts[:-1]
            dotted = ".".join(parts)
            src = self.overrides.get(rel)
            if src is None:
                src = p.read_text(encoding="utf-8")
            self.modules[dotted] = Module(self, dotted, rel, src)
        for rel, src in self.overrides.items():
            if not any(m.relpath == rel for m in self.modules.values()):
                parts = rel[:-3].split("/")
                if parts[-1] == "__init__":
                    parts = parts[:-1]
                self.modules[".".join(parts)] = Module(self, ".".join(parts), rel, src)
        from .normalise import fold_constants
        self.constants_folded = fold_constants(self)

    # ---------------------------------------------------------------- lookup
    def mod(self, short: str) -> Module:
        dotted = short if short.startswith(PKG) else f"{PKG}.{short}" if short else PKG
        m = self.modules.get(dotted)
        if m is None:
            raise AnalysisError(f"anchor module {dotted} not found")
        return m

    def func(self, key: str) -> FuncInfo:
        short, q = key.split(":")
        m = self.mod(short)
        f = m.functions.get(q)
        if f is None:
            raise AnalysisError(f"anchor function {key} not found")
        return f

    def has_func(self, key: str) -> bool:
        try:
            self.func(key)
            return True
        except AnalysisError:
            return False

    def cls(self, key: str) -> ClassInfo:
        short, q = key.split(":")
        m = self.mod(short)
        c = m.classes.get(q)
        if c is None:
            raise AnalysisError(f"anchor class {key} not found")
        return c

    def all_functions(self) -> Iterator[FuncInfo]:
        for m in self.modules.values():
            yield from m.functions.values()

    def all_classes(self) -> Iterator[ClassInfo]:
        for m in self.modules.values():
            yield from m.classes.values()

    # ------------------------------------------------------------ resolution
    def resolve(self, module: Module, name: str, _depth: int = 0):
        """Resolve a bare name used in `module` to
        ('func', FuncInfo) | ('class', ClassInfo) | ('const', value) |
        ('ext', 'pkg.name') | ('module', dotted) | ('unknown', name)"""
        if _depth > 8:
            return ("unknown", name)
        if name in module.functions and "." not in name:
            return ("func", module.functions[name])
        if name in module.classes and "." not in name:
            return ("class", module.classes[name])
        if name in module.assigns:
            try:
                return ("const", self.const_of(module, name))
            except NotConst:
                return ("var", (module, name))
        if name in module.imports:
            mod, attr = module.imports[name]
            if attr is None:
                if mod in self.modules:
                    return ("module", mod)
                return ("ext", mod)
            target = self.modules.get(mod)
            if target is not None:
                sub = self.modules.get(f"{mod}.{attr}")
                if attr not in target.functions and attr not in target.classes and attr not in target.assigns and attr not in target.imports and sub is not None:
                    return ("module", sub.dotted)
                return self.resolve(target, attr, _depth + 1)
            return ("ext", f"{mod}.{attr}")
        return ("unknown", name)

    def resolve_class(self, module: Module, expr: ast.expr) -> Optional[ClassInfo]:
        if isinstance(expr, ast.Name):
            k, v = self.resolve(module, expr.id)
            return v if k == "class" else None
        if isinstance(expr, ast.Attribute) and isinstance(expr.value, ast.Name):
            k, v = self.resolve(module, expr.value.id)
            if k == "module":
                m = self.modules[v]
                return m.classes.get(expr.attr)
        return None

    def mro(self, ci: ClassInfo) -> List[ClassInfo]:
        out = [ci]
        for b in ci.node.bases:
            bc = self.resolve_class(ci.module, b)
            if bc is not None:
                for c in self.mro(bc):
                    if c not in out:
                        out.append(c)
        return out

    def find_method(self, ci: ClassInfo, name: str) -> Optional[FuncInfo]:
        for c in self.mro(ci):
            if name in c.methods:
                return c.methods[name]
        return None

    def ext_name(self, module: Module, expr: ast.expr) -> Optional[str]:
        """dotted external/library name of an expression like httpx.post / json.dumps / Name"""
        if isinstance(expr, ast.Name):
            k, v = self.resolve(module, expr.id)
            if k == "ext":
                return v
            if k == "unknown":
                return expr.id  # builtin or local
            return None
        if isinstance(expr, ast.Attribute):
            base = self.ext_name(module, expr.value)
            if base is not None:
                return f"{base}.{expr.attr}"
        return None

    # -------------------------------------------------------------- constants
    def const_of(self, module: Module, name: str) -> Any:
        key = (module.dotted, name)
        if key in self._const_cache:
            v = self._const_cache[key]
            if isinstance(v, NotConst):
                raise v
            return v
        vals = module.assigns.get(name)
        if not vals or len(vals) != 1 or not isinstance(vals[0], ast.expr):
            e = NotConst(name)
            self._const_cache[key] = e
            raise e
        self._const_cache[key] = NotConst(name)  # cycle guard
        try:
            v = self.const_eval(module, vals[0])
        except NotConst as e:
            self._const_cache[key] = e
            raise
        self._const_cache[key] = v
        return v

    def const_eval(self, module: Module, e: ast.expr, env: Optional[Dict[str, Any]] = None) -> Any:
        """fold a constant expression; raises NotConst"""
        env = env or {}
        if isinstance(e, ast.Constant):
            return e.value
        if isinstance(e, ast.Name):
            if e.id in env:
                return env[e.id]
            if e.id in ("True", "False", "None"):
                return {"True": True, "False": False, "None": None}[e.id]
            k, v = self.resolve(module, e.id)
            if k == "const":
                return v
            raise NotConst(e.id)
        if isinstance(e, (ast.Tuple, ast.List)):
            items = []
            for x in e.elts:
                if isinstance(x, ast.Starred):
                    items.extend(self.const_eval(module, x.value, env))
                else:
                    items.append(self.const_eval(module, x, env))
            return tuple(items) if isinstance(e, ast.Tuple) else items
        if isinstance(e, ast.Set):
            return frozenset(self.const_eval(module, x, env) for x in e.elts)
        if isinstance(e, ast.Dict):
            d = {}
            for k, v in zip(e.keys, e.values):
                if k is None:
                    d.update(self.const_eval(module, v, env))
                else:
                    d[self.const_eval(module, k, env)] = self.const_eval(module, v, env)
            return d
        if isinstance(e, ast.BinOp):
            l = self.const_eval(module, e.left, env)
            r = self.const_eval(module, e.right, env)
            try:
                if isinstance(e.op, ast.Add):
                    return l + r
                if isinstance(e.op, ast.Div):
                    return l / r
                if isinstance(e.op, ast.Mult):
                    return l * r
                if isinstance(e.op, ast.Mod):
                    return l % r
            except Exception as exc:
                raise NotConst(str(exc))
            raise NotConst("binop")
        if isinstance(e, ast.JoinedStr):
            out = ""
            for p in e.values:
                if isinstance(p, ast.Constant):
                    out += str(p.value)
                elif isinstance(p, ast.FormattedValue) and p.format_spec is None and p.conversion == -1:
                    out += str(self.const_eval(module, p.value, env))
                else:
                    raise NotConst("fstring")
            return out
        if isinstance(e, ast.Attribute):
            # Path(...).parent / .stem / .name ; Enum members are not folded
            base = self.const_eval(module, e.value, env)
            if isinstance(base, SymPath) and e.attr in ("parent", "stem", "name"):
                return getattr(base, e.attr)
            raise NotConst(ast.unparse(e))
        if isinstance(e, ast.Call):
            fn = e.func
            if isinstance(fn, ast.Name) and fn.id == "Path" and len(e.args) == 1 and isinstance(e.args[0], ast.Name) and e.args[0].id == "__file__":
                return SymPath(module, (os.path.basename(module.relpath),))
            if isinstance(fn, ast.Attribute) and fn.attr == "as_posix" and not e.args:
                base = self.const_eval(module, fn.value, env)
                if isinstance(base, SymPath):
                    return base
            raise NotConst(ast.unparse(e))
        if isinstance(e, ast.UnaryOp) and isinstance(e.op, ast.USub):
            return -self.const_eval(module, e.operand, env)
        raise NotConst(type(e).__name__)


# ------------------------------------------------------------------ helpers
def norm(node: ast.AST) -> str:
    """whitespace-normal source text of a node (used for construct keys, never
    for deciding a rule)"""
    from .canon import NormText, canon_text
    try:
        return NormText(canon_text(" ".join(ast.unparse(node).split())))
    except Exception:  # pragma: no cover
        return NormText(type(node).__name__)


def walk_no_nested(node: ast.AST) -> Iterator[ast.AST]:
    """ast.walk that does not descend into nested function/class definitions
    (lambdas and comprehensions are descended)."""
    stack = list(ast.iter_child_nodes(node))
    while stack:
        n = stack.pop()
        yield n
        if isinstance(n, (ast.FunctionDef, ast.AsyncFunctionDef, ast.ClassDef)):
            continue
        stack.extend(ast.iter_child_nodes(n))


def calls_in(node: ast.AST, nested: bool = False) -> List[ast.Call]:
    it = ast.walk(node) if nested else walk_no_nested(node)
    return [n for n in it if isinstance(n, ast.Call)]


def call_name(c: ast.Call) -> str:
    """syntactic dotted name of the callee ('self.execute', 'json.dumps', 'f')"""
    return dotted(c.func)


def dotted(e: ast.AST) -> str:
    if isinstance(e, ast.Name):
        return e.id
    if isinstance(e, ast.Attribute):
        b = dotted(e.value)
        return f"{b}.{e.attr}" if b else e.attr
    if isinstance(e, ast.Call):
        return dotted(e.func) + "()"
    if isinstance(e, ast.Subscript):
        return dotted(e.value) + "[]"
    if isinstance(e, ast.Await):
        return dotted(e.value)
    return ""


def kwarg(c: ast.Call, name: str) -> Optional[ast.expr]:
    for k in c.keywords:
        if k.arg == name:
            return k.value
    return None


def bind_args(fi: FuncInfo, c: ast.Call, method: bool = False) -> Dict[str, ast.expr]:
    """bind a call's positional/keyword arguments to the callee's parameter names"""
    a = fi.node.args
    names = [x.arg for x in a.posonlyargs + a.args]
    if method and names and names[0] in ("self", "cls"):
        names = names[1:]
    out: Dict[str, ast.expr] = {}
    for i, arg in enumerate(c.args):
        if isinstance(arg, ast.Starred):
            out[f"*{i}"] = arg.value
        elif i < len(names):
            out[names[i]] = arg
        else:
            out[f"*{i}"] = arg
    for k in c.keywords:
        out[k.arg if k.arg else "**"] = k.value
    return out


def param_defaults(fi: FuncInfo) -> Dict[str, ast.expr]:
    a = fi.node.args
    pos = a.posonlyargs + a.args
    out = {}
    for p, d in zip(pos[len(pos) - len(a.defaults):], a.defaults):
        out[p.arg] = d
    for p, d in zip(a.kwonlyargs, a.kw_defaults):
        if d is not None:
            out[p.arg] = d
    return out
