"""Per-property metadata for evidence files: which clause is decided, what is not."""

_ASSUME_COMMON = [
    "the checker parses /repo/ariadne_codegen/**/*.py with ast on every run; repository code is never imported or executed",
    "isort, black, autoflake and ast.unparse are functions of their input that preserve string literals",
    "installed third-party sources (graphql-core, websockets, pydantic, enum) parsed as oracles are the ones used at run time",
]

_TB = ["CPython ast module", "sa/ (model, cfg, shape, rules) in /verif"]


def _p(expl, notdec, extra_assume=()):
    return {
        "explanation": "Static analysis (custom AST / CFG / provenance / shape rules over the generator's source). "
                       "Decides structural necessary conditions of the property, exhaustively over all rule "
                       "instances in the source; the behaviour itself is not decided. " + expl,
        "not_decided": notdec,
        "assumptions": _ASSUME_COMMON + list(extra_assume),
        "trusted_base": _TB,
    }


PROPS = {
    "C01": _p("Clause decided: every selected response key becomes a model member under an alias equal to the key, "
              "every fragment spread is accounted for, abstract positions get __typename injected and a Literal, "
              "annotation/class pairing, related classes generated; one class per type condition of an interface field (inline fragments and spreads on subtypes); shared model configuration table; root type of an operation; fragments attributed to subtypes; emitted client method bodies.",
              "acceptance/preservation of payloads by pydantic for all operation x response shapes; enum member mapping; model_dump round trip"),
    "C02": _p("Clause decided: the operation string reaches the written client only through literal-preserving functions; "
              "@mixin removal covers the directive's locations; authored graphql nodes are only mutated by the two documented rewrites; "
              "fragment closure is recursive and exhaustive; operation name / query binding; validation uses the full rule set.",
              "AST-equality of the embedded document for all literals and fragment graphs; validity for every fragment graph"),
    "C03": _p("Clause decided: wire keys of the variables dict come from the GraphQL variable names; optional args default to UNSET; "
              "UNSET filter and by_alias/exclude_unset dump in every base client; input aliases + populate_by_name; template locals cannot capture arguments; wrapper table of operation variable types (list / non-null / named, custom scalar through lists).",
              "that the JSON coerces back to the caller's values for all type shapes; pydantic's handling of enums/nested models"),
    "C04": _p("Clause decided: no reserved type redefinition; written files = reported files; collision check covers written names and precedes writes; "
              "used names are imported; __all__ = re-exports; model_rebuild for forward refs; raise discipline; enum member escaping; per-kind type selections keep everything but `__` names; module names / imports / fragment tables threaded to every generator; typing / pydantic names any reachable helper can emit are imported by the module; defaulting idioms keep the value they default.",
              "importability of every emitted package (requires running the generator and Python); autoflake never pruning a needed import"),
    "C05": _p("Clause decided: nullable-flag transfer across List/NonNull in the result mapper; Optional iff nullable or @skip/@include; "
              "__typename Literal; scalar image table; validation mode; a selected field is typed from its own schema definition (`__typename` fallback String!, unknown field rejected).",
              "rejection of each corrupted payload by pydantic; exact annotation image for all nestings"),
    "C06": _p("Clause decided: nullable-flag transfer in the input mappers (sibling agreement with the result mapper); const-value kind exhaustiveness; "
              "enum default literal context; required-ness decision table (with and without SDL nodes); alias keeps default; default source; populate_by_name.",
              "value of emitted default expressions; coincidence of pydantic validation and GraphQL input coercion"),
    "C07": _p("Clause decided: parse/serialize wrappers sit innermost (inside Optional/List), are emitted only when configured; "
              "top-level variable serialisation depends on wrappers (information-flow); imports for type/parse/serialize emitted in every consumer; argument values wrapped in serialize iff configured (parse plays no role); custom_scalars threaded to every generator.",
              "run-time call counts of parse/serialize inside pydantic"),
    "C08": _p("Clause decided: the mixin-vs-unpack decision paths; a fragment used as a base is never excluded from fragments.py; "
              "post-order of the fragment DFS; @mixin bases paired with imports.",
              "isinstance/MRO facts of imported classes; model_validate on sub-payloads"),
    "C09": _p("Clause decided: every producer of used enums is consumed before enums are pruned; typestate of the input generator; "
              "input dependency closure is complete; filters only select; accessors return the accumulator they are named after and aggregating generators feed theirs from every sub-generator; the names a module exports are those of exactly the classes it writes.",
              "behavioural identity of pruned and unpruned packages"),
    "C10": _p("Clause decided (sufficient condition): no unordered source (set iteration, directory listing) reaches emitted order except through "
              "an order-normalising sink; no ambient input (time, random, env) reaches emitted text; target directory is write-only and created only when missing.",
              "determinism of the third-party formatters themselves (trusted)"),
    "C11": _p("Clause decided: the four bundled clients agree after async/telemetry erasure; body keys and provenance; header merge order; "
              "upload extraction paths; no shared mutable state on the client; UNSET filter / dump flags.",
              "bytes on the wire produced by httpx, httpx internals, interleavings inside httpx"),
    "C12": _p("Clause decided: precedence of the response classification is a CFG property of get_data (status < decode < shape < errors < data), "
              "closed outcome set, error attribute mapping, generated method chain execute -> get_data -> model_validate (emitted-code templates of the three method flavours); add_method routing; each operation gets the method flavour of the configured client.",
              "exceptions raised from inside library calls"),
    "C13": _p("Clause decided: handshake order (init < ack < subscribe < loop) as a dominance chain; connect keyword arguments exist in the installed websockets; "
              "dispatch exhaustive over the message-type enum with the required effect per branch; frame loop yields handler results; payload shapes; OTel twin equality.",
              "behaviour over frame sequences against a live library"),
    "C14": _p("Clause decided: wire names in emitted builders come from schema names; variable type strings keep wrappers; no shared mutable builder instances; "
              "no discarded recursive result; unique variable names; None arguments filtered; assembly of the document; non-null marker follows required-ness; client.query / client.mutation build their own operation type; the emitted builder classes, root builders, argument kinds, type collector and the runtime GraphQLField as decision tables / emitted-code templates.",
              "validity of built documents for all schemas and expression trees"),
    "C15": _p("Clause decided: identity base hooks; ordered dispatch threading the result; hook table agreement; write sets of bundled plugins; "
              "ShorterResults unwraps the same value (and exactly the Annotated[T, meta] wrapper); ExtractOperations strings; ImportFrom level consistency; hook firing order vs. plugin state; plugin manager threaded to every generator; decision tables of the ShorterResults and ClientForwardRefs rewriters (when a method is rewritten, which imports move where).",
              "differential behaviour plugged vs. unplugged for all inputs"),
    "C16": _p("Clause decided: emitted constructor keyword coverage against graphql-core's to_kwargs; attribute pass-through; named-type kind exhaustiveness; "
              "lazy references inside the type map; variable names threaded unchanged through every generator; SDL target prints the validated schema; explicit UTF-8 for targets and inputs; entry-point routing; settings handed over to the generators; the target format is decided from the last suffix, the part the validator checked.",
              "equality of the schema obtained by executing the generated module; fidelity of repr-embedded literals"),
    "C17": _p("Clause decided: every name/path setting is validated; identifier predicate rejects keywords; validation not made vacuous by assume_valid; "
              "validate-before-write dominance in main; typed errors (section lookup table, message carries every validation error); configuration not mutated; full operation validation.",
              "completeness of graphql-core's own validation; failures arising inside generate()"),
    "C18": _p("Clause decided: tokeniser regex covers every letter and digit (automaton emptiness); identifier-ness mechanisms of process_name; "
              "wire vs. Python name colouring; presence of a collision mechanism per scope; reserved names; purity; process_name decision table; convert_to_snake_case threaded to every generator.",
              "idempotence and pairwise collision-freedom over all strings"),
    "C19": _p("Clause decided: no SDL-only datum (ast_node) reaches emitted code; file partition independence (sorted walk, suffix set); "
              "introspection failure discipline as a CFG property; request parameters provenance; file and URL sources agree on the validation mode; input defaults do not depend on SDL nodes.",
              "equality of packages generated from different sources"),
}
