"""Typed call graph over the repository model.

Receivers are resolved through a light type inference:
  * `self`                       -> the enclosing class
  * `self.attr`                  -> classes assigned to that attribute anywhere in the class (constructor calls,
                                    annotated parameters, `a if a else B(...)`, `a or B(...)`)
  * local names                  -> classes of the expressions bound to them, annotated parameters
  * `Class(...)`                 -> Class;  `f(...)` / `x.m(...)` -> classes named in the callee's return annotation
  * `super()`                    -> the bases of the enclosing class
Calls whose receiver type is unknown are left unresolved (counted, never guessed by method name).
Nested functions and lambdas belong to the function that defines them."""
from __future__ import annotations

import ast
from typing import Dict, Iterable, List, Optional, Set, Tuple

from .model import ClassInfo, FuncInfo, Module, Repo, dotted, norm


class CallGraph:
    def __init__(self, repo: Repo):
        self.repo = repo
        self._attr_types: Dict[str, Dict[str, Set[str]]] = {}
        self._callees: Dict[str, List[Tuple[ast.Call, List[FuncInfo]]]] = {}
        self._local_types: Dict[str, Dict[str, Set[str]]] = {}
        self._classes: Dict[str, ClassInfo] = {c.key: c for c in repo.all_classes()}
        self._in_progress: Set[str] = set()
        self.unresolved = 0
        self.resolved = 0

    # ------------------------------------------------------------------ annotations
    def ann_classes(self, module: Module, ann: Optional[ast.expr]) -> Set[str]:
        out: Set[str] = set()
        if ann is None:
            return out
        if isinstance(ann, ast.Constant) and isinstance(ann.value, str):
            try:
                ann = ast.parse(ann.value, mode="eval").body
            except SyntaxError:
                return out
        for n in ast.walk(ann):
            if isinstance(n, ast.Constant) and isinstance(n.value, str) and n.value.isidentifier():
                ci = self.repo.resolve_class(module, ast.Name(id=n.value, ctx=ast.Load()))
                if ci is not None:
                    out.add(ci.key)
            elif isinstance(n, (ast.Name, ast.Attribute)):
                ci = self.repo.resolve_class(module, n)
                if ci is not None:
                    out.add(ci.key)
        return out

    # ------------------------------------------------------------------ class attribute types
    def attr_types(self, ci: ClassInfo) -> Dict[str, Set[str]]:
        if ci.key in self._attr_types:
            return self._attr_types[ci.key]
        out: Dict[str, Set[str]] = {}
        self._attr_types[ci.key] = out
        for c in reversed(self.repo.mro(ci)):
            for name, ann, _ in c.fields():
                out.setdefault(name, set()).update(self.ann_classes(c.module, ann))
            for fi in c.methods.values():
                for st in ast.walk(fi.node):
                    tgt = val = ann = None
                    if isinstance(st, ast.Assign) and len(st.targets) == 1:
                        tgt, val = st.targets[0], st.value
                    elif isinstance(st, ast.AnnAssign):
                        tgt, val, ann = st.target, st.value, st.annotation
                    if isinstance(tgt, ast.Attribute) and isinstance(tgt.value, ast.Name) and tgt.value.id == "self":
                        ts = set()
                        if ann is not None:
                            ts |= self.ann_classes(c.module, ann)
                        if val is not None:
                            ts |= self.expr_types(fi, val)
                        out.setdefault(tgt.attr, set()).update(ts)
        return out

    # ------------------------------------------------------------------ local types
    def local_types(self, fi: FuncInfo) -> Dict[str, Set[str]]:
        if fi.key in self._local_types:
            return self._local_types[fi.key]
        out: Dict[str, Set[str]] = {}
        self._local_types[fi.key] = out
        a = fi.node.args
        for p in a.posonlyargs + a.args + a.kwonlyargs:
            out.setdefault(p.arg, set()).update(self.ann_classes(fi.module, p.annotation))
        for n in ast.walk(fi.node):
            for name, ann in getattr(n, "_local_annotations", {}).items():
                out.setdefault(name, set()).update(self.ann_classes(fi.module, ann))
        for _ in range(2):  # two passes: chains x = A(); y = x.make()
            for st in ast.walk(fi.node):
                if isinstance(st, ast.Assign) and len(st.targets) == 1 and isinstance(st.targets[0], ast.Name):
                    out.setdefault(st.targets[0].id, set()).update(self.expr_types(fi, st.value))
                elif isinstance(st, ast.AnnAssign) and isinstance(st.target, ast.Name):
                    out.setdefault(st.target.id, set()).update(self.ann_classes(fi.module, st.annotation))
                    if st.value is not None:
                        out[st.target.id].update(self.expr_types(fi, st.value))
                elif isinstance(st, (ast.With, ast.AsyncWith)):
                    for it in st.items:
                        if isinstance(it.optional_vars, ast.Name):
                            out.setdefault(it.optional_vars.id, set()).update(self.expr_types(fi, it.context_expr))
        return out

    def expr_types(self, fi: FuncInfo, e: ast.expr) -> Set[str]:
        if isinstance(e, ast.Await):
            return self.expr_types(fi, e.value)
        if isinstance(e, ast.Name):
            if e.id in ("self", "cls") and fi.cls is not None:
                return {fi.cls.key}
            if fi.key in self._local_types and e.id in self._local_types[fi.key]:
                return set(self._local_types[fi.key][e.id])
            if fi.key not in self._local_types:
                return set(self.local_types(fi).get(e.id, set()))
            return set()
        if isinstance(e, ast.Attribute):
            if isinstance(e.value, ast.Name) and e.value.id == "self" and fi.cls is not None:
                return set(self.attr_types(fi.cls).get(e.attr, set()))
            out: Set[str] = set()
            for t in self.expr_types(fi, e.value):
                ci = self._classes.get(t)
                if ci is not None:
                    out |= self.attr_types(ci).get(e.attr, set())
            return out
        if isinstance(e, ast.IfExp):
            return self.expr_types(fi, e.body) | self.expr_types(fi, e.orelse)
        if isinstance(e, ast.BoolOp):
            out = set()
            for v in e.values:
                out |= self.expr_types(fi, v)
            return out
        if isinstance(e, ast.NamedExpr):
            return self.expr_types(fi, e.value)
        if isinstance(e, ast.Call):
            ci = self.repo.resolve_class(fi.module, e.func) if isinstance(e.func, (ast.Name, ast.Attribute)) else None
            if ci is not None:
                return {ci.key}
            if isinstance(e.func, ast.Name) and e.func.id == "cast" and len(e.args) == 2:
                return self.ann_classes(fi.module, e.args[0]) | self.expr_types(fi, e.args[1])
            out = set()
            for callee in self.resolve_call(fi, e):
                out |= self.ann_classes(callee.module, callee.node.returns)
            return out
        return set()

    # ------------------------------------------------------------------ call resolution
    def resolve_call(self, fi: FuncInfo, c: ast.Call) -> List[FuncInfo]:
        f = c.func
        repo = self.repo
        out: List[FuncInfo] = []
        if isinstance(f, ast.Name):
            k, v = repo.resolve(fi.module, f.id)
            if k == "func":
                out.append(v)
            elif k == "class":
                for nm in ("__init__", "__post_init__"):
                    m = repo.find_method(v, nm)
                    if m is not None:
                        out.append(m)
            else:
                # nested function of the same enclosing function
                q = f"{fi.qualname}.{f.id}"
                if q in fi.module.functions:
                    out.append(fi.module.functions[q])
            return out
        if isinstance(f, ast.Attribute):
            recv = f.value
            if isinstance(recv, ast.Call) and isinstance(recv.func, ast.Name) and recv.func.id == "super" and fi.cls is not None:
                for b in repo.mro(fi.cls)[1:]:
                    if f.attr in b.methods:
                        return [b.methods[f.attr]]
                return []
            if isinstance(recv, ast.Name):
                k, v = repo.resolve(fi.module, recv.id)
                if k == "module":
                    m = repo.modules[v]
                    if f.attr in m.functions:
                        return [m.functions[f.attr]]
                    if f.attr in m.classes:
                        return [x for x in (repo.find_method(m.classes[f.attr], "__init__"),) if x is not None]
                if k == "class" and recv.id not in ("self", "cls"):
                    m = repo.find_method(v, f.attr)
                    return [m] if m is not None else []
            for t in sorted(self.expr_types(fi, recv)):
                ci = self._classes.get(t)
                if ci is None:
                    continue
                m = repo.find_method(ci, f.attr)
                if m is not None and m not in out:
                    out.append(m)
                # subclasses may override (receiver typed by its declared base)
                for sub in self._classes.values():
                    if sub is not ci and ci in repo.mro(sub) and f.attr in sub.methods and sub.methods[f.attr] not in out:
                        out.append(sub.methods[f.attr])
            return out
        return out

    def callees(self, fi: FuncInfo) -> List[Tuple[ast.Call, List[FuncInfo]]]:
        if fi.key in self._callees:
            return self._callees[fi.key]
        out: List[Tuple[ast.Call, List[FuncInfo]]] = []
        self._callees[fi.key] = out
        for n in ast.walk(fi.node):
            if isinstance(n, ast.Call):
                r = self.resolve_call(fi, n)
                out.append((n, r))
                if r:
                    self.resolved += 1
                elif isinstance(n.func, ast.Attribute) and not isinstance(n.func.value, ast.Constant):
                    self.unresolved += 1
        return out

    def calls_in(self, fi: FuncInfo, node: ast.AST) -> List[Tuple[ast.Call, List[FuncInfo]]]:
        ids = {id(n) for n in ast.walk(node) if isinstance(n, ast.Call)}
        return [(c, r) for c, r in self.callees(fi) if id(c) in ids]

    def reach(self, roots: Iterable[FuncInfo]) -> Dict[str, FuncInfo]:
        seen: Dict[str, FuncInfo] = {}
        work = list(roots)
        while work:
            f = work.pop()
            if f.key in seen:
                continue
            seen[f.key] = f
            for _, rs in self.callees(f):
                work.extend(rs)
        return seen
