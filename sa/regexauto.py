"""Regex -> automaton over character *classes* of GraphQL names, to decide properties
of `re.findall` tokenisation without trying strings.

Alphabet: U (A-Z), L (a-z), D (0-9), S (underscore).  GraphQL names contain nothing
else.  The regex AST comes from `re._parser.parse` (the pattern text is assembled by
constant folding of the repository's source, never by running it)."""
from __future__ import annotations

import re._parser as sre_parse  # type: ignore
import re._constants as sre_c  # type: ignore
from typing import Dict, FrozenSet, List, Optional, Set, Tuple

from .model import AnalysisError

CLASSES = ("U", "L", "D", "S")
REP = {"U": "A", "L": "a", "D": "1", "S": "_"}
_MEMBERS = {"U": set(range(ord("A"), ord("Z") + 1)), "L": set(range(ord("a"), ord("z") + 1)),
            "D": set(range(ord("0"), ord("9") + 1)), "S": {ord("_")}}


def _charset_classes(items) -> Set[str]:
    """classes covered by an IN set; a class must be covered wholly or not at all"""
    chars: Set[int] = set()
    negate = False
    for op, av in items:
        if op is sre_c.NEGATE:
            negate = True
        elif op is sre_c.LITERAL:
            chars.add(av)
        elif op is sre_c.RANGE:
            chars |= set(range(av[0], av[1] + 1))
        elif op is sre_c.CATEGORY:
            chars |= _category(av)
        else:
            raise AnalysisError(f"regex: unsupported set item {op}")
    universe = set().union(*_MEMBERS.values())
    if negate:
        chars = universe - chars
    out = set()
    for c, mem in _MEMBERS.items():
        inter = mem & chars
        if inter and inter != mem:
            raise AnalysisError(f"regex: character set splits class {c}; refine the alphabet")
        if inter:
            out.add(c)
    return out


def _category(av) -> Set[int]:
    universe = set().union(*_MEMBERS.values())
    word = universe  # all GraphQL name characters are word characters
    if av is sre_c.CATEGORY_DIGIT:
        return set(_MEMBERS["D"])
    if av is sre_c.CATEGORY_NOT_DIGIT:
        return universe - _MEMBERS["D"]
    if av is sre_c.CATEGORY_WORD:
        return set(word)
    if av is sre_c.CATEGORY_NOT_WORD:
        return set()
    if av is sre_c.CATEGORY_SPACE:
        return set()
    if av is sre_c.CATEGORY_NOT_SPACE:
        return set(universe)
    raise AnalysisError(f"regex: unsupported category {av}")


class NFA:
    """epsilon-NFA over CLASSES; state 0 start"""

    def __init__(self):
        self.trans: List[Dict[Optional[str], Set[int]]] = []
        self.accept: Set[int] = set()

    def new(self) -> int:
        self.trans.append({})
        return len(self.trans) - 1

    def add(self, a: int, sym: Optional[str], b: int) -> None:
        self.trans[a].setdefault(sym, set()).add(b)

    def eclose(self, states: Set[int]) -> FrozenSet[int]:
        seen = set(states)
        stack = list(states)
        while stack:
            s = stack.pop()
            for t in self.trans[s].get(None, ()):
                if t not in seen:
                    seen.add(t)
                    stack.append(t)
        return frozenset(seen)

    def step(self, states: FrozenSet[int], sym: str) -> FrozenSet[int]:
        nxt: Set[int] = set()
        for s in states:
            nxt |= self.trans[s].get(sym, set())
        return self.eclose(nxt)


def _build(nfa: NFA, items, start: int, at_end_ok: bool = False) -> Tuple[int, bool]:
    """build sequence `items` from state start; returns (end state, saw_end_anchor)"""
    cur = start
    end_anchor = False
    for op, av in items:
        if end_anchor:
            raise AnalysisError("regex: pattern continues after $")
        if op is sre_c.LITERAL:
            cls = _charset_classes([(sre_c.LITERAL, av)])
            nxt = nfa.new()
            for c in cls:
                nfa.add(cur, c, nxt)
            cur = nxt
        elif op is sre_c.IN:
            cls = _charset_classes(av)
            nxt = nfa.new()
            for c in cls:
                nfa.add(cur, c, nxt)
            cur = nxt
        elif op is sre_c.CATEGORY:
            raise AnalysisError("regex: bare category")
        elif op in (sre_c.MAX_REPEAT, sre_c.MIN_REPEAT):
            lo, hi, sub = av
            for _ in range(lo):
                cur, _e = _build(nfa, list(sub), cur)
            if hi is sre_c.MAXREPEAT:
                loop = nfa.new()
                nfa.add(cur, None, loop)
                e, _e = _build(nfa, list(sub), loop)
                nfa.add(e, None, loop)
                cur = loop
            else:
                ends = [cur]
                for _ in range(hi - lo):
                    cur, _e = _build(nfa, list(sub), cur)
                    ends.append(cur)
                join = nfa.new()
                for e in ends:
                    nfa.add(e, None, join)
                cur = join
        elif op is sre_c.SUBPATTERN:
            cur, _e = _build(nfa, list(av[3]), cur)
        elif op is sre_c.BRANCH:
            join = nfa.new()
            for alt in av[1]:
                s = nfa.new()
                nfa.add(cur, None, s)
                e, ea = _build(nfa, list(alt), s, at_end_ok)
                if ea:
                    if not at_end_ok:
                        raise AnalysisError("regex: $ in a position that is not the end of a look-ahead")
                    nfa.trans[e]["$"] = set()  # end-of-input only: not joined with the other alternatives
                else:
                    nfa.add(e, None, join)
            cur = join
        elif op is sre_c.AT:
            if av in (sre_c.AT_END, sre_c.AT_END_STRING) and at_end_ok:
                end_anchor = True
                nfa.trans[cur]["$"] = set()
            else:
                raise AnalysisError(f"regex: unsupported anchor {av}")
        else:
            raise AnalysisError(f"regex: unsupported construct {op}")
    return cur, end_anchor


class Alternative:
    """one top-level alternative: body NFA (must match a non-empty prefix) followed by an
    optional look-ahead language LA (what may follow), with `$` = end of input"""

    def __init__(self, items):
        items = list(items)
        self.lookahead = None
        if items and items[-1][0] is sre_c.ASSERT:
            direction, sub = items[-1][1]
            if direction != 1:
                raise AnalysisError("regex: look-behind not supported")
            self.lookahead = list(sub)
            items = items[:-1]
        if any(op in (sre_c.ASSERT, sre_c.ASSERT_NOT) for op, _ in items):
            raise AnalysisError("regex: look-around inside an alternative")
        self.items = items


def match_language(pattern: str) -> Tuple[NFA, int]:
    """NFA for M = union_i (Body_i minus empty) . (LA_i . Sigma*  |  end if LA_i allows $)
    i.e. the set of strings at whose start `findall` finds a non-empty token"""
    parsed = sre_parse.parse(pattern)
    top = list(parsed)
    if len(top) == 1 and top[0][0] is sre_c.BRANCH:
        alts = [Alternative(a) for a in top[0][1][1]]
    else:
        alts = [Alternative(top)]
    nfa = NFA()
    start = nfa.new()
    sink = nfa.new()  # Sigma* accepting sink
    for c in CLASSES:
        nfa.add(sink, c, sink)
    nfa.accept.add(sink)
    for alt in alts:
        s = nfa.new()
        nfa.add(start, None, s)
        # non-empty body: require at least one symbol -> build body, then intersect with "consumed >= 1"
        # done by building body twice is overkill; instead build body and forbid the epsilon path by
        # tracking a flag: duplicate states (flag=0 before first symbol, flag=1 after)
        body = NFA()
        b0 = body.new()
        be, _ = _build(body, alt.items, b0)
        # product with flag
        m0: Dict[int, int] = {}
        m1: Dict[int, int] = {}
        for st in range(len(body.trans)):
            m0[st] = nfa.new()
            m1[st] = nfa.new()
        for st in range(len(body.trans)):
            for sym, tg in body.trans[st].items():
                for t in tg:
                    if sym is None:
                        nfa.add(m0[st], None, m0[t])
                        nfa.add(m1[st], None, m1[t])
                    else:
                        nfa.add(m0[st], sym, m1[t])
                        nfa.add(m1[st], sym, m1[t])
        nfa.add(s, None, m0[b0])
        end = m1[be]
        if alt.lookahead is None:
            nfa.add(end, None, sink)
        else:
            la_start = nfa.new()
            nfa.add(end, None, la_start)
            le, ea = _build(nfa, alt.lookahead, la_start, at_end_ok=True)
            # states carrying the "$" marker accept only at end of input; others continue with Sigma*
            nfa.add(le, None, sink) if not ea else None
            for st in range(len(nfa.trans)):
                if "$" in nfa.trans[st]:
                    del nfa.trans[st]["$"]
                    fin = nfa.new()
                    nfa.add(st, None, fin)
                    nfa.accept.add(fin)  # accepting, no outgoing transitions: end of input only
    nfa.accept = {a for a in nfa.accept if a >= 0}
    return nfa, start


def uncovered_after(pattern: str, first: str) -> Optional[str]:
    """None if for every continuation w over the name alphabet some alternative matches a
    non-empty token at the start of first.w; otherwise a witness (abstract string rendered
    with representatives)"""
    nfa, start = match_language(pattern)
    s0 = nfa.step(nfa.eclose({start}), first)
    seen = {s0: first}
    queue = [s0]
    while queue:
        st = queue.pop(0)
        if not (st & nfa.accept):
            return "".join(REP[c] for c in seen[st])
        for c in CLASSES:
            nx = nfa.step(st, c)
            if nx not in seen:
                seen[nx] = seen[st] + c
                queue.append(nx)
    return None


def token_sets(pattern: str) -> List[Set[str]]:
    """classes that can start a token of each alternative"""
    parsed = sre_parse.parse(pattern)
    top = list(parsed)
    alts = [Alternative(a) for a in top[0][1][1]] if len(top) == 1 and top[0][0] is sre_c.BRANCH else [Alternative(top)]
    out = []
    for alt in alts:
        nfa = NFA()
        s = nfa.new()
        _build(nfa, alt.items, s)
        st = nfa.eclose({s})
        first = set()
        for c in CLASSES:
            if nfa.step(st, c):
                first.add(c)
        out.append(first)
    return out


def alternative_classes(pattern: str) -> List[Set[str]]:
    """classes that can occur anywhere inside a token of each alternative"""
    parsed = sre_parse.parse(pattern)
    top = list(parsed)
    alts = [Alternative(a) for a in top[0][1][1]] if len(top) == 1 and top[0][0] is sre_c.BRANCH else [Alternative(top)]
    out = []
    for alt in alts:
        nfa = NFA()
        s = nfa.new()
        _build(nfa, alt.items, s)
        used = set()
        for tr in nfa.trans:
            used |= {k for k in tr if k is not None}
        out.append(used)
    return out
