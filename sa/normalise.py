"""Behaviour-preserving normal forms applied to every module when it is loaded.

The rules look at the shape of the code; these rewrites remove shape differences that cannot change behaviour, so a
rule never depends on them (each was found by the benign-transformation sweeps, tools/benign_sweep.py):

  docstrings        dropped (functions, classes)
  logging           expression statements `logger.x(...)` / `logging.x(...)` / `log.x(...)` / `warnings.warn(...)` dropped
                    when their arguments are free of calls other than str()/repr()/len() (so nothing of the program runs inside)
  else-after-exit   `if c: ...; return/raise/continue/break  else: REST`  ->  `if c: ...exit`  followed by REST
  temp-return       `x = E; return x`  ->  `return E`
  local annotation  `x: T = E` inside a function  ->  `x = E`   (the annotation is kept in `fn._local_annotations` for the
                    call graph's receiver typing); bare `x: T` declarations inside functions are dropped

A rewrite never deletes, reorders or duplicates an evaluated expression."""
from __future__ import annotations

import ast
from typing import Dict, List

LOG_ROOTS = {"logger", "logging", "log", "LOGGER", "_logger", "_log"}
_PURE = {"str", "repr", "len", "type"}
EXITS = (ast.Return, ast.Raise, ast.Continue, ast.Break)


def _is_log_stmt(st: ast.stmt) -> bool:
    if not (isinstance(st, ast.Expr) and isinstance(st.value, ast.Call)):
        return False
    f = st.value.func
    root = f
    while isinstance(root, ast.Attribute):
        root = root.value
    if not (isinstance(f, ast.Attribute) and isinstance(root, ast.Name)):
        return False
    ok = root.id in LOG_ROOTS or (root.id == "warnings" and f.attr == "warn")
    if not ok:
        return False
    for a in list(st.value.args) + [k.value for k in st.value.keywords]:
        for n in ast.walk(a):
            if isinstance(n, ast.Call) and not (isinstance(n.func, ast.Name) and n.func.id in _PURE):
                return False
            if isinstance(n, (ast.Await, ast.Yield, ast.YieldFrom, ast.NamedExpr)):
                return False
    return True


def _blocks(node: ast.AST):
    for fld in ("body", "orelse", "finalbody"):
        b = getattr(node, fld, None)
        if isinstance(b, list) and b and isinstance(b[0], ast.stmt):
            yield fld, b
    if isinstance(node, ast.Try):
        for h in node.handlers:
            yield "handler", h.body
    if hasattr(ast, "Match") and isinstance(node, ast.Match):
        for c in node.cases:
            yield "case", c.body


def _rewrite_block(body: List[ast.stmt], in_function: bool, stats: Dict[str, int], fn) -> List[ast.stmt]:
    out: List[ast.stmt] = []
    i = 0
    body = list(body)
    while i < len(body):
        st = body[i]
        if in_function and _is_log_stmt(st):
            stats["logging"] += 1
            i += 1
            continue
        if in_function and isinstance(st, ast.AnnAssign) and isinstance(st.target, ast.Name):
            if fn is not None:
                fn._local_annotations[st.target.id] = st.annotation
            if st.value is None:
                stats["annotation"] += 1
                i += 1
                continue
            new = ast.Assign(targets=[st.target], value=st.value, type_comment=None)
            ast.copy_location(new, st)
            stats["annotation"] += 1
            st = new
        if in_function and isinstance(st, ast.If) and st.orelse and st.body and isinstance(st.body[-1], EXITS):
            rest = st.orelse
            st.orelse = []
            body[i + 1:i + 1] = rest
            stats["else"] += 1
        if in_function and isinstance(st, ast.Assign) and len(st.targets) == 1 and isinstance(st.targets[0], ast.Name) and i + 1 < len(body) \
                and isinstance(body[i + 1], ast.Return) and isinstance(body[i + 1].value, ast.Name) and body[i + 1].value.id == st.targets[0].id:
            new = ast.Return(value=st.value)
            ast.copy_location(new, st)
            stats["tempreturn"] += 1
            out.append(new)
            i += 2
            continue
        out.append(st)
        i += 1
    if not out:
        p = ast.Pass()
        p.lineno = p.end_lineno = getattr(body[0], "lineno", 0) if body else 0
        p.col_offset = p.end_col_offset = 0
        out = [p]
    return out


def _walk(node: ast.AST, in_function: bool, stats: Dict[str, int], fn) -> None:
    if isinstance(node, (ast.FunctionDef, ast.AsyncFunctionDef)):
        in_function = True
        fn = node
        if not hasattr(node, "_local_annotations"):
            node._local_annotations = {}
    elif isinstance(node, ast.ClassDef):
        in_function = False
        fn = None
    if isinstance(node, (ast.FunctionDef, ast.AsyncFunctionDef, ast.ClassDef)) and len(node.body) > 1 \
            and isinstance(node.body[0], ast.Expr) and isinstance(node.body[0].value, ast.Constant) and isinstance(node.body[0].value.value, str):
        node.body = node.body[1:]
        stats["docstring"] += 1
    for fld, b in list(_blocks(node)):
        new = _rewrite_block(b, in_function, stats, fn)
        if fld in ("body", "orelse", "finalbody"):
            setattr(node, fld, new)
        else:
            b[:] = new
    for c in ast.iter_child_nodes(node):
        _walk(c, in_function, stats, fn)


def normalise_tree(tree: ast.Module) -> Dict[str, int]:
    stats = {"docstring": 0, "logging": 0, "else": 0, "tempreturn": 0, "annotation": 0}
    _walk(tree, False, stats, None)
    return stats


# --------------------------------------------------------------------------- constant folding (whole-repository pass)
def _bound_names(fn: ast.AST) -> set:
    out = set()
    for n in ast.walk(fn):
        if isinstance(n, (ast.FunctionDef, ast.AsyncFunctionDef, ast.Lambda)):
            a = n.args
            out |= {x.arg for x in a.posonlyargs + a.args + a.kwonlyargs}
            if a.vararg:
                out.add(a.vararg.arg)
            if a.kwarg:
                out.add(a.kwarg.arg)
        elif isinstance(n, ast.Name) and isinstance(n.ctx, (ast.Store, ast.Del)):
            out.add(n.id)
        elif isinstance(n, ast.ExceptHandler) and n.name:
            out.add(n.name)
        elif isinstance(n, (ast.Import, ast.ImportFrom)):
            out |= {(a.asname or a.name).split(".")[0] for a in n.names}
    return out


def fold_constants(repo) -> int:
    """replace every Name that resolves (through the imports of the analysed tree) to a module-level scalar / tuple
    constant by its value.  Returns the number of names folded."""
    from .canon import ExprCanon, is_foldable
    total = 0
    for m in repo.modules.values():
        cache = {}
        count = [0]

        def const(name, m=m, cache=cache, count=count):
            if name.startswith("__") or name in ("True", "False", "None"):
                return None
            if name not in cache:
                r = None
                try:
                    k, v = repo.resolve(m, name)
                    if k == "const" and is_foldable(v) and not isinstance(v, bool) or (k == "const" and isinstance(v, bool)):
                        r = (True, v)
                except Exception:
                    r = None
                cache[name] = r
            if cache[name] is not None:
                count[0] += 1
            return cache[name]

        def do_block(body, bound):
            for i, st in enumerate(body):
                if isinstance(st, (ast.FunctionDef, ast.AsyncFunctionDef)):
                    b = bound | _bound_names(st)
                    c = ExprCanon(const, b)
                    st.body = [c.visit(x) for x in st.body]
                    st.args = c.visit(st.args)  # default values
                elif isinstance(st, ast.ClassDef):
                    do_block(st.body, bound)
                elif isinstance(st, (ast.Import, ast.ImportFrom, ast.Global, ast.Nonlocal)):
                    continue
                else:
                    body[i] = ExprCanon(const, bound).visit(st)
        do_block(m.tree.body, set())
        ast.fix_missing_locations(m.tree)
        m.constants_folded = count[0]
        total += count[0]
    return total
